(* One-dimensional model of the Vatti sweep's decision logic (DESIGN 6 C01/C05/C11).
   The active edge list (AEL) is a list of edges ordered left to right; an edge carries exactly the fields the
   decision code reads and writes: path type, winding direction, the two wind counts, whether it is "hot"
   (has an OutRec) and on which side (front/back) of its OutRec it is, and whether it belongs to an open path.
   Events are what the engine does to the AEL: insert the two bounds of a local minimum, swap two adjacent
   edges at an intersection (IntersectEdges + SwapPositionsInAEL), remove a maxima pair (DoMaxima).
   The functions below mirror clipper.engine.cpp: SetWindCountForClosedPathEdge, SetWindCountForOpenPathEdge,
   IsContributingClosed, IsContributingOpen, IntersectEdges (winding update + action selection),
   AddLocalMinPoly's side assignment, AddLocalMaxPoly's front/back test, SwapOutrecs, DoMaxima.
   OutRec identity is ring state, not sweep-line state: where the code tests e1.outrec == e2.outrec the model
   takes the answer from the environment ([same]).  Joins (collinear coincident edges) are not modelled. *)
From Clip Require Import base.Geom base.Region.
Local Open Scope Z_scope.

Inductive ptype := Subj | Clp.
Inductive side := Front | Back.

Record edge := mkE { ep : ptype; wdx : Z; wc : Z; wc2 : Z; hot : option side; eopen : bool }.

Definition ael := list edge.

Definition ptype_eqb (a b : ptype) : bool :=
  match a, b with Subj, Subj | Clp, Clp => true | _, _ => false end.
Definition side_eqb (a b : side) : bool :=
  match a, b with Front, Front | Back, Back => true | _, _ => false end.
Definition is_hot (e : edge) : bool := match hot e with Some _ => true | None => false end.

Definition set_wc (e : edge) (w : Z) : edge := mkE (ep e) (wdx e) w (wc2 e) (hot e) (eopen e).
Definition set_wc2 (e : edge) (w : Z) : edge := mkE (ep e) (wdx e) (wc e) w (hot e) (eopen e).
Definition set_hot (e : edge) (h : option side) : edge := mkE (ep e) (wdx e) (wc e) (wc2 e) h (eopen e).

(* ---------------- IsContributingClosed / IsContributingOpen ---------------- *)

Definition is_contributing_closed (ct : clip_type) (fr : fill_rule) (e : edge) : bool :=
  let pass :=
    match fr with
    | EvenOdd => true
    | NonZero => Z.abs (wc e) =? 1
    | Positive => wc e =? 1
    | Negative => wc e =? -1
    end in
  if negb pass then false else
  match ct with
  | NoClip => false
  | Intersection =>
      match fr with
      | Positive => 0 <? wc2 e
      | Negative => wc2 e <? 0
      | _ => negb (wc2 e =? 0)
      end
  | Union =>
      match fr with
      | Positive => wc2 e <=? 0
      | Negative => 0 <=? wc2 e
      | _ => wc2 e =? 0
      end
  | Difference =>
      let r := match fr with
               | Positive => wc2 e <=? 0
               | Negative => 0 <=? wc2 e
               | _ => wc2 e =? 0
               end in
      match ep e with Subj => r | Clp => negb r end
  | Xor => true
  end.

Definition is_contributing_open (ct : clip_type) (fr : fill_rule) (e : edge) : bool :=
  let '(in_clip, in_subj) :=
    match fr with
    | Positive => (0 <? wc2 e, 0 <? wc e)
    | Negative => (wc2 e <? 0, wc e <? 0)
    | _ => (negb (wc2 e =? 0), negb (wc e =? 0))
    end in
  match ct with
  | Intersection => in_clip
  | Union => negb in_subj && negb in_clip
  | _ => negb in_clip
  end.

(* ---------------- SetWindCountForClosedPathEdge ---------------- *)

(* walk left from e: edges skipped (nearest first) and the nearest closed edge of the same path type *)
Fixpoint split_prev (pt : ptype) (rp : list edge) : list edge * option edge :=
  match rp with
  | [] => ([], None)
  | x :: t =>
      if ptype_eqb (ep x) pt && negb (eopen x) then ([], Some x)
      else let '(sk, r) := split_prev pt t in (x :: sk, r)
  end.

(* the wind_cnt2 loop: e2 runs from the edge after the found one (or from actives_) up to e *)
Definition acc_wc2 (fr : fill_rule) (pt : ptype) (between : list edge) (w0 : Z) : Z :=
  fold_left (fun w x =>
               if negb (ptype_eqb (ep x) pt) && negb (eopen x)
               then match fr with EvenOdd => (if w =? 0 then 1 else 0) | _ => w + wdx x end
               else w) between w0.

Definition set_wind_closed (fr : fill_rule) (prefix : list edge) (e : edge) : edge :=
  let pt := ep e in
  let '(skipped, found) := split_prev pt (rev prefix) in
  let between := rev skipped in
  match found with
  | None =>
      let e' := set_wc e (wdx e) in
      set_wc2 e' (acc_wc2 fr pt between (wc2 e'))
  | Some e2 =>
      let w :=
        match fr with
        | EvenOdd => wdx e
        | _ =>
            if wc e2 * wdx e2 <? 0 then
              if 1 <? Z.abs (wc e2) then
                if wdx e2 * wdx e <? 0 then wc e2 else wc e2 + wdx e
              else (if eopen e then 1 else wdx e)
            else
              if wdx e2 * wdx e <? 0 then wc e2 else wc e2 + wdx e
        end in
      set_wc2 (set_wc e w) (acc_wc2 fr pt between (wc2 e2))
  end.

(* ---------------- SetWindCountForOpenPathEdge ---------------- *)

Definition set_wind_open (fr : fill_rule) (prefix : list edge) (e : edge) : edge :=
  match fr with
  | EvenOdd =>
      let cnt2 := Z.of_nat (length (filter (fun x => ptype_eqb (ep x) Clp) prefix)) in
      let cnt1 := Z.of_nat (length (filter (fun x => negb (ptype_eqb (ep x) Clp) && negb (eopen x)) prefix)) in
      set_wc2 (set_wc e (if Z.odd cnt1 then 1 else 0)) (if Z.odd cnt2 then 1 else 0)
  | _ =>
      fold_left (fun e' x =>
                   if ptype_eqb (ep x) Clp then set_wc2 e' (wc2 e' + wdx x)
                   else if negb (eopen x) then set_wc e' (wc e' + wdx x) else e')
                prefix e
  end.

(* ---------------- GetPrevHotEdge ---------------- *)

(* side of the nearest hot closed edge to the left (prefix given left to right) *)
Definition prev_hot (prefix : list edge) : option side :=
  fold_left (fun acc x => if eopen x then acc else match hot x with Some s => Some s | None => acc end)
            prefix None.

(* AddLocalMinPoly(e1, e2, pt, is_new): sides (hot e1, hot e2) of the new OutRec *)
Definition min_poly_sides (ph : option side) (is_new : bool) : side * side :=
  match ph with
  | Some s =>
      (* OutrecIsAscending(prevHotEdge) == is_new  -> SetSides(outrec, e2, e1) else SetSides(outrec, e1, e2) *)
      if Bool.eqb (side_eqb s Front) is_new then (Back, Front) else (Front, Back)
  | None => if is_new then (Front, Back) else (Back, Front)
  end.

(* ---------------- IntersectEdges ---------------- *)

(* the value the code calls old_e?_windcnt (computed AFTER the update) *)
Definition wnorm (fr : fill_rule) (w : Z) : Z :=
  match fr with
  | EvenOdd | NonZero => Z.abs w
  | Positive => w
  | Negative => - w
  end.

Inductive action := ANone | AMax | AMaxMin | ASwapBoth | ASwap1 | ASwap2 | AMin.

Definition update_counts (fr : fill_rule) (e1 e2 : edge) : edge * edge :=
  if ptype_eqb (ep e1) (ep e2) then
    match fr with
    | EvenOdd => (set_wc e1 (wc e2), set_wc e2 (wc e1))
    | _ =>
        let e1' := if wc e1 + wdx e2 =? 0 then set_wc e1 (- wc e1) else set_wc e1 (wc e1 + wdx e2) in
        let e2' := if wc e2 - wdx e1 =? 0 then set_wc e2 (- wc e2) else set_wc e2 (wc e2 - wdx e1) in
        (e1', e2')
    end
  else
    match fr with
    | EvenOdd => (set_wc2 e1 (if wc2 e1 =? 0 then 1 else 0), set_wc2 e2 (if wc2 e2 =? 0 then 1 else 0))
    | _ => (set_wc2 e1 (wc2 e1 + wdx e2), set_wc2 e2 (wc2 e2 - wdx e1))
    end.

(* action selection of the closed-path part, on the updated edges; [front1] = IsFront(e1) *)
Definition select_action (ct : clip_type) (fr : fill_rule) (same : bool) (e1 e2 : edge) : action :=
  let o1 := wnorm fr (wc e1) in
  let o2 := wnorm fr (wc e2) in
  let in01_1 := (o1 =? 0) || (o1 =? 1) in
  let in01_2 := (o2 =? 0) || (o2 =? 1) in
  if (negb (is_hot e1) && negb in01_1) || (negb (is_hot e2) && negb in01_2) then ANone
  else if is_hot e1 && is_hot e2 then
    if negb in01_1 || negb in01_2 ||
       (negb (ptype_eqb (ep e1) (ep e2)) && negb (match ct with Xor => true | _ => false end))
    then AMax
    else if (match hot e1 with Some Front => true | _ => false end) || same then AMaxMin
    else ASwapBoth
  else if is_hot e1 then ASwap1
  else if is_hot e2 then ASwap2
  else
    let c1 := wnorm fr (wc2 e1) in
    let c2 := wnorm fr (wc2 e2) in
    if negb (ptype_eqb (ep e1) (ep e2)) then AMin
    else if (o1 =? 1) && (o2 =? 1) then
      match ct with
      | Union => if (c1 <=? 0) && (c2 <=? 0) then AMin else ANone
      | Difference =>
          if (ptype_eqb (ep e1) Clp && (0 <? c1) && (0 <? c2)) ||
             (ptype_eqb (ep e1) Subj && (c1 <=? 0) && (c2 <=? 0)) then AMin else ANone
      | Xor => AMin
      | _ => if (0 <? c1) && (0 <? c2) then AMin else ANone
      end
    else ANone.

(* AddLocalMaxPoly: front/back mismatch (both on the same side) clears succeeded_ *)
Definition max_ok (e1 e2 : edge) : bool :=
  match hot e1, hot e2 with
  | Some s1, Some s2 => negb (side_eqb s1 s2)
  | _, _ => false   (* would dereference a null outrec *)
  end.

Definition apply_action (ph : option side) (act : action) (e1 e2 : edge) : option (edge * edge) :=
  match act with
  | ANone => Some (e1, e2)
  | AMax => if max_ok e1 e2 then Some (set_hot e1 None, set_hot e2 None) else None
  | AMaxMin =>
      if max_ok e1 e2 then
        let '(s1, s2) := min_poly_sides ph false in
        Some (set_hot e1 (Some s1), set_hot e2 (Some s2))
      else None
  | ASwapBoth => Some (set_hot e1 (hot e2), set_hot e2 (hot e1))
  | ASwap1 => Some (set_hot e1 None, set_hot e2 (hot e1))
  | ASwap2 => Some (set_hot e1 (hot e2), set_hot e2 None)
  | AMin =>
      let '(s1, s2) := min_poly_sides ph false in
      Some (set_hot e1 (Some s1), set_hot e2 (Some s2))
  end.

(* open-path branch: the open edge toggles when it crosses a closed edge that bounds the relevant region *)
Definition open_side (e : edge) : side := if 0 <? wdx e then Front else Back.

Definition isect_open (ct : clip_type) (fr : fill_rule) (o c : edge) : edge :=
  if negb (Z.abs (wc c) =? 1) then o
  else if (match ct with
           | Union => negb (is_hot c)
           | _ => ptype_eqb (ep c) Subj
           end) then o
  else if negb (match fr with
                | Positive => wc c =? 1
                | Negative => wc c =? -1
                | _ => Z.abs (wc c) =? 1
                end) then o
  else if is_hot o then set_hot o None else set_hot o (Some (open_side o)).

(* IntersectEdges(e1, e2) with e1 immediately left of e2; result before SwapPositionsInAEL *)
Definition intersect_edges (ct : clip_type) (fr : fill_rule) (ph : option side) (same : bool)
           (e1 e2 : edge) : option (edge * edge) :=
  if eopen e1 || eopen e2 then
    if eopen e1 && eopen e2 then Some (e1, e2)
    else if eopen e1 then Some (isect_open ct fr e1 e2, e2)
    else Some (e1, isect_open ct fr e2 e1)
  else
    let '(e1', e2') := update_counts fr e1 e2 in
    apply_action ph (select_action ct fr same e1' e2') e1' e2'.

(* ---------------- events ---------------- *)

Inductive event :=
| EInsert (pos : nat) (pt : ptype) (dl : Z) (opn : bool)   (* both bounds of a local minimum, left bound has wdx = dl *)
| EInsert1 (pos : nat) (d : Z)                             (* single bound at an open path's start/end vertex *)
| ESwap (i : nat) (same : bool)                            (* intersection of the adjacent edges i, i+1 *)
| ERemove (i : nat)                                        (* maxima pair at i, i+1 *)
| ERemove1 (i : nat).                                      (* an open path ends *)

Definition fresh (pt : ptype) (d : Z) (opn : bool) : edge := mkE pt d 0 0 None opn.

Definition step (ct : clip_type) (fr : fill_rule) (a : ael) (ev : event) : option ael :=
  match ev with
  | EInsert pos pt dl opn =>
      let pre := firstn pos a in
      let post := skipn pos a in
      let l0 := fresh pt dl opn in
      let l1 := if opn then set_wind_open fr pre l0 else set_wind_closed fr pre l0 in
      let contributing := if opn then is_contributing_open ct fr l1 else is_contributing_closed ct fr l1 in
      let r1 := mkE pt (- dl) (wc l1) (wc2 l1) None opn in
      if contributing then
        let '(sl, sr) := if opn then (open_side l1, open_side r1) else min_poly_sides (prev_hot pre) true in
        Some (pre ++ set_hot l1 (Some sl) :: set_hot r1 (Some sr) :: post)
      else Some (pre ++ l1 :: r1 :: post)
  | EInsert1 pos d =>
      let pre := firstn pos a in
      let post := skipn pos a in
      let l1 := set_wind_open fr pre (fresh Subj d true) in
      if is_contributing_open ct fr l1
      then Some (pre ++ set_hot l1 (Some (open_side l1)) :: post)
      else Some (pre ++ l1 :: post)
  | ESwap i same =>
      match skipn i a with
      | e1 :: e2 :: post =>
          let pre := firstn i a in
          match intersect_edges ct fr (prev_hot pre) same e1 e2 with
          | Some (e1', e2') => Some (pre ++ e2' :: e1' :: post)
          | None => None
          end
      | _ => None
      end
  | ERemove i =>
      match skipn i a with
      | e1 :: e2 :: post =>
          let pre := firstn i a in
          if is_hot e1 then (if max_ok e1 e2 then Some (pre ++ post) else None)
          else Some (pre ++ post)
      | _ => None
      end
  | ERemove1 i =>
      match skipn i a with
      | e1 :: post => Some (firstn i a ++ post)
      | _ => None
      end
  end.

Fixpoint run (ct : clip_type) (fr : fill_rule) (a : ael) (evs : list event) : option ael :=
  match evs with
  | [] => Some a
  | ev :: t => match step ct fr a ev with Some a' => run ct fr a' t | None => None end
  end.

(* ---------------- the invariant ---------------- *)

Definition contrib (pt : ptype) (e : edge) : Z :=
  if eopen e then 0 else if ptype_eqb (ep e) pt then wdx e else 0.

(* the winding number farther from zero of the two regions an edge separates *)
Definition hi (W d : Z) : Z := if Z.abs W <? Z.abs (W + d) then W + d else W.

Definition wc_ok (fr : fill_rule) (w W d : Z) : bool :=
  match fr with
  | EvenOdd => (w =? 1) || (w =? -1)
  | _ => w =? hi W d
  end.

Definition wc2_ok (fr : fill_rule) (w2 W : Z) : bool :=
  match fr with
  | EvenOdd => w2 =? (if Z.odd W then 1 else 0)
  | _ => w2 =? W
  end.

Definition boundary_side (gl gr : bool) : option side :=
  match gl, gr with
  | false, true => Some Front
  | true, false => Some Back
  | _, _ => None
  end.

Definition opt_side_eqb (a b : option side) : bool :=
  match a, b with
  | Some x, Some y => side_eqb x y
  | None, None => true
  | _, _ => false
  end.

(* ws, wcl: subject / clip winding numbers of the region immediately left of the edge *)
Definition edge_ok (ct : clip_type) (fr : fill_rule) (ws wcl : Z) (e : edge) : bool :=
  if eopen e then
    ((wdx e =? 1) || (wdx e =? -1)) && ptype_eqb (ep e) Subj &&
    opt_side_eqb (hot e) (if open_in_result ct fr ws wcl then Some (open_side e) else None)
  else
    ((wdx e =? 1) || (wdx e =? -1)) &&
    (match ep e with
     | Subj => wc_ok fr (wc e) ws (wdx e) && wc2_ok fr (wc2 e) wcl
     | Clp => wc_ok fr (wc e) wcl (wdx e) && wc2_ok fr (wc2 e) ws
     end) &&
    opt_side_eqb (hot e)
      (boundary_side (in_result ct fr ws wcl)
                     (in_result ct fr (ws + contrib Subj e) (wcl + contrib Clp e))).

Fixpoint inv_from (ct : clip_type) (fr : fill_rule) (ws wcl : Z) (a : ael) : bool :=
  match a with
  | [] => true
  | e :: t => edge_ok ct fr ws wcl e && inv_from ct fr (ws + contrib Subj e) (wcl + contrib Clp e) t
  end.

(* decidable invariant of a whole AEL: also evaluated on snapshots of the real engine *)
Definition inv_b (ct : clip_type) (fr : fill_rule) (a : ael) : bool := inv_from ct fr 0 0 a.

Definition Wsum (pt : ptype) (l : list edge) : Z := zsum (map (contrib pt) l).

(* Front = +1, Back = -1: the net number of solution contours entered when walking right along a scanline *)
Definition side_val (e : edge) : Z :=
  if eopen e then 0 else match hot e with Some Front => 1 | Some Back => -1 | None => 0 end.

(* ---------------- well-formed events (what the geometry guarantees) ---------------- *)

Definition wf_event (a : ael) (ev : event) : bool :=
  match ev with
  | EInsert pos pt dl opn =>
      (pos <=? length a)%nat && ((dl =? 1) || (dl =? -1)) && (if opn then ptype_eqb pt Subj else true)
  | EInsert1 pos d => (pos <=? length a)%nat && ((d =? 1) || (d =? -1))
  | ESwap i _ => (S i <? length a)%nat
  | ERemove i =>
      (* a maxima pair: same path, opposite directions, adjacent *)
      match skipn i a with
      | e1 :: e2 :: _ =>
          ptype_eqb (ep e1) (ep e2) && Bool.eqb (eopen e1) (eopen e2) && (wdx e1 + wdx e2 =? 0)
      | _ => false
      end
  | ERemove1 i => match nth_error a i with Some e => eopen e | None => false end
  end.
