(* TreeCheck.v -- exact checker for property C04 on a concrete PolyTree result (validation oracle).

   Input: the tree in preorder as (depth, IsHole flag, polygon) with depth 0 for the children of the root,
   the closed and open paths of the Paths execution on the same input, the open paths of the tree execution,
   and the ReverseSolution flag.  Clauses (codes):
     31 tree.paths-differ          multiset of tree polygons <> multiset of closed paths (up to rotation of a path)
     32 tree.child-outside-parent  a vertex of a node is strictly outside its parent, or no vertex / edge midpoint is
                                   strictly inside it
     33 tree.sibling-overlap       a vertex or edge midpoint of a node is strictly inside one of its siblings
     34 tree.orientation-depth     area sign does not alternate with depth (outer positive at depth 0, negated by
                                   ReverseSolution), or IsHole <> (depth odd)
     35 tree.area                  sum of area2 over the tree <> sum of area2 over the paths
     36 tree.open-paths-differ     open paths of the two executions differ
   Point in polygon is even-odd on the single parent/sibling path: strictly inside = not on the boundary and odd
   winding parity (base/Winding.wn, on_path); everything is exact integer arithmetic. *)
From Clip Require Import base.Geom base.Winding.
From Coq Require Import ZArith List Bool Lia.
Import ListNotations.
Local Open Scope Z_scope.

Definition code_paths_differ := 31.
Definition code_child_outside := 32.
Definition code_sibling_overlap := 33.
Definition code_orientation_depth := 34.
Definition code_area := 35.
Definition code_open_differ := 36.

Record tnode : Type := mkTnode { tn_depth : nat; tn_hole : bool; tn_path : path }.

Fixpoint path_eqb (p q : path) : bool :=
  match p, q with
  | [], [] => true
  | a :: p', b :: q' => pt_eqb a b && path_eqb p' q'
  | _, _ => false
  end.

Definition rot1p (p : path) : path := match p with [] => [] | a :: t => t ++ [a] end.

Fixpoint rot_eqb_aux (k : nat) (p q : path) : bool :=
  match k with
  | O => false
  | S k' => path_eqb p q || rot_eqb_aux k' (rot1p p) q
  end.

(* equal as closed paths: same vertices in the same cyclic order and direction *)
Definition rot_eqb (p q : path) : bool :=
  match p, q with
  | [], [] => true
  | _, _ => (length p =? length q)%nat && rot_eqb_aux (length p) p q
  end.

Fixpoint remove_first {A} (f : A -> bool) (l : list A) : option (list A) :=
  match l with
  | [] => None
  | a :: t => if f a then Some t
              else match remove_first f t with Some t' => Some (a :: t') | None => None end
  end.

Fixpoint multiset_eqb {A} (eqb : A -> A -> bool) (l1 l2 : list A) : bool :=
  match l1 with
  | [] => match l2 with [] => true | _ => false end
  | a :: t => match remove_first (eqb a) l2 with
              | Some l2' => multiset_eqb eqb t l2'
              | None => false
              end
  end.

Definition strictly_inside (poly : path) (v : pt) : bool := negb (on_path poly v) && Z.odd (wn poly v).
Definition inside_or_on (poly : path) (v : pt) : bool := on_path poly v || Z.odd (wn poly v).

(* probe points of a path in DOUBLED coordinates: its vertices and its edge midpoints *)
Definition dbl (p : path) : path := map (pscale 2) p.
Definition probes (p : path) : list pt := dbl p ++ map (fun e : pt * pt => padd (fst e) (snd e)) (cyc_edges p).

(* every vertex of the child is inside or on the parent, and some vertex or edge midpoint is strictly inside
   (a hole may have all its vertices on the parent's boundary, e.g. the centre square removed from a plus shape) *)
Definition child_ok (parent child : path) : bool :=
  forallb (inside_or_on parent) child && existsb (strictly_inside (dbl parent)) (probes child).

(* some vertex or edge midpoint of p is strictly inside q *)
Definition overlaps (q p : path) : bool := existsb (strictly_inside (dbl q)) (probes p).

(* nodes annotated with their index and their parent's index (None = root) computed from the preorder depths;
   [stack] holds the indices of the current ancestors, innermost first, with their depth *)
Fixpoint annotate (idx : Z) (stack : list (nat * Z)) (l : list tnode) : list (Z * option Z * tnode) :=
  match l with
  | [] => []
  | n :: t =>
    let stack' := filter (fun e : nat * Z => (fst e <? tn_depth n)%nat) stack in
    let par := match stack' with [] => None | e :: _ => Some (snd e) end in
    (idx, par, n) :: annotate (idx + 1) ((tn_depth n, idx) :: stack') t
  end.

Definition opt_z_eqb (a b : option Z) : bool :=
  match a, b with
  | None, None => true
  | Some x, Some y => x =? y
  | _, _ => false
  end.

Definition node_path (ann : list (Z * option Z * tnode)) (i : Z) : path :=
  match find (fun e : Z * option Z * tnode => fst (fst e) =? i) ann with
  | Some e => tn_path (snd e)
  | None => []
  end.

Definition node_checks (rev : bool) (ann : list (Z * option Z * tnode)) (e : Z * option Z * tnode) : list (Z * Z) :=
  let '(i, par, n) := e in
  let p := tn_path n in
  let a := area2 p in
  let odd_depth := Nat.odd (tn_depth n) in
  (match par with
   | Some j => if child_ok (node_path ann j) p then [] else [(code_child_outside, i)]
   | None => []
   end) ++
  (if existsb (fun e2 : Z * option Z * tnode =>
                 let '(i2, par2, n2) := e2 in
                 negb (i2 =? i) && opt_z_eqb par2 par && overlaps (tn_path n2) p) ann
   then [(code_sibling_overlap, i)] else []) ++
  (if (negb (a =? 0)) && Bool.eqb (0 <? a) (xorb (negb odd_depth) rev) && Bool.eqb (tn_hole n) odd_depth
   then [] else [(code_orientation_depth, i)]).

Definition tree_check (rev : bool) (nodes : list tnode) (closed opened topen : paths) : list (Z * Z) :=
  let ann := annotate 0 [] nodes in
  let tpaths := map tn_path nodes in
  (if multiset_eqb rot_eqb tpaths closed then [] else [(code_paths_differ, 0)]) ++
  flat_map (node_checks rev ann) ann ++
  (if area2_paths tpaths =? area2_paths closed then [] else [(code_area, 0)]) ++
  (if multiset_eqb path_eqb topen opened then [] else [(code_open_differ, 0)]).

(* ---------------------------------------------------------------- CheckPolytreeFullyContainsChildren (clipper.h)
   details::PolyPath64ContainsChildren: for every child of a polygon node walk the child's vertices with a counter
   (strictly inside the parent: -1, strictly outside: +1, on its boundary: unchanged); more than one vertex "in excess"
   outside -> false; two in excess inside -> this child passes (break); then the child's own children.  The children of the
   root are not tested against anything.  PointInPolygon enters through its specification (exact even-odd position with
   respect to the single parent path, IsOutside for paths of fewer than 3 vertices, as the code does first). *)
Inductive pip_result : Type := PipInside | PipOn | PipOutside.

Definition pip_lib (poly : path) (v : pt) : pip_result :=
  if (length poly <? 3)%nat then PipOutside
  else if on_path poly v then PipOn
  else if Z.odd (wn poly v) then PipInside else PipOutside.

Fixpoint outside_scan (parent : path) (cnt : Z) (vs : list pt) : bool :=
  match vs with
  | [] => true
  | v :: t =>
    let c := match pip_lib parent v with
             | PipInside => cnt - 1
             | PipOutside => cnt + 1
             | PipOn => cnt
             end in
    if 1 <? c then false else if c <? -1 then true else outside_scan parent c t
  end.

Definition fully_contains (nodes : list tnode) : bool :=
  let ann := annotate 0 [] nodes in
  forallb (fun e : Z * option Z * tnode =>
             match snd (fst e) with
             | Some j => outside_scan (node_path ann j) 0 (tn_path (snd e))
             | None => true
             end) ann.

(* ---------------------------------------------------------------- sanity *)
Definition sq (a b : Z) : path := [(a, a); (b, a); (b, b); (a, b)].

Example tree_ok :
  tree_check false [mkTnode 0 false (sq 0 100); mkTnode 1 true (rev (sq 20 80)); mkTnode 2 false (sq 40 60)]
             [sq 0 100; rev (sq 20 80); rot1p (sq 40 60)] [] [] = [].
Proof. vm_compute. reflexivity. Qed.

Example tree_bad_parent :
  tree_check false [mkTnode 0 false (sq 0 100); mkTnode 0 false (sq 200 300); mkTnode 1 true (rev (sq 20 80))]
             [sq 0 100; rev (sq 20 80); sq 200 300] [] [] = [(code_child_outside, 2)].
Proof. vm_compute. reflexivity. Qed.

Example tree_bad_level :
  tree_check false [mkTnode 0 false (sq 0 100); mkTnode 0 false (rev (sq 20 80))]
             [sq 0 100; rev (sq 20 80)] [] [] = [(code_sibling_overlap, 1); (code_orientation_depth, 1)].
Proof. vm_compute. reflexivity. Qed.

Example fully_contains_ok :
  fully_contains [mkTnode 0 false (sq 0 100); mkTnode 1 true (rev (sq 20 80)); mkTnode 2 false (sq 40 60)] = true.
Proof. vm_compute. reflexivity. Qed.

(* one vertex outside is tolerated, two in a row are not; a child outside a hole two levels down is found *)
Example fully_contains_one_out :
  fully_contains [mkTnode 0 false (sq 0 100); mkTnode 1 true [(20, 20); (20, 80); (80, 80); (120, 20)]] = true.
Proof. vm_compute. reflexivity. Qed.

Example fully_contains_bad :
  fully_contains [mkTnode 0 false (sq 0 100); mkTnode 1 true (rev (sq 20 80)); mkTnode 2 false (sq 200 300)] = false.
Proof. vm_compute. reflexivity. Qed.
