(* WfGeom.v -- exact checker for the clauses of property C03 on a concrete solution (validation oracle).

   [struct_check out]              structural clause (every input): >= 3 vertices, no two cyclically consecutive equal
   [bbox_check inputs out]         every solution vertex inside the bounding box of the input vertices
   [wf_geom_check pc rev inputs out]  geometric clause (general position / rectilinear inputs):
        nonzero area, no 180 degree spike, no proper crossing of two solution edges, orientation = parity of nesting
        (negated by ReverseSolution), no collinear triple when PreserveCollinear is off, every vertex within 2 units
        of an input edge.
   All tests are exact integer computations built from base/Geom (cross, dot, area2), base/Winding (wn, on_path:
   even-odd point in polygon = odd winding number parity of the ray-casting definition) and base/Dist (near_some).
   Results are lists of (code, path index) so that the harness can name the clause; [] = clause holds. *)
From Clip Require Import base.Geom base.Winding base.Dist.
From Coq Require Import ZArith List Bool Lia.
Import ListNotations.
Local Open Scope Z_scope.

Definition code_short := 11.
Definition code_consec_dup := 12.
Definition code_closing_dup := 13.
Definition code_bbox := 21.
Definition code_zero_area := 1.
Definition code_spike := 2.
Definition code_self_cross := 3.
Definition code_orientation := 4.
Definition code_collinear := 5.
Definition code_vertex_far := 6.

Fixpoint indexed_from {A} (i : Z) (l : list A) : list (Z * A) :=
  match l with [] => [] | a :: t => (i, a) :: indexed_from (i + 1) t end.
Definition indexed {A} (l : list A) : list (Z * A) := indexed_from 0 l.

(* ---------------------------------------------------------------- structural clause *)
Fixpoint lin_no_dup (l : list pt) : bool :=
  match l with
  | a :: ((b :: _) as t) => negb (pt_eqb a b) && lin_no_dup t
  | _ => true
  end.

Definition closing_ok (p : path) : bool :=
  match p with
  | [] => true
  | a :: _ => match p with [_] => true | _ => negb (pt_eqb a (last p a)) end
  end.

Definition struct_path (ip : Z * path) : list (Z * Z) :=
  let (i, p) := ip in
  (if (length p <? 3)%nat then [(code_short, i)] else []) ++
  (if lin_no_dup p then [] else [(code_consec_dup, i)]) ++
  (if closing_ok p then [] else [(code_closing_dup, i)]).

Definition struct_check (out : paths) : list (Z * Z) := flat_map struct_path (indexed out).

(* ---------------------------------------------------------------- bounding box clause *)
Definition bbox_check (inputs out : paths) : list (Z * Z) :=
  match bbox_of (concat inputs) with
  | None => map (fun ip => (code_bbox, fst ip)) (indexed out)
  | Some b =>
    flat_map (fun ip : Z * path => if forallb (in_box b) (snd ip) then [] else [(code_bbox, fst ip)]) (indexed out)
  end.

(* ---------------------------------------------------------------- geometric clause *)
(* cyclic triples (prev, cur, next) of a closed path *)
Fixpoint windows3 (l : list pt) : list (pt * pt * pt) :=
  match l with
  | a :: ((b :: c :: _) as t) => (a, b, c) :: windows3 t
  | _ => []
  end.

Definition cyc_triples (p : path) : list (pt * pt * pt) :=
  match p with
  | [] => []
  | a :: _ => windows3 (last p a :: p ++ [a])
  end.

Definition is_spike (t : pt * pt * pt) : bool :=
  let '(a, b, c) := t in collinear a b c && (dot a b c <? 0).

Definition is_collinear3 (t : pt * pt * pt) : bool :=
  let '(a, b, c) := t in collinear a b c.

Definition proper_cross (e f : pt * pt) : bool :=
  let (a, b) := e in let (c, d) := f in
  (Z.sgn (cross a b c) * Z.sgn (cross a b d) <? 0) &&
  (Z.sgn (cross c d a) * Z.sgn (cross c d b) <? 0).

Fixpoint any_pair {A} (f : A -> A -> bool) (l : list A) : bool :=
  match l with
  | [] => false
  | x :: t => existsb (f x) t || any_pair f t
  end.

(* edges tagged with their path index *)
Definition tagged_edges (out : paths) : list (Z * (pt * pt)) :=
  flat_map (fun ip : Z * path => map (fun e => (fst ip, e)) (cyc_edges (snd ip))) (indexed out).

Fixpoint crossing_pairs (l : list (Z * (pt * pt))) : list (Z * Z) :=
  match l with
  | [] => []
  | (i, e) :: t =>
    (if existsb (fun jf : Z * (pt * pt) => proper_cross e (snd jf)) t then [(code_self_cross, i)] else [])
    ++ crossing_pairs t
  end.

(* q contains p (even-odd), i.e. p is nested inside q: every probe point of p (vertices and edge midpoints, all in
   doubled coordinates) that does not lie on q is inside q, and there is at least one such probe.  A path that is
   partly inside and partly outside q (possible only when solution edges cross or a ring touches itself, which the
   crossing clause reports) is not nested inside q; a path all of whose probes lie on q is not counted either. *)
Definition dbl (p : path) : path := map (pscale 2) p.
Definition probes (p : path) : list pt := dbl p ++ map (fun e : pt * pt => padd (fst e) (snd e)) (cyc_edges p).

Definition contains_eo (q p : path) : bool :=
  let q2 := dbl q in
  match filter (fun v => negb (on_path q2 v)) (probes p) with
  | [] => false
  | off => forallb (fun v => Z.odd (wn q2 v)) off
  end.

Fixpoint count_true {A} (f : A -> bool) (l : list A) : Z :=
  match l with [] => 0 | a :: t => (if f a then 1 else 0) + count_true f t end.

Definition nesting (out : paths) (i : Z) (p : path) : Z :=
  count_true (fun jq : Z * path => negb (fst jq =? i) && contains_eo (snd jq) p) (indexed out).

Definition orientation_ok (rev : bool) (out : paths) (ip : Z * path) : bool :=
  let (i, p) := ip in
  let a := area2 p in
  if a =? 0 then true
  else Bool.eqb (0 <? a) (xorb (Z.even (nesting out i p)) rev).

Definition geom_path (pc rev : bool) (near_in : pt -> bool) (out : paths) (ip : Z * path) : list (Z * Z) :=
  let (i, p) := ip in
  let ts := cyc_triples p in
  (if area2 p =? 0 then [(code_zero_area, i)] else []) ++
  (if existsb is_spike ts then [(code_spike, i)] else []) ++
  (if orientation_ok rev out ip then [] else [(code_orientation, i)]) ++
  (if negb pc && existsb is_collinear3 ts then [(code_collinear, i)] else []) ++
  (if forallb near_in p then [] else [(code_vertex_far, i)]).

Definition wf_geom_check (pc rev : bool) (inputs out : paths) : list (Z * Z) :=
  let es := edges_closed inputs in
  flat_map (geom_path pc rev (near_some 2 1 es) out) (indexed out) ++ crossing_pairs (tagged_edges out).

(* ---------------------------------------------------------------- sanity *)
Example wf_square_hole :
  wf_geom_check false false [[(0,0);(20,0);(20,20);(0,20)]; [(5,5);(5,15);(15,15);(15,5)]]
                            [[(0,0);(20,0);(20,20);(0,20)]; [(5,5);(5,15);(15,15);(15,5)]] = [].
Proof. vm_compute. reflexivity. Qed.

Example wf_bad_orientation :
  wf_geom_check false false [[(0,0);(20,0);(20,20);(0,20)]; [(5,5);(15,5);(15,15);(5,15)]]
                            [[(0,0);(20,0);(20,20);(0,20)]; [(5,5);(15,5);(15,15);(5,15)]] = [(code_orientation, 1)].
Proof. vm_compute. reflexivity. Qed.

(* a figure of eight (outer loop fused with a hole of the other path at the touching point (4,4)) straddles the other
   path: it is not nested inside it *)
Example straddling_not_nested :
  contains_eo [(8,4);(8,8);(8,10);(2,10);(2,8);(0,8);(0,4);(2,4)] [(6,4);(6,6);(4,6);(4,4);(4,0);(2,0);(2,4)] = false.
Proof. vm_compute. reflexivity. Qed.

Example wf_bowtie :
  wf_geom_check false false [[(0,0);(10,10);(10,0);(0,10)]] [[(0,0);(10,10);(10,0);(0,10)]]
  = [(code_zero_area, 0); (code_self_cross, 0)].
Proof. vm_compute. reflexivity. Qed.

Example struct_examples :
  struct_check [[(0,0);(1,0)]; [(0,0);(0,0);(5,0);(5,5)]; [(0,0);(5,0);(5,5);(0,0)]]
  = [(code_short, 0); (code_consec_dup, 1); (code_closing_dup, 2)].
Proof. vm_compute. reflexivity. Qed.
