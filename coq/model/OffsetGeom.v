(* OffsetGeom: the per-vertex constructions of clipper.offset.cpp with the code's formulas in binary64
   (Coq primitive floats), written statement by statement after the C++:
     GetUnitNormal (64), BuildNormals (172), DoBevel (183), DoSquare (211) with GetAvgUnitVector /
     NormalizeVector / GetSegmentIntersectPt<double> (clipper.core.h 952, the non-HI_PRECISION variant),
     DoMiter (251), DoRound (266), OffsetPoint (304), OffsetPolygon (365), OffsetOpenJoined (373),
     OffsetOpenPath (388), the step constants and single-point shapes of DoGroupOffset (460-521), Ellipse (clipper.h 590),
     temp_lim_ (584).
   libm functions (acos, sin, cos, atan2) are Section variables: their results are supplied (by the harness, from the
   same libm); sqrt, ceil, round, fabs and the int64<->double conversions are exact IEEE operations and are modelled.
   Array accesses are bounds-checked: an out-of-range access makes the whole construction return None.
   The delta-callback branches are not modelled (deltaCallback64_ = nullptr). *)
From Coq Require Import ZArith List Bool Floats Lia.
From Clip Require Import base.Geom base.FloatModel model.OffsetPlan.
Import ListNotations.
Local Open Scope Z_scope.
#[local] Set Warnings "-inexact-float".

Definition ptd := (float * float)%type.

Definition PI : float := 0x1.921fb54442d18p+1%float.            (* 3.141592653589793238 *)
Definition fp_tol : float := 1e-12%float.                       (* floating_point_tolerance *)
Definition arc_const : float := 0.002%float.

Definition fgt (a b : float) : bool := PrimFloat.ltb b a.
Definition fge (a b : float) : bool := PrimFloat.leb b a.
Definition fmin_std (a b : float) : float := if PrimFloat.ltb b a then b else a.   (* std::min(a, b) *)

(* std::ceil followed by a conversion to an integer type *)
Definition F2Z_ceil (x : float) : Z :=
  match F_decode x with
  | Some (s, m, e) =>
      if 0 <=? e then apply_sign s (m * 2 ^ e)
      else let d := 2 ^ (- e) in
           let q := m / d in let r := m mod d in
           if s then - q else (if 0 <? r then q + 1 else q)
  | None => 0
  end.

Definition round_pt (x y : float) : pt := (F2I64_round x, F2I64_round y).     (* Point64(double, double) *)
Definition Zx (p : pt) : float := Z2F (px p).
Definition Zy (p : pt) : float := Z2F (py p).

Definition obind {A B} (o : option A) (f : A -> option B) : option B := match o with Some a => f a | None => None end.
Notation "x <- e ;; k" := (obind e (fun x => k)) (at level 61, e at next level, right associativity).

Definition getp (p : path) (i : Z) : option pt := if i <? 0 then None else nth_error p (Z.to_nat i).
Definition getn (n : list ptd) (i : Z) : option ptd := if i <? 0 then None else nth_error n (Z.to_nat i).

(* ---------------------------------------------------------------- normals *)
Definition hypot (x y : float) : float := PrimFloat.sqrt (x * x + y * y).

Definition unit_normal (p1 p2 : pt) : ptd :=
  if pt_eqb p1 p2 then (0%float, 0%float)
  else
    let dx := Z2F (px p2 - px p1) in
    let dy := Z2F (py p2 - py p1) in
    let inv := (1 / hypot dx dy)%float in
    let dx := (dx * inv)%float in
    let dy := (dy * inv)%float in
    (dy, (- dx)%float).

Definition build_normals (p : path) : list ptd := map (fun e => unit_normal (fst e) (snd e)) (cyc_edges p).

(* NormalizeVector / GetAvgUnitVector *)
Definition normalize_vector (v : ptd) : ptd :=
  let h := hypot (fst v) (snd v) in
  if PrimFloat.ltb (PrimFloat.abs h) 0.001%float then (0%float, 0%float)
  else let inv := (1 / h)%float in ((fst v * inv)%float, (snd v * inv)%float).

Definition avg_unit_vector (a b : ptd) : ptd := normalize_vector ((fst a + fst b)%float, (snd a + snd b)%float).

(* GetSegmentIntersectPt<double>; ip keeps its value when the lines are parallel *)
Definition seg_intersect_pt (a1 b1 a2 b2 ip : ptd) : ptd :=
  let dx1 := (fst b1 - fst a1)%float in let dy1 := (snd b1 - snd a1)%float in
  let dx2 := (fst b2 - fst a2)%float in let dy2 := (snd b2 - snd a2)%float in
  let det := (dy1 * dx2 - dy2 * dx1)%float in
  if PrimFloat.eqb det 0%float then ip
  else
    let t := (((fst a1 - fst a2) * dy2 - (snd a1 - snd a2) * dx2) / det)%float in
    if PrimFloat.leb t 0%float then a1
    else if fge t 1%float then b1
    else ((fst a1 + t * dx1)%float, (snd a1 + t * dy1)%float).

Definition translate_d (p : ptd) (dx dy : float) : ptd := ((fst p + dx)%float, (snd p + dy)%float).
Definition reflect_d (p pivot : ptd) : ptd :=
  ((fst pivot + (fst pivot - fst p))%float, (snd pivot + (snd pivot - snd p))%float).
Definition perp_d (p : pt) (n : ptd) (delta : float) : ptd := ((Zx p + fst n * delta)%float, (Zy p + snd n * delta)%float).
Definition perp (p : pt) (n : ptd) (delta : float) : pt := let q := perp_d p n delta in round_pt (fst q) (snd q).
Definition round_d (p : ptd) : pt := round_pt (fst p) (snd p).

(* ---------------------------------------------------------------- per-group constants *)
Record gctx := mkCtx {
  c_gd : float;        (* group_delta_ *)
  c_jt : join_type;    (* join_type_ *)
  c_et : end_type;     (* end_type_ *)
  c_tlim : float;      (* temp_lim_ *)
  c_spr : float;       (* steps_per_rad_ *)
  c_sin : float;       (* step_sin_ *)
  c_cos : float        (* step_cos_ *)
}.

Definition temp_lim (miter_limit : float) : float :=
  if PrimFloat.leb miter_limit 1%float then 2%float else (2 / (miter_limit * miter_limit))%float.

Section Libm.
Variables (acos_f sin_f cos_f : float -> float) (atan2_f : float -> float -> float).

(* lines 471-478: returns (steps_per_rad_, step_sin_, step_cos_) *)
Definition arc_tol_eff (arc_tolerance abs_delta : float) : float :=
  if fgt arc_tolerance fp_tol then fmin_std abs_delta arc_tolerance else (abs_delta * arc_const)%float.

Definition step_consts (arc_tolerance : float) (gd : float) : float * float * float :=
  let abs_delta := PrimFloat.abs gd in
  let arcTol := arc_tol_eff arc_tolerance abs_delta in
  let steps_per_360 := fmin_std (PI / acos_f (1 - arcTol / abs_delta))%float (abs_delta * PI)%float in
  let s := sin_f (2 * PI / steps_per_360)%float in
  let c := cos_f (2 * PI / steps_per_360)%float in
  let s := if PrimFloat.ltb gd 0%float then (- s)%float else s in
  ((steps_per_360 / (2 * PI))%float, s, c).

(* ---------------------------------------------------------------- joins *)
Definition do_bevel (c : gctx) (p : path) (ns : list ptd) (j k : Z) : option (list pt) :=
  pj <- getp p j ;; nj <- getn ns j ;;
  if j =? k then
    let a := PrimFloat.abs (c_gd c) in
    Some [ round_pt (Zx pj - a * fst nj)%float (Zy pj - a * snd nj)%float;
           round_pt (Zx pj + a * fst nj)%float (Zy pj + a * snd nj)%float ]
  else
    nk <- getn ns k ;;
    Some [ round_pt (Zx pj + c_gd c * fst nk)%float (Zy pj + c_gd c * snd nk)%float;
           round_pt (Zx pj + c_gd c * fst nj)%float (Zy pj + c_gd c * snd nj)%float ].

Definition do_square (c : gctx) (p : path) (ns : list ptd) (j k : Z) : option (list pt) :=
  pj <- getp p j ;; nj <- getn ns j ;; nk <- getn ns k ;; pk <- getp p k ;;
  let gd := c_gd c in
  let vec := if j =? k then (snd nj, (- fst nj)%float)
             else avg_unit_vector ((- snd nk)%float, fst nk) (snd nj, (- fst nj)%float) in
  let a := PrimFloat.abs gd in
  let ptQ := translate_d (Zx pj, Zy pj) (a * fst vec)%float (a * snd vec)%float in
  let pt1 := translate_d ptQ (gd * snd vec)%float (gd * (- fst vec))%float in
  let pt2 := translate_d ptQ (gd * (- snd vec))%float (gd * fst vec)%float in
  let pt3 := perp_d pk nk gd in
  if j =? k then
    let pt4 := ((fst pt3 + fst vec * gd)%float, (snd pt3 + snd vec * gd)%float) in
    let ip := seg_intersect_pt pt1 pt2 pt3 pt4 ptQ in
    Some [ round_d (reflect_d ip ptQ); round_d ip ]
  else
    let pt4 := perp_d pj nk gd in
    let ip := seg_intersect_pt pt1 pt2 pt3 pt4 ptQ in
    Some [ round_d ip; round_d (reflect_d ip ptQ) ].

Definition do_miter (c : gctx) (p : path) (ns : list ptd) (j k : Z) (cos_a : float) : option (list pt) :=
  pj <- getp p j ;; nj <- getn ns j ;; nk <- getn ns k ;;
  let q := (c_gd c / (cos_a + 1))%float in
  Some [ round_pt (Zx pj + (fst nk + fst nj) * q)%float (Zy pj + (snd nk + snd nj) * q)%float ].

Fixpoint round_loop (c : gctx) (pj : pt) (n : nat) (ov : ptd) : list pt :=
  match n with
  | O => []
  | S n' =>
      let ov' := ((fst ov * c_cos c - c_sin c * snd ov)%float, (fst ov * c_sin c + snd ov * c_cos c)%float) in
      round_pt (Zx pj + fst ov')%float (Zy pj + snd ov')%float :: round_loop c pj n' ov'
  end.

Definition round_steps (c : gctx) (angle : float) : Z := F2Z_ceil (c_spr c * PrimFloat.abs angle)%float.

Definition do_round (c : gctx) (p : path) (ns : list ptd) (j k : Z) (angle : float) : option (list pt) :=
  pj <- getp p j ;; nk <- getn ns k ;; nj <- getn ns j ;;
  let gd := c_gd c in
  let ov := ((fst nk * gd)%float, (snd nk * gd)%float) in
  let ov := if j =? k then ((- fst ov)%float, (- snd ov)%float) else ov in
  let steps := round_steps c angle in
  Some (round_pt (Zx pj + fst ov)%float (Zy pj + snd ov)%float
        :: round_loop c pj (Z.to_nat (steps - 1)) ov ++ [perp pj nj gd]).

(* the classification of OffsetPoint, as a separate total function (the subject of C06_join_selection_total) *)
Inductive join_branch := BTiny | BConcave | BMiterFlat | BMiter | BSquareML | BRound | BBevel | BSquare.

Definition clamp1 (s : float) : float :=
  if fgt s 1%float then 1%float else if PrimFloat.ltb s (-1)%float then (-1)%float else s.

Definition select_join (jt : join_type) (tlim gd sin_a cos_a : float) : join_branch :=
  if PrimFloat.leb (PrimFloat.abs gd) fp_tol then BTiny
  else if fgt cos_a (-0.999)%float && PrimFloat.ltb (sin_a * gd)%float 0%float then BConcave
  else if fgt cos_a 0.999%float && negb (jt_eqb jt JRound) then BMiterFlat
  else if jt_eqb jt JMiter then (if fgt cos_a (tlim - 1)%float then BMiter else BSquareML)
  else if jt_eqb jt JRound then BRound
  else if jt_eqb jt JBevel then BBevel
  else BSquare.

Definition offset_point (c : gctx) (p : path) (ns : list ptd) (j k : Z) : option (list pt) :=
  pj <- getp p j ;; pk <- getp p k ;;
  if pt_eqb pj pk then Some []
  else
    nj <- getn ns j ;; nk <- getn ns k ;;
    let sin_a := clamp1 (snd nj * fst nk - snd nk * fst nj)%float in       (* CrossProduct(norms[j], norms[k]) *)
    let cos_a := (fst nj * fst nk + snd nj * snd nk)%float in              (* DotProduct(norms[j], norms[k]) *)
    match select_join (c_jt c) (c_tlim c) (c_gd c) sin_a cos_a with
    | BTiny => Some [pj]
    | BConcave => Some [perp pj nk (c_gd c); pj; perp pj nj (c_gd c)]
    | BMiterFlat | BMiter => do_miter c p ns j k cos_a
    | BSquareML | BSquare => do_square c p ns j k
    | BRound => do_round c p ns j k (atan2_f sin_a cos_a)
    | BBevel => do_bevel c p ns j k
    end.

(* OffsetPolygon: j = 0 .. n-1 with k = n-1, 0, 1, ... *)
Fixpoint concat_opt {A} (l : list (option (list A))) : option (list A) :=
  match l with
  | [] => Some []
  | o :: t => x <- o ;; r <- concat_opt t ;; Some (x ++ r)
  end.

Definition offset_polygon (c : gctx) (p : path) (ns : list ptd) : option (list pt) :=
  let n := Z.of_nat (length p) in
  concat_opt (map (fun j => let j := Z.of_nat j in offset_point c p ns j (if j =? 0 then n - 1 else j - 1)) (seq 0 (length p))).

(* OffsetOpenJoined: second pass over the reversed path with rebuilt normals *)
Definition joined_norms (ns : list ptd) : option (list ptd) :=
  match rev ns with
  | [] => None                                       (* norms[0] of an empty vector *)
  | a :: t => Some (map (fun v => ((- fst v)%float, (- snd v)%float)) (t ++ [a]))
  end.

Definition offset_open_joined (c : gctx) (p : path) (ns : list ptd) : option (list (list pt)) :=
  o1 <- offset_polygon c p ns ;;
  ns' <- joined_norms ns ;;
  o2 <- offset_polygon c (rev p) ns' ;;
  Some [o1; o2].

(* OffsetOpenPath *)
Definition cap (c : gctx) (p : path) (ns : list ptd) (i : Z) : option (list pt) :=
  if PrimFloat.leb (PrimFloat.abs (c_gd c)) fp_tol then (pi <- getp p i ;; Some [pi])
  else match c_et c with
       | EButt => do_bevel c p ns i i
       | ERound => do_round c p ns i i PI
       | _ => do_square c p ns i i
       end.

(* norms[i] = -norms[i-1] for i = highI .. 1 (descending, so old values are read), then norms[0] = norms[highI] *)
Definition reversed_norms (ns : list ptd) (highI : Z) : option (list ptd) :=
  if highI <? 0 then None
  else if Z.of_nat (length ns) <=? highI then None
  else
    let neg := fun v : ptd => ((- fst v)%float, (- snd v)%float) in
    let h := Z.to_nat highI in
    (* new[i] = neg old[i-1] for 1 <= i <= highI, entries above highI unchanged *)
    let body := map neg (firstn h ns) in                  (* new[1..highI] *)
    let tail := skipn (S h) ns in
    match h with
    | O => Some ns                                        (* loop does not run; norms[0] = norms[0] *)
    | S _ => Some (last body (0%float, 0%float) :: body ++ tail)
    end.

Definition offset_open_path (c : gctx) (p : path) (ns : list ptd) : option (list pt) :=
  let highI := Z.of_nat (length p) - 1 in
  c0 <- cap c p ns 0 ;;
  (* j = 1 .. highI-1, k = j-1 *)
  fwd <- concat_opt (map (fun j => let j := Z.of_nat j in offset_point c p ns j (j - 1)) (seq 1 (Z.to_nat (highI - 1)))) ;;
  ns' <- reversed_norms ns highI ;;
  c1 <- cap c p ns' highI ;;
  (* j = highI-1 .. 1, k = j+1 *)
  bwd <- concat_opt (map (fun j => let j := Z.of_nat j in offset_point c p ns' j (j + 1)) (rev (seq 1 (Z.to_nat (highI - 1))))) ;;
  Some (c0 ++ fwd ++ c1 ++ bwd).

(* ---------------------------------------------------------------- single points *)
Fixpoint ellipse_loop (cx cy : float) (rx ry si co : float) (n : nat) (dx dy : float) : list pt :=
  match n with
  | O => []
  | S n' =>
      let x := (dx * co - dy * si)%float in
      let dy' := (dy * co + dx * si)%float in
      round_pt (cx + rx * dx)%float (cy + ry * dy)%float :: ellipse_loop cx cy rx ry si co n' x dy'
  end.

(* Ellipse(center, radiusX, radiusY, steps) for Point64 centers *)
Definition ellipse (center : pt) (rx ry : float) (steps : Z) : list pt :=
  if PrimFloat.leb rx 0%float then []
  else
    let ry := if PrimFloat.leb ry 0%float then rx else ry in
    let steps := if steps <=? 2 then odflt 0 (F2Z_trunc (PI * PrimFloat.sqrt ((rx + ry) / 2))%float) else steps in
    let si := sin_f (2 * PI / Z2F steps)%float in
    let co := cos_f (2 * PI / Z2F steps)%float in
    round_pt (Zx center + rx)%float (Zy center)
    :: ellipse_loop (Zx center) (Zy center) rx ry si co (Z.to_nat (steps - 1)) co si.

Definition single_point (c : gctx) (join : join_type) (v : pt) : list pt :=
  let a := PrimFloat.abs (c_gd c) in
  if jt_eqb join JRound then
    let steps := if fgt (c_spr c) 0%float then F2Z_ceil (c_spr c * 2 * PI)%float else 0 in
    ellipse v a a steps
  else
    let d := F2Z_ceil a in
    [ (px v - d, py v - d); (px v + d, py v - d); (px v + d, py v + d); (px v - d, py v + d) ].

(* ---------------------------------------------------------------- a whole group, driven by the plan *)
Definition ctx_of (miter_limit arc_tolerance : float) (e : pentry) : gctx :=
  let '(spr, s, co) := match pe_steps_for e with
                       | Some _ => step_consts arc_tolerance (pe_delta e)
                       | None => (0%float, 0%float, 0%float)
                       end in
  mkCtx (pe_delta e) (pe_join e) (pe_end e) (temp_lim miter_limit) spr s co.

Definition offset_entry (miter_limit arc_tolerance : float) (group_join : join_type) (p : path) (e : pentry)
  : option (list (list pt)) :=
  let c := ctx_of miter_limit arc_tolerance e in
  match pe_action e with
  | ASkip => Some []
  | APoint _ => match p with v :: _ => Some [single_point c group_join v] | [] => None end
  | APolygon => o <- offset_polygon c p (build_normals p) ;; Some [o]
  | AJoined => offset_open_joined c p (build_normals p)
  | AOpen => o <- offset_open_path c p (build_normals p) ;; Some [o]
  end.

(* raw solution of one group offset on a fresh object (the RAW command of the harness) *)
Definition raw_group (miter_limit arc_tolerance delta : float) (ps : paths) (jt : join_type) (et : end_type)
  : option (list (list pt)) :=
  let g := mk_group ps jt et in
  let pin := group_paths ps et in
  let es := plan [g] delta in
  r <- concat_opt (map (fun pe => offset_entry miter_limit arc_tolerance jt (fst pe) (snd pe)) (combine pin es)) ;;
  Some r.

(* the index schedule of OffsetOpenPath / OffsetOpenJoined / OffsetPolygon: which path[i] / norms[i] are read
   for a path of length len (norms has length len after BuildNormals) *)
Inductive arr := APath | ANorms.

Definition point_accesses (j k : Z) : list (arr * Z) := [(APath, j); (APath, k); (ANorms, j); (ANorms, k)].
Definition cap_accesses (i : Z) : list (arr * Z) := [(APath, i); (ANorms, i)].

Definition open_path_accesses (len : Z) : list (arr * Z) :=
  let highI := len - 1 in
  cap_accesses 0
  ++ flat_map (fun j => point_accesses (Z.of_nat j) (Z.of_nat j - 1)) (seq 1 (Z.to_nat (highI - 1)))
  ++ flat_map (fun i => [(ANorms, Z.of_nat i); (ANorms, Z.of_nat i - 1)]) (rev (seq 1 (Z.to_nat highI)))
  ++ [(ANorms, 0); (ANorms, highI)]
  ++ cap_accesses highI
  ++ flat_map (fun j => point_accesses (Z.of_nat j) (Z.of_nat j + 1)) (rev (seq 1 (Z.to_nat (highI - 1)))).

Definition polygon_accesses (len : Z) : list (arr * Z) :=
  flat_map (fun j => let j := Z.of_nat j in point_accesses j (if j =? 0 then len - 1 else j - 1)) (seq 0 (Z.to_nat len)).

Definition open_joined_accesses (len : Z) : list (arr * Z) :=
  polygon_accesses len ++ [(ANorms, 0)] ++ polygon_accesses len.

Definition in_bounds (len : Z) (a : arr * Z) : bool := (0 <=? snd a) && (snd a <? len).

End Libm.

(* the IEEE operations the model relies on, by number (start-up self-test against the C++ build) *)
Definition fop (code : Z) (a b : float) : float :=
  if code =? 0 then (a + b)%float else if code =? 1 then (a - b)%float else if code =? 2 then (a * b)%float
  else if code =? 3 then (a / b)%float else if code =? 4 then PrimFloat.sqrt a
  else if code =? 5 then Z2F (F2Z_ceil a) else if code =? 6 then PrimFloat.abs a
  else Z2F (F2I64_round a).

(* sanity: the model reproduces TestOffsets-like values with exact "libm" stand-ins where no libm is needed *)
Example unit_normal_ex : unit_normal (0, 0) (0, 5) = (1%float, (-0)%float).
Proof. vm_compute. reflexivity. Qed.
