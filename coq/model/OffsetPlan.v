(* OffsetPlan: the member-variable dataflow of ClipperOffset::ExecuteInternal / DoGroupOffset / CheckReverseOrientation
   (clipper.offset.cpp) and of the Group constructor as pure functions.

   The model mirrors the assignments exactly as they occur in the code.  It mirrors the code AFTER the five repairs
   prepared in /verif/triage/offset-*.patch (endtype-leak, delta-abs-leak, empty-group-orientation and the two
   delta-callback repairs, which do not touch the members modelled here):
     * [end_type_] is assigned for EVERY path of two or more points (Square/Round for a two-point path of an
       EndType::Joined group, the group's end type otherwise);
     * [delta_] is written by ExecuteInternal only; an EndType::Polygon group without a lowest path uses the local
       |delta_|;
     * CheckReverseOrientation skips EndType::Polygon groups without a lowest path;
     * the arc step constants (steps_per_rad_, step_sin_, step_cos_) are only recomputed by groups that have
       a round join or round end (they are only read by such groups: see [round_group] in OffsetPlanProofs.v).

   BEHAVIOUR OF THE CODE BEFORE THE REPAIRS (the statements DESIGN section 6 expected to be refuted, with the witnesses
   that were replayed on the real code; demos under /verif/triage/demos/offset-*.cpp):
     * C07_plan_local / C12_plan_order_independent, end type: line 523 wrote end_type_ only for a two-point Joined path
       and nothing restored it.  Witness: one group  mkGroup [2; 3] JSquare EJoined false false, delta 10: the plan of
       the old code gave the three-point path  pe_end = ESquare, pe_action = AOpen  although  end_of g 3 = EJoined
       (real code: a two-point path and, 10000 units away, a three-point path: the latter is stroked with square caps,
       area 6385 together vs 2330 + 5555.5 alone).
     * C06_orientation_plan / C12_plan_order_independent, delta: line 454 executed  delta_ = std::abs(delta_)  on the
       MEMBER for a Polygon group without a lowest path.  Witness:  [mkGroup [0] JSquare EPolygon false false;
       mkGroup [4] JSquare EPolygon true false], delta -10: the old plan gave the square  pe_delta = +10  (own_delta
       = -10), i.e. ltb (pe_delta e) 0 <> xorb (ltb delta 0) (g_reversed g)  (real code: area 14400 instead of 6400).
     * orientation: CheckReverseOrientation took is_reversed = false from a first Polygon group without any vertex;
       witness  [mkGroup [0] JMiter EPolygon false false; mkGroup [4] JMiter EPolygon true true], delta 10:
       x_fill_negative = false although the only oriented group is reversed (real code: empty result).
   What is still refuted of the repaired code (known finding offset.group-orientation.first-polygon-group-decides):
   one fill rule for the whole call, taken from the first oriented Polygon group -- see
   [fill_rule_order_dependent_refuted] in OffsetPlanProofs.v.

   Doubles are Coq primitive binary64 floats (negation, fabs and the comparisons used here are exact).

   Interface for other properties (C12 imports this file):
     group, mk_group (model of the Group constructor), ostate / init_state (the members that survive between
     groups and calls), do_group, plan_from / plan (one [pentry] per input path: which routine offsets it and
     with which effective member values), exec_mode / execute_plan (early return, fill rule, reversal flag),
     end_of / own_delta / own_action (what a path gets from its own group and the delta passed to Execute). *)
From Coq Require Import ZArith List Bool Floats Lia.
From Clip Require Import base.Geom base.FloatModel.
Import ListNotations.
Local Open Scope Z_scope.

(* enum values as in clipper.offset.h: JoinType { Square, Bevel, Round, Miter }, EndType {Polygon, Joined, Butt, Square, Round} *)
Inductive join_type := JSquare | JBevel | JRound | JMiter.
Inductive end_type := EPolygon | EJoined | EButt | ESquare | ERound.

Definition jt_of_Z (z : Z) : join_type :=
  if z =? 0 then JSquare else if z =? 1 then JBevel else if z =? 2 then JRound else JMiter.
Definition et_of_Z (z : Z) : end_type :=
  if z =? 0 then EPolygon else if z =? 1 then EJoined else if z =? 2 then EButt else if z =? 3 then ESquare else ERound.
Definition Z_of_jt (j : join_type) : Z := match j with JSquare => 0 | JBevel => 1 | JRound => 2 | JMiter => 3 end.
Definition Z_of_et (e : end_type) : Z := match e with EPolygon => 0 | EJoined => 1 | EButt => 2 | ESquare => 3 | ERound => 4 end.

Definition jt_eqb (a b : join_type) : bool := Z_of_jt a =? Z_of_jt b.
Definition et_eqb (a b : end_type) : bool := Z_of_et a =? Z_of_et b.

Lemma jt_eqb_eq a b : jt_eqb a b = true <-> a = b.
Proof. destruct a, b; cbv; split; intros H; try reflexivity; discriminate. Qed.
Lemma et_eqb_eq a b : et_eqb a b = true <-> a = b.
Proof. destruct a, b; cbv; split; intros H; try reflexivity; discriminate. Qed.

(* ------------------------------------------------------------------ Group constructor *)

(* StripDuplicates (clipper.core.h 662): std::unique, then for closed paths drop trailing copies of the front *)
Fixpoint unique_adj (p : path) : path :=
  match p with
  | [] => []
  | a :: t => match t with
              | [] => [a]
              | b :: _ => if pt_eqb a b then unique_adj t else a :: unique_adj t
              end
  end.

(* while (size > 1 && back == front) pop_back, on the reversed list *)
Fixpoint drop_back_eq (front : pt) (r : list pt) : list pt :=
  match r with
  | [] => []
  | b :: r' => match r' with
               | [] => r                                  (* size 1: stop *)
               | _ :: _ => if pt_eqb b front then drop_back_eq front r' else r
               end
  end.

Definition strip_duplicates (closed : bool) (p : path) : path :=
  let u := unique_adj p in
  if closed then match u with [] => [] | a :: _ => rev (drop_back_eq a (rev u)) end else u.

(* GetLowestClosedPathIdx (36-52): botPt starts at (INT64_MAX, INT64_MIN); a point replaces it unless
   pt.y < bot.y || (pt.y == bot.y && pt.x >= bot.x); the result is the index of the path of the last replacement. *)
Definition i64max : Z := 2 ^ 63 - 1.
Definition i64min : Z := - 2 ^ 63.

Definition low_step (i : nat) (acc : option nat * pt) (p : pt) : option nat * pt :=
  let '(res, bot) := acc in
  if (py p <? py bot) || ((py p =? py bot) && (px bot <=? px p)) then acc else (Some i, p).

Fixpoint lowest_from (i : nat) (ps : paths) (acc : option nat * pt) : option nat * pt :=
  match ps with
  | [] => acc
  | p :: t => lowest_from (S i) t (fold_left (low_step i) p acc)
  end.

Definition lowest_path_idx (ps : paths) : option nat := fst (lowest_from 0 ps (None, (i64max, i64min))).

(* Area(path) < 0, with Area = 0 for fewer than 3 points.  The code sums in double; for the coordinate range of
   the offset properties (|coords| <= 2^25, paths of at most 2^10 points) every partial sum is an integer below
   2^53 and the double computation is exact, which the correspondence run confirms. *)
Definition area_neg (p : path) : bool := (3 <=? Z.of_nat (length p)) && (area2 p <? 0).

Record group := mkGroup {
  g_lens : list nat;          (* sizes of paths_in after StripDuplicates *)
  g_join : join_type;
  g_end : end_type;
  g_has_lowest : bool;        (* lowest_path_idx.has_value() *)
  g_reversed : bool           (* is_reversed *)
}.

Definition is_joined_et (e : end_type) : bool := match e with EPolygon | EJoined => true | _ => false end.

Definition group_paths (ps : paths) (et : end_type) : paths := map (strip_duplicates (is_joined_et et)) ps.

Definition mk_group (ps : paths) (jt : join_type) (et : end_type) : group :=
  let pin := group_paths ps et in
  match et with
  | EPolygon =>
      let low := lowest_path_idx pin in
      mkGroup (map (@length pt) pin) jt et
              (match low with Some _ => true | None => false end)
              (match low with Some i => area_neg (nth i pin []) | None => false end)
  | _ => mkGroup (map (@length pt) pin) jt et false false
  end.

(* ------------------------------------------------------------------ member state *)

Record ostate := mkState {
  s_delta : float;                  (* delta_ *)
  s_gdelta : float;                 (* group_delta_ *)
  s_join : join_type;               (* join_type_ *)
  s_end : end_type;                 (* end_type_ *)
  s_steps_for : option float        (* Some a: steps_per_rad_/step_sin_/step_cos_ were last computed for abs_delta = a
                                       (with the sign of the group_delta_ of that group folded into step_sin_);
                                       None: never computed, steps_per_rad_ = 0 *)
}.

(* a freshly constructed ClipperOffset *)
Definition init_state : ostate := mkState 0%float 0%float JBevel EPolygon None.

Inductive action :=
| ASkip            (* single point with group_delta_ < 1: nothing is emitted *)
| APoint (round : bool)   (* single point: circle (join Round) or square *)
| APolygon         (* OffsetPolygon *)
| AJoined          (* OffsetOpenJoined *)
| AOpen.           (* OffsetOpenPath with the current end_type_ *)

Record pentry := mkEntry {
  pe_group : nat; pe_path : nat; pe_len : nat;
  pe_delta : float;           (* group_delta_ when the path is offset *)
  pe_join : join_type;        (* join_type_ *)
  pe_end : end_type;          (* end_type_ at the dispatch of line 529-531 *)
  pe_action : action;
  pe_steps_for : option float;
  pe_mdelta : float           (* delta_ *)
}.

Definition fabs := PrimFloat.abs.
Definition fneg := PrimFloat.opp.

(* effective end type of a path of [len] >= 2 points: the assignment at the head of the dispatch
   `if ((pathLen == 2) && (group.end_type == EndType::Joined)) end_type_ = ...; else end_type_ = group.end_type;` *)
Definition end_of (g : group) (len : nat) : end_type :=
  if Nat.eqb len 2 && et_eqb (g_end g) EJoined
  then (if jt_eqb (g_join g) JRound then ERound else ESquare) else g_end g.

(* the path loop of DoGroupOffset.  [et] is the running end_type_ member (a single-point path does not assign it, and
   does not read it either; the observer of the harness sees the value left by the previous path). *)
Fixpoint path_loop (gi : nat) (g : group) (gd : float) (mdelta : float) (sf : option float)
         (pi : nat) (lens : list nat) (et : end_type) : end_type * list pentry :=
  match lens with
  | [] => (et, [])
  | len :: rest =>
      if Nat.eqb len 1 then
        (* single point: `if (group_delta_ < 1) continue;` else circle or square; end_type_ is not consulted *)
        let act := if PrimFloat.ltb gd 1%float then ASkip
                   else APoint (jt_eqb (g_join g) JRound) in
        let '(et', es) := path_loop gi g gd mdelta sf (S pi) rest et in
        (et', mkEntry gi pi len gd (g_join g) et act sf mdelta :: es)
      else
        (* end_type_ is assigned for every such path -- written to the member *)
        let et1 := end_of g len in
        let act := match et1 with EPolygon => APolygon | EJoined => AJoined | _ => AOpen end in
        let '(et', es) := path_loop gi g gd mdelta sf (S pi) rest et1 in
        (et', mkEntry gi pi len gd (g_join g) et1 act sf mdelta :: es)
  end.

(* DoGroupOffset *)
Definition do_group (gi : nat) (g : group) (st : ostate) : ostate * list pentry :=
  let mdelta := s_delta st in                                   (* delta_ is only read here *)
  let gd := match g_end g with
            | EPolygon => let d := if g_has_lowest g then mdelta else fabs mdelta in     (* the local `delta` *)
                          if g_reversed g then fneg d else d
            | _ => fabs mdelta
            end in
  let abs_delta := fabs gd in
  let sf := if jt_eqb (g_join g) JRound || et_eqb (g_end g) ERound then Some abs_delta else s_steps_for st in
  let '(et', es) := path_loop gi g gd mdelta sf 0 (g_lens g) (g_end g) in
  (mkState mdelta gd (g_join g) et' sf, es).

Fixpoint groups_loop (gi : nat) (gs : list group) (st : ostate) : ostate * list pentry :=
  match gs with
  | [] => (st, [])
  | g :: t => let '(st1, es) := do_group gi g st in
              let '(st2, es') := groups_loop (S gi) t st1 in
              (st2, es ++ es')
  end.

(* `std::abs(delta) < 0.5` *)
Definition insignificant (delta : float) : bool := PrimFloat.ltb (fabs delta) 0.5%float.

(* the per-path plan of one Execute on an object whose members are [st0] *)
Definition plan_from (st0 : ostate) (gs : list group) (delta : float) : ostate * list pentry :=
  groups_loop 0 gs (mkState delta (s_gdelta st0) (s_join st0) (s_end st0) (s_steps_for st0)).   (* `delta_ = delta;` in ExecuteInternal *)

Definition plan (gs : list group) (delta : float) : list pentry := snd (plan_from init_state gs delta).

(* CheckReverseOrientation: the first EndType::Polygon group that has a lowest path decides *)
Fixpoint check_reverse (gs : list group) : bool :=
  match gs with
  | [] => false
  | g :: t => if et_eqb (g_end g) EPolygon && g_has_lowest g then g_reversed g else check_reverse t
  end.

Inductive exec_mode :=
| XNothing                      (* no groups: solution untouched (empty) *)
| XIdentity                     (* |delta| < 0.5: the stripped input paths are copied to the solution, then unioned *)
| XOffset (es : list pentry).   (* raw curves per plan, then unioned *)

Record exec_plan := mkExec {
  x_mode : exec_mode;
  x_fill_negative : bool;       (* FillRule::Negative instead of Positive *)
  x_reverse_solution : bool     (* argument of Clipper64::ReverseSolution *)
}.

Definition execute_plan (reverse_solution : bool) (gs : list group) (delta : float) : exec_plan :=
  match gs with
  | [] => mkExec XNothing false false
  | _ =>
    let mode := if insignificant delta then XIdentity else XOffset (plan gs delta) in
    let pr := check_reverse gs in
    mkExec mode pr (xorb reverse_solution pr)
  end.

(* ------------------------------------------------------------------ what a path gets from its own group *)

(* group_delta_ as a function of the own group and the delta passed to Execute *)
Definition own_delta (g : group) (delta : float) : float :=
  match g_end g with
  | EPolygon => let d := if g_has_lowest g then delta else fabs delta in
                if g_reversed g then fneg d else d
  | _ => fabs delta
  end.

(* the routine that offsets a path of [len] points of group [g] *)
Definition own_action (g : group) (delta : float) (len : nat) : action :=
  if Nat.eqb len 1 then
    (if PrimFloat.ltb (own_delta g delta) 1%float then ASkip else APoint (jt_eqb (g_join g) JRound))
  else match end_of g len with EPolygon => APolygon | EJoined => AJoined | _ => AOpen end.

Definition find_entry (es : list pentry) (gi pi : nat) : option pentry :=
  find (fun e => Nat.eqb (pe_group e) gi && Nat.eqb (pe_path e) pi) es.

(* open-path part of a plan (everything except EndType::Polygon groups), used by C07_sign_symmetric *)
Definition all_open (gs : list group) : bool := forallb (fun g => negb (et_eqb (g_end g) EPolygon)) gs.

(* ------------------------------------------------------------------ sanity *)
Example plan_ex1 :
  map pe_end (plan [mkGroup [2%nat; 3%nat] JSquare EJoined false false] 10%float) = [ESquare; EJoined].
Proof. reflexivity. Qed.

Example plan_ex2 :
  map pe_delta (plan [mkGroup [0%nat] JSquare EPolygon false false; mkGroup [4%nat] JSquare EPolygon true false] (-10)%float)
  = [10%float; (-10)%float].
Proof. reflexivity. Qed.

Example plan_ex3 :
  check_reverse [mkGroup [0%nat] JMiter EPolygon false false; mkGroup [4%nat] JMiter EPolygon true true] = true.
Proof. reflexivity. Qed.

Example mk_group_ex :
  mk_group [[(0,0);(0,0);(10,0);(0,10);(0,0)]; [(0,-5);(1,-6);(2,-5)]] JSquare EPolygon
  = mkGroup [3%nat; 3%nat] JSquare EPolygon true false.
Proof. reflexivity. Qed.
