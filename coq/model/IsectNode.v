(* ClipperBase::AddNewIntersectNode (clipper.engine.cpp): the point stored in the new IntersectNode, as a pure function
   of the two edges and the scanbeam.  Composed of the REGENERATED leaf functions GetSegmentIntersectPt (both precision
   variants), GetClosestPointOnSegment, TopX (coq/gen); only the branch structure of the out-of-scanbeam repair is
   written by hand.  Tie: harness/cx_isectnode.cpp calls the real member function on synthetic Actives through private
   access and prints intersect_nodes_.back().pt; bin/oracle_isectnode evaluates this definition on the same line
   (checks/C03.py, phase_isect_node). *)
From Coq Require Import ZArith Bool Floats.
From Clip Require Import base.Geom base.FloatModel base.CSem gen.Gen_core gen.Gen_engine.
Local Open Scope Z_scope.

Definition hundred : float := 100%float.

(* which edge the repair projects / evaluates on: None = no repair *)
Inductive repair :=
| NoRepair
| Closest (first : bool)          (* GetClosestPointOnSegment on e1 (true) or e2 (false) *)
| Clamp (to_top : bool) (first : bool).   (* y := top_y / bot_y, x := TopX of e1 / e2 *)

Definition repair_kind (e1 e2 : Active) (bot_y top_y : Z) (ip : pt) : repair :=
  if (bot_y <? py ip) || (py ip <? top_y) then
    let a1 := PrimFloat.abs (dx e1) in
    let a2 := PrimFloat.abs (dx e2) in
    if (hundred <? a1)%float && (hundred <? a2)%float then Closest (a2 <? a1)%float
    else if (hundred <? a1)%float then Closest true
    else if (hundred <? a2)%float then Closest false
    else Clamp (py ip <? top_y) (a1 <? a2)%float
  else NoRepair.

Definition apply_repair (e1 e2 : Active) (bot_y top_y : Z) (ip : pt) (k : repair) : pt :=
  match k with
  | NoRepair => ip
  | Closest true => GetClosestPointOnSegment ip (bot e1) (top e1)
  | Closest false => GetClosestPointOnSegment ip (bot e2) (top e2)
  | Clamp to_top first =>
      let y := if to_top then top_y else bot_y in
      ((if first then TopX e1 y else TopX e2 y), y)
  end.

Definition raw_ip (hi : bool) (e1 e2 : Active) (top_y : Z) : pt :=
  let r := (if hi then GetSegmentIntersectPt_hi else GetSegmentIntersectPt_lo) (bot e1) (top e1) (bot e2) (top e2) (0, 0) in
  if fst r then snd r else (curr_x e1, top_y).          (* parallel edges *)

Definition add_new_intersect_node (hi : bool) (e1 e2 : Active) (bot_y top_y : Z) : pt :=
  let ip := raw_ip hi e1 e2 top_y in
  apply_repair e1 e2 bot_y top_y ip (repair_kind e1 e2 bot_y top_y ip).

(* the synthetic edge the harness builds: dx = GetDx(bot, top), curr_x = TopX at the top of the scanbeam *)
Definition mk_edge (b t : pt) (top_y : Z) : Active :=
  let e0 := mkActive b t 0 (GetDx b t) 1 0 0 0 false in
  mkActive b t (TopX e0 top_y) (GetDx b t) 1 0 0 0 false.

Definition ani (hi : bool) (b1 t1 b2 t2 : pt) (bot_y top_y : Z) : pt :=
  add_new_intersect_node hi (mk_edge b1 t1 top_y) (mk_edge b2 t2 top_y) bot_y top_y.

Definition repair_code (k : repair) : Z :=
  match k with NoRepair => 0 | Closest true => 1 | Closest false => 2
             | Clamp true true => 3 | Clamp true false => 4 | Clamp false true => 5 | Clamp false false => 6 end.

Definition ani_kind (hi : bool) (b1 t1 b2 t2 : pt) (bot_y top_y : Z) : Z :=
  let e1 := mk_edge b1 t1 top_y in let e2 := mk_edge b2 t2 top_y in
  repair_code (repair_kind e1 e2 bot_y top_y (raw_ip hi e1 e2 top_y)).
