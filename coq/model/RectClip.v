(* Executable hand model of RectClip64 (CPP/Clipper2Lib/src/clipper.rectclip.cpp):
     Execute (bounds shortcuts) / ExecuteInternal (location state machine, Add, both AddCorner overloads,
     start_locs_, the "path contains rect" case with Path1ContainsPath2 / PointInPolygon) / CheckEdges /
     TidyEdges / GetPath, for ONE path at a time (Execute treats the paths independently and clears its state
     after each of them).

   * The scalar leaf functions are the TRANSLATED ones (coq/gen/Gen_rect.v, regenerated from the source on
     every run): GetLocation, GetIntersection (-> GetSegmentIntersection -> GetSegmentIntersectPt), IsClockwise
     (-> AreOpposites, HeadingClockwise, CrossProduct), GetAdjacentLocation, HeadingClockwise, IsCollinear.
     Locations travel as the inductive [location] of model/RectLeaf.v and are converted with loc_idx /
     loc_of_idx at each call.  GetNextLocation / Add are the models shared with RectClipLines64
     (model/RectLines.v); the small helpers GetEdgesForPt, IsHeadingClockwise, HasHorzOverlap, HasVertOverlap,
     StartLocsAreClockwise, GetBounds, Rect64 methods are the hand models of model/RectLeaf.v (tied by the
     leaf correspondence).
   * The state machine is a Section over the three leaf functions it calls (get location / get intersection /
     is clockwise), so that the structural theorems hold for EVERY such function; [clip_internal] etc. are the
     instances with the translated code.
   * results_ after ExecuteInternal holds at most one ring (RectClip64 never passes start_new): a list of tagged
     points, newest first.  Ghost tags (never read by the computation): SV i = copy of path[i]; SI i = point
     returned with result true by GetIntersection for the input edge ending at path[i]; SC k = rect_as_path_[k].
     (The constructor SX of [src] is not used here.  Before the repair of the pass-through branch -- an edge is now
     treated as passing through only when BOTH GetIntersection calls succeed -- the code ignored the result of the
     second call and added its ip2 anyway; that point, typically Point64() = (0,0), used to be tagged SX.)
   * CheckEdges / TidyEdges / GetPath work on a heap of OutPt2 nodes (op_container_; a pointer is the index of
     the node, in creation order), results_ : list (option nat), edges_ : 8 lists of option nat.
   * Every loop runs on fuel, every vector read is bounds-checked: rect_as_path_[4] (AddCorner with
     loc = Inside) is [ErrOOB], a corner loop `do .. while (prev != loc)` that cannot terminate is [ErrFuel]. *)
From Clip Require Import base.Geom base.FloatModel base.CSem gen.Gen_core gen.Gen_rect model.RectLeaf model.RectLines.
From Coq Require Import ZArith List Bool Lia Arith.
Local Open Scope Z_scope.

Definition bind {A B} (x : res A) (f : A -> res B) : res B := match x with Ok a => f a | Err e => Err e end.
Notation "x <- e ;; f" := (bind e (fun x => f)) (at level 61, e at next level, right associativity).
Notation "' p <- e ;; f" := (bind e (fun p => f)) (at level 61, p pattern, e at next level, right associativity).

(* ---------- conversions to the types of the translated code ---------- *)
Definition R64 (r : rect) : Rect64 := mkRect64 (RectLeaf.r_left r) (RectLeaf.r_top r) (RectLeaf.r_right r) (RectLeaf.r_bottom r).
Definition RPath (r : rect) : rectpath := (RectLeaf.rp0 r, RectLeaf.rp1 r, RectLeaf.rp2 r, RectLeaf.rp3 r).

(* the translated leaf functions with typed locations *)
Definition t_get_location (r : rect) (p : pt) : bool * location :=
  let '(b, l) := GetLocation (R64 r) p Location_Inside in (b, loc_of_idx l).
Definition t_get_intersection (r : rect) (p p2 : pt) (loc : location) (ip : pt) : bool * location * pt :=
  let '(b, l, q) := GetIntersection (RPath r) p p2 (loc_idx loc) ip in (b, loc_of_idx l, q).
Definition t_is_clockwise (r : rect) (prev curr : location) (prev_pt curr_pt : pt) : bool :=
  IsClockwise (loc_idx prev) (loc_idx curr) prev_pt curr_pt (rect_midpoint r).
Definition adj (l : location) (cw : bool) : location := loc_of_idx (GetAdjacentLocation (loc_idx l) cw).
Definition hcw (a b : location) : bool := HeadingClockwise (loc_idx a) (loc_idx b).

Definition corner_idx (l : location) : nat := Z.to_nat (loc_idx l).

(* ---------- PointInPolygon (clipper.core.h) and Path1ContainsPath2 ---------- *)
Inductive pip := IsOn | IsInside | IsOutside.

Section Pip.
  Variable q : pt.
  Variable poly : list pt.
  Let n := length poly.
  Definition pat (k : nat) : res pt := match nth_error poly k with Some v => Ok v | None => Err ErrOOB end.

  (* while (first != cend && first->y == pt.y) ++first; *)
  Fixpoint pip_first (fuel k : nat) : res nat :=
    match fuel with
    | O => Err ErrFuel
    | S f => if (k =? n)%nat then Ok k else v <- pat k ;; if py v =? py q then pip_first f (S k) else Ok k
    end.

  (* while (curr != cend && curr->y < pt.y) ++curr;   (resp. >) *)
  Fixpoint pip_skip (above : bool) (fuel curr cend : nat) : res nat :=
    match fuel with
    | O => Err ErrFuel
    | S f => if (curr =? cend)%nat then Ok curr
             else v <- pat curr ;;
                  if (if above then py v <? py q else py v >? py q) then pip_skip above f (S curr) cend else Ok curr
    end.

  Definition pip_prev (curr : nat) : nat := if (curr =? 0)%nat then (n - 1)%nat else (curr - 1)%nat.

  (* the final cross product step, shared by the loop body and the epilogue: returns None for IsOn *)
  Definition pip_cross (prev curr : pt) (above : bool) (val : Z) : option Z :=
    let d := CrossProduct prev curr q in
    if (d =? 0)%float then None
    else Some (if Bool.eqb (d <? 0)%float above then 1 - val else val).

  (* the `while (true)` loop; result: Some IsOn, or None with (is_above, val, curr) at the break *)
  Fixpoint pip_loop (fuel : nat) (first curr cend : nat) (above : bool) (val : Z) : res (option pip * bool * Z * nat) :=
    match fuel with
    | O => Err ErrFuel
    | S f =>
      let go (curr cend : nat) :=
        curr' <- pip_skip above (S n) curr cend ;;
        if (curr' =? cend)%nat then pip_loop f first curr' cend above val
        else
          c <- pat curr' ;; p <- pat (pip_prev curr') ;;
          if py c =? py q then
            if (px c =? px q) || ((py c =? py p) && negb (Bool.eqb (px q <? px p) (px q <? px c)))
            then Ok (Some IsOn, above, val, curr')
            else if (S curr' =? first)%nat then Ok (None, above, val, S curr')
                 else pip_loop f first (S curr') cend above val
          else if (px q <? px c) && (px q <? px p) then pip_loop f first (S curr') cend (negb above) val
          else if (px p <? px q) && (px c <? px q) then pip_loop f first (S curr') cend (negb above) (1 - val)
          else match pip_cross p c above val with
               | None => Ok (Some IsOn, above, val, curr')
               | Some val' => pip_loop f first (S curr') cend (negb above) val'
               end in
      if (curr =? cend)%nat then
        if (cend =? first)%nat || (first =? 0)%nat then Ok (None, above, val, curr)
        else go 0%nat first
      else go curr cend
    end.

  Definition point_in_polygon : res pip :=
    if (n <? 3)%nat then Ok IsOutside
    else
      first <- pip_first (S n) 0 ;;
      if (first =? n)%nat then Ok IsOutside
      else
        v <- pat first ;;
        let above0 := py v <? py q in
        '(on, above, val, curr) <- pip_loop (4 * n + 8) first (S first) n above0 0 ;;
        match on with
        | Some x => Ok x
        | None =>
          if negb (Bool.eqb above above0) then
            let curr := if (curr =? n)%nat then 0%nat else curr in
            c <- pat curr ;; p <- pat (pip_prev curr) ;;
            match pip_cross p c above val with
            | None => Ok IsOn
            | Some val' => Ok (if val' =? 0 then IsOutside else IsInside)
            end
          else Ok (if val =? 0 then IsOutside else IsInside)
        end.
End Pip.

(* Path1ContainsPath2(path1, path2) *)
Fixpoint p1c2_loop (path1 : list pt) (l : list pt) (io : Z) : res Z :=
  match l with
  | [] => Ok io
  | v :: t =>
    x <- point_in_polygon v path1 ;;
    match x with
    | IsOn => p1c2_loop path1 t io
    | IsOutside => let io := io + 1 in if Z.abs io >? 1 then Ok io else p1c2_loop path1 t io
    | IsInside => let io := io - 1 in if Z.abs io >? 1 then Ok io else p1c2_loop path1 t io
    end
  end.
Definition path1_contains_path2 (path1 path2 : list pt) : res bool :=
  io <- p1c2_loop path1 path2 0 ;;
  if io =? 0 then
    (* every vertex of path2 lies on path1 (or the counts balance): the midpoint of path2's bounds decides *)
    x <- point_in_polygon (rect_midpoint (get_bounds path2)) path1 ;;
    Ok (match x with IsOutside => false | _ => true end)
  else Ok (io <? 0).

(* ====================================================================== ExecuteInternal *)
Section Internal.
  (* the three leaf functions the state machine calls *)
  Variable getloc : pt -> bool * location.                                  (* GetLocation(rect_, p, loc) *)
  Variable gi : pt -> pt -> location -> pt -> bool * location * pt.         (* GetIntersection(rect_as_path_, p, p2, loc, ip) *)
  Variable iscw : location -> location -> pt -> pt -> bool.                  (* IsClockwise(prev, curr, prev_pt, curr_pt, rect_mp_) *)
  Variable r : rect.
  Variable path : list pt.

  Let hi : nat := highI path.

  Definition corner (l : location) : res tpt :=
    match rect_corner r l with Some c => Ok (c, SC (corner_idx l)) | None => Err ErrOOB end.

  (* AddCorner(Location prev, Location curr) *)
  Definition add_corner2 (prev curr : location) (rs : results) : res results :=
    c <- corner (if hcw prev curr then prev else curr) ;; Ok (add c false rs).

  (* AddCorner(Location& loc, bool isClockwise): returns the new loc *)
  Definition add_corner (loc : location) (cw : bool) (rs : results) : res (location * results) :=
    if cw then c <- corner loc ;; Ok (adj loc true, add c false rs)
    else let loc' := adj loc false in c <- corner loc' ;; Ok (loc', add c false rs).

  (* do { AddCorner(prev, isClockw); } while (prev != target); *)
  Fixpoint corner_loop (fuel : nat) (prev target : location) (cw : bool) (rs : results) : res results :=
    match fuel with
    | O => Err ErrFuel
    | S f => '(prev', rs') <- add_corner prev cw rs ;;
             if loc_eqb prev' target then Ok rs' else corner_loop f prev' target cw rs'
    end.

  (* do { start_locs_.emplace_back(prev); prev = GetAdjacentLocation(prev, isClockw); } while (prev != target); *)
  Fixpoint startloc_loop (fuel : nat) (prev target : location) (cw : bool) (sl : list location) : res (list location) :=
    match fuel with
    | O => Err ErrFuel
    | S f => let sl' := sl ++ [prev] in let prev' := adj prev cw in
             if loc_eqb prev' target then Ok sl' else startloc_loop f prev' target cw sl'
    end.

  Definition loop_fuel : nat := 8.   (* a terminating corner loop makes at most 4 steps *)

  Record st := mkSt { s_i : nat; s_loc : location; s_cross : location; s_first : location;
                      s_sl : list location; s_rs : results }.

  (* the main while loop of RectClip64::ExecuteInternal *)
  Fixpoint clip_loop (fuel : nat) (s : st) : res st :=
    match fuel with
    | O => Err ErrFuel
    | S f =>
      if (s_i s <=? hi)%nat then
        let prev := s_loc s in
        let crossing_prev := s_cross s in
        '(loc, i, rs) <- get_next_location r path (s_loc s) (s_i s) (s_rs s) ;;
        if (hi <? i)%nat then Ok (mkSt i loc (s_cross s) (s_first s) (s_sl s) rs)
        else
          match nth_error path i, nth_error path (match i with O => hi | S j => j end) with
          | Some pi, Some prev_pt =>
            let '(ok, crossing_loc0, ip) := gi pi prev_pt loc default_pt in
            (* when passing right through, the first intersection ip2 is searched from the other end; if only one
               direction sees an intersection the edge touches the rectangle too lightly to be crossing it *)
            let passing := ok && negb (is_inside loc) && negb (is_inside prev) in
            let '(ok2, loc2, ip2) := if passing then gi prev_pt pi prev default_pt else (true, prev, default_pt) in
            let crossing := ok && ok2 in
            let crossing_loc := if ok && negb ok2 then loc else crossing_loc0 in
            if negb crossing then
              (* remaining outside *)
              if is_inside crossing_prev then
                sl <- startloc_loop loop_fuel prev loc (iscw prev loc prev_pt pi) (s_sl s) ;;
                clip_loop f (mkSt (S i) loc crossing_prev (s_first s) sl rs)
              else if negb (is_inside prev) && negb (loc_eqb prev loc) then
                rs' <- corner_loop loop_fuel prev loc (iscw prev loc prev_pt pi) rs ;;
                clip_loop f (mkSt (S i) loc crossing_loc (s_first s) (s_sl s) rs')
              else clip_loop f (mkSt (S i) loc crossing_loc (s_first s) (s_sl s) rs)
            else if is_inside loc then
              (* entering the rectangle *)
              if is_inside (s_first s) then
                clip_loop f (mkSt i loc crossing_loc crossing_loc (s_sl s ++ [prev]) (add (ip, SI i) false rs))
              else if negb (loc_eqb prev crossing_loc) then
                rs' <- corner_loop loop_fuel prev crossing_loc (iscw prev crossing_loc prev_pt pi) rs ;;
                clip_loop f (mkSt i loc crossing_loc (s_first s) (s_sl s) (add (ip, SI i) false rs'))
              else clip_loop f (mkSt i loc crossing_loc (s_first s) (s_sl s) (add (ip, SI i) false rs))
            else if negb (is_inside prev) then
              (* passing right through: ip is the second intersection, ip2 (found above, from the other end) the first *)
              rs1 <- (if negb (is_inside crossing_prev) && negb (loc_eqb crossing_prev loc2)
                      then add_corner2 crossing_prev loc2 rs else Ok rs) ;;
              let '(first, sl) := if is_inside (s_first s) then (loc2, s_sl s ++ [prev]) else (s_first s, s_sl s) in
              let rs2 := add (ip2, SI i) false rs1 in
              if pt_eqb ip ip2 then
                let loc3 := snd (getloc pi) in
                rs3 <- add_corner2 crossing_loc loc3 rs2 ;;
                clip_loop f (mkSt i loc3 loc3 first sl rs3)
              else clip_loop f (mkSt i crossing_loc crossing_loc first sl (add (ip, SI i) false rs2))
            else
              (* leaving the rectangle *)
              clip_loop f (mkSt i crossing_loc crossing_loc
                                (if is_inside (s_first s) then crossing_loc else s_first s) (s_sl s)
                                (add (ip, SI i) false rs))
          | _, _ => Err ErrOOB
          end
      else Ok s
    end.

  (* the epilogue's `for (auto loc2 : start_locs_)` *)
  Fixpoint sl_corners (prev : location) (sl : list location) (rs : results) : res (location * results) :=
    match sl with
    | [] => Ok (prev, rs)
    | loc2 :: t =>
      if loc_eqb prev loc2 then sl_corners prev t rs
      else '(_, rs') <- add_corner prev (hcw prev loc2) rs ;; sl_corners loc2 t rs'
    end.

  (* "yep, the path does fully contain rect": add the four corners, each to its clockwise edge list;
     edges are returned as (edge list index, op index) in AddToEdge order *)
  Definition last_op (rs : results) : res nat :=
    match rs with
    | ring :: _ => Ok (length ring - 1)%nat
    | [] => Err ErrOOB
    end.

  Fixpoint add_rect (ks : list nat) (rs : results) (es : list (nat * nat)) : res (results * list (nat * nat)) :=
    match ks with
    | [] => Ok (rs, es)
    | k :: t =>
      match nth_error (rect_as_path r) k with
      | None => Err ErrOOB
      | Some c =>
        let rs' := add (c, SC k) false rs in
        (* AddToEdge(edges_[k*2], results_[0]): results_[0] is the op added last; a no-op if it already has an edge *)
        op <- last_op rs' ;;
        let es' := if existsb (fun e => (snd e =? op)%nat) es then es else es ++ [((2 * k)%nat, op)] in
        add_rect t rs' es'
      end
    end.

  Definition main_fuel : nat := (4 * length path + 8)%nat.

  (* the while loop `while (i > 0 && !GetLocation(rect_, path[i - 1], prev)) --i;` : returns (i, prev) *)
  Fixpoint back_boundary (i : nat) (prev : location) : res (nat * location) :=
    match i with
    | O => Ok (O, prev)
    | S j => match nth_error path j with
             | None => Err ErrOOB
             | Some p => let '(b, l) := getloc p in if negb b then back_boundary j l else Ok (i, l)
             end
    end.

  (* the main loop and the epilogue of ExecuteInternal, from `Location starting_loc = loc;` on *)
  Definition clip_run (starting_loc : location) : res (list location * results * list (nat * nat)) :=
    s <- clip_loop main_fuel (mkSt 0 starting_loc Inside Inside [] []) ;;
    let loc := s_loc s in let first := s_first s in let sl := s_sl s in let rs := s_rs s in
    if is_inside first then
      if negb (is_inside starting_loc) then
        if rect_contains_rect (get_bounds path) r then
          c <- path1_contains_path2 path (rect_as_path r) ;;
          if c then
            '(rs', es) <- add_rect (if start_locs_are_clockwise sl then [0; 1; 2; 3] else [3; 2; 1; 0])%nat rs [] ;;
            Ok (sl, rs', es)
          else Ok (sl, rs, [])
        else Ok (sl, rs, [])
      else Ok (sl, rs, [])
    else if negb (is_inside loc) && (negb (loc_eqb loc first) || (2 <? length sl)%nat) then
      '(loc', rs1) <- (match sl with [] => Ok (loc, rs) | _ => sl_corners loc sl rs end) ;;
      if negb (loc_eqb loc' first) then
        '(_, rs2) <- add_corner loc' (hcw loc' first) rs1 ;; Ok (sl, rs2, [])
      else Ok (sl, rs1, [])
    else Ok (sl, rs, []).

  (* RectClip64::ExecuteInternal: (start_locs_, results_, edges_ entries) *)
  Definition clip_internal_g : res (list location * results * list (nat * nat)) :=
    match path with
    | [] => Ok ([], [], [])
    | _ =>
      match nth_error path hi with
      | None => Err ErrOOB
      | Some plast =>
        let '(b0, loc0) := getloc plast in
        if negb b0 then
          '(i, prev) <- back_boundary hi Inside ;;
          if (i =? 0)%nat then Ok ([], add_all 0 path [], [])
          else clip_run (if is_inside prev then Inside else loc0)
        else clip_run loc0
      end
    end.
End Internal.

Definition clip_internal (r : rect) (path : list pt) :=
  clip_internal_g (t_get_location r) (t_get_intersection r) (t_is_clockwise r) r path.

(* ====================================================================== CheckEdges / TidyEdges / GetPath *)
Record node := mkNode { n_pt : tpt; n_owner : nat; n_edge : option nat; n_next : nat; n_prev : nat }.
Record heap := mkHeap { h_nodes : list node; h_results : list (option nat); h_edges : list (list (option nat)) }.

Definition lget {A} (l : list A) (k : nat) : res A := match nth_error l k with Some a => Ok a | None => Err ErrOOB end.
Fixpoint lset {A} (l : list A) (k : nat) (v : A) : res (list A) :=
  match l, k with
  | [], _ => Err ErrOOB
  | _ :: t, O => Ok (v :: t)
  | a :: t, S j => t' <- lset t j v ;; Ok (a :: t')
  end.

Definition nd (h : heap) (k : nat) : res node := lget (h_nodes h) k.
Definition upd_node (h : heap) (k : nat) (f : node -> node) : res heap :=
  n <- nd h k ;; ns <- lset (h_nodes h) k (f n) ;; Ok (mkHeap ns (h_results h) (h_edges h)).
Definition set_next (h : heap) (k v : nat) := upd_node h k (fun n => mkNode (n_pt n) (n_owner n) (n_edge n) v (n_prev n)).
Definition set_prev (h : heap) (k v : nat) := upd_node h k (fun n => mkNode (n_pt n) (n_owner n) (n_edge n) (n_next n) v).
Definition set_owner (h : heap) (k v : nat) := upd_node h k (fun n => mkNode (n_pt n) v (n_edge n) (n_next n) (n_prev n)).
Definition set_edge (h : heap) (k : nat) (v : option nat) := upd_node h k (fun n => mkNode (n_pt n) (n_owner n) v (n_next n) (n_prev n)).
Definition set_result (h : heap) (k : nat) (v : option nat) : res heap :=
  rs <- lset (h_results h) k v ;; Ok (mkHeap (h_nodes h) rs (h_edges h)).
Definition push_result (h : heap) (v : option nat) : heap := mkHeap (h_nodes h) (h_results h ++ [v]) (h_edges h).
Definition edge_list (h : heap) (e : nat) : res (list (option nat)) := lget (h_edges h) e.
Definition set_edge_list (h : heap) (e : nat) (l : list (option nat)) : res heap :=
  es <- lset (h_edges h) e l ;; Ok (mkHeap (h_nodes h) (h_results h) es).
Definition set_edge_entry (h : heap) (e k : nat) (v : option nat) : res heap :=
  l <- edge_list h e ;; l' <- lset l k v ;; set_edge_list h e l'.

Definition npt (n : node) : pt := fst (n_pt n).
Definition onat_eqb (a : option nat) (b : nat) : bool := match a with Some x => (x =? b)%nat | None => false end.

(* UnlinkOp / UnlinkOpBack: None = nullptr (single node ring, nothing changed) *)
Definition unlink (back : bool) (h : heap) (op : nat) : res (heap * option nat) :=
  n <- nd h op ;;
  if (n_next n =? op)%nat then Ok (h, None)
  else h1 <- set_next h (n_prev n) (n_next n) ;; h2 <- set_prev h1 (n_next n) (n_prev n) ;;
       Ok (h2, Some (if back then n_prev n else n_next n)).

(* IsCollinear(op->prev->pt, op->pt, op->next->pt) *)
Definition coll_at (h : heap) (op : nat) : res bool :=
  n <- nd h op ;; p <- nd h (n_prev n) ;; x <- nd h (n_next n) ;; Ok (IsCollinear (npt p) (npt n) (npt x)).

(* AddToEdge(edges_[e], op) *)
Definition add_to_edge (h : heap) (e op : nat) : res heap :=
  n <- nd h op ;;
  match n_edge n with
  | Some _ => Ok h
  | None => h1 <- set_edge h op (Some e) ;; l <- edge_list h1 e ;; set_edge_list h1 e (l ++ [Some op])
  end.

(* UncoupleEdge(op) *)
Fixpoint null_first (op : nat) (l : list (option nat)) : list (option nat) :=
  match l with
  | [] => []
  | x :: t => if onat_eqb x op then None :: t else x :: null_first op t
  end.
Definition uncouple_edge (h : heap) (op : nat) : res heap :=
  n <- nd h op ;;
  match n_edge n with
  | None => Ok h
  | Some e => l <- edge_list h e ;; h1 <- set_edge_list h e (null_first op l) ;; set_edge h1 op None
  end.

(* SetNewOwner(op, new_idx) *)
Fixpoint set_owner_from (fuel : nat) (h : heap) (op op2 new_idx : nat) : res heap :=
  match fuel with
  | O => Err ErrFuel
  | S f => if (op2 =? op)%nat then Ok h
           else h1 <- set_owner h op2 new_idx ;; n <- nd h1 op2 ;; set_owner_from f h1 op (n_next n) new_idx
  end.
Definition set_new_owner (h : heap) (op new_idx : nat) : res heap :=
  h1 <- set_owner h op new_idx ;; n <- nd h1 op ;; set_owner_from (S (length (h_nodes h))) h1 op (n_next n) new_idx.

Section Tidy.
  Variable r : rect.

  (* ---- CheckEdges ---- *)
  (* first do-while: remove collinear vertices; returns the (possibly moved) op, None when the ring vanished *)
  Fixpoint ce_strip (fuel : nat) (h : heap) (op op2 : nat) : res (heap * option nat) :=
    match fuel with
    | O => Err ErrFuel
    | S f =>
      c <- coll_at h op2 ;;
      if c then
        '(h', x) <- unlink true h op2 ;;
        match x with
        | None => Ok (h', None)
        | Some op2' =>
          if (op2 =? op)%nat then
            n <- nd h' op2' ;; let op' := n_prev n in
            if (op2' =? op')%nat then Ok (h', Some op') else ce_strip f h' op' op2'
          else if (op2' =? op)%nat then Ok (h', Some op) else ce_strip f h' op op2'
        end
      else n <- nd h op2 ;; if (n_next n =? op)%nat then Ok (h, Some op) else ce_strip f h op (n_next n)
    end.

  Fixpoint ce_bits (h : heap) (js : list nat) (comb : Z) (pp cp : pt) (op2 : nat) : res heap :=
    match js with
    | [] => Ok h
    | j :: t =>
      if Z.testbit comb (Z.of_nat j) then
        h' <- add_to_edge h (if is_heading_clockwise pp cp (Z.of_nat j) then 2 * j else 2 * j + 1)%nat op2 ;;
        ce_bits h' t comb pp cp op2
      else ce_bits h t comb pp cp op2
    end.

  (* second do-while: register the vertices lying on rectangle edges *)
  Fixpoint ce_edges (fuel : nat) (h : heap) (op op2 : nat) (es1 : Z) : res heap :=
    match fuel with
    | O => Err ErrFuel
    | S f =>
      n <- nd h op2 ;;
      let es2 := get_edges_for_pt (npt n) r in
      h' <- (match n_edge n with
             | None => if negb (es2 =? 0) then p <- nd h (n_prev n) ;; ce_bits h [0; 1; 2; 3]%nat (Z.land es1 es2) (npt p) (npt n) op2
                       else Ok h
             | Some _ => Ok h
             end) ;;
      if (n_next n =? op)%nat then Ok h' else ce_edges f h' op (n_next n) es2
    end.

  Definition ring_fuel (h : heap) : nat := (4 * length (h_nodes h) + 8)%nat.

  Fixpoint check_edges_from (k : nat) (todo : nat) (h : heap) : res heap :=
    match todo with
    | O => Ok h
    | S t =>
      o <- lget (h_results h) k ;;
      match o with
      | None => check_edges_from (S k) t h
      | Some op =>
        '(h1, x) <- ce_strip (ring_fuel h) h op op ;;
        match x with
        | None => h2 <- set_result h1 k None ;; check_edges_from (S k) t h2
        | Some op' =>
          h2 <- set_result h1 k (Some op') ;;
          n <- nd h2 op' ;; p <- nd h2 (n_prev n) ;;
          h3 <- ce_edges (ring_fuel h) h2 op' op' (get_edges_for_pt (npt p) r) ;;
          check_edges_from (S k) t h3
        end
      end
    end.
  Definition check_edges (h : heap) : res heap := check_edges_from 0 (length (h_results h)) h.

  (* ---- TidyEdges ---- *)
  (* !p || p->next == p->prev *)
  Definition dead (h : heap) (o : option nat) : res bool :=
    match o with None => Ok true | Some p => n <- nd h p ;; Ok (n_next n =? n_prev n)%nat end.

  (* while (j < jLim && (!ccw[j] || ccw[j]->next == ccw[j]->prev)) ++j; *)
  Fixpoint skip_dead (fuel : nat) (h : heap) (ccw : list (option nat)) (j : nat) : res nat :=
    match fuel with
    | O => Err ErrFuel
    | S f => if (j <? length ccw)%nat then o <- lget ccw j ;; d <- dead h o ;; if d then skip_dead f h ccw (S j) else Ok j
             else Ok j
    end.

  Definition gt_pt (horz : bool) (a b : pt) : bool := if horz then px a >? px b else py a >? py b.

  Fixpoint tidy_loop (fuel : nat) (idx : nat) (h : heap) (i j : nat) : res heap :=
    match fuel with
    | O => Err ErrFuel
    | S f =>
      let ecw := (2 * idx)%nat in let eccw := (2 * idx + 1)%nat in
      let isHorz := (idx =? 1)%nat || (idx =? 3)%nat in
      let cwLarger := (idx =? 1)%nat || (idx =? 2)%nat in
      cw <- edge_list h ecw ;; ccw <- edge_list h eccw ;;
      if (i <? length cw)%nat then
        o1 <- lget cw i ;; d1 <- dead h o1 ;;
        if d1 then h' <- set_edge_entry h ecw i None ;; tidy_loop f idx h' (S i) 0
        else
          j' <- skip_dead (S (length ccw)) h ccw j ;;
          if (j' =? length ccw)%nat then tidy_loop f idx h (S i) 0
          else
            o2 <- lget ccw j' ;;
            match o1, o2 with
            | Some cwi, Some ccwj =>
              ncw <- nd h cwi ;; nccw <- nd h ccwj ;;
              let '(p1, p1a, p2, p2a) := if cwLarger then (n_prev ncw, cwi, ccwj, n_prev nccw)
                                         else (cwi, n_prev ncw, n_prev nccw, ccwj) in
              n1 <- nd h p1 ;; n1a <- nd h p1a ;; n2 <- nd h p2 ;; n2a <- nd h p2a ;;
              if negb (if isHorz then has_horz_overlap (npt n1) (npt n1a) (npt n2) (npt n2a)
                       else has_vert_overlap (npt n1) (npt n1a) (npt n2) (npt n2a))
              then tidy_loop f idx h i (S j')
              else
                let rejoin := negb (n_owner ncw =? n_owner nccw)%nat in
                h1 <- (if rejoin then hh <- set_result h (n_owner n2) None ;; set_new_owner hh p2 (n_owner n1) else Ok h) ;;
                h2 <- (if cwLarger
                       then a <- set_next h1 p1 p2 ;; b <- set_prev a p2 p1 ;; c <- set_prev b p1a p2a ;; set_next c p2a p1a
                       else a <- set_prev h1 p1 p2 ;; b <- set_next a p2 p1 ;; c <- set_next b p1a p2a ;; set_prev c p2a p1a) ;;
                h3 <- (if negb rejoin then
                         let new_idx := length (h_results h2) in set_new_owner (push_result h2 (Some p1a)) p1a new_idx
                       else Ok h2) ;;
                let '(op, op2) := if cwLarger then (p2, p1a) else (p1, p2a) in
                nop <- nd h3 op ;; h4 <- set_result h3 (n_owner nop) (Some op) ;;
                nop2 <- nd h4 op2 ;; h5 <- set_result h4 (n_owner nop2) (Some op2) ;;
                pop <- nd h5 (n_prev nop) ;; pop2 <- nd h5 (n_prev nop2) ;;
                let opL := gt_pt isHorz (npt nop) (npt pop) in
                let op2L := gt_pt isHorz (npt nop2) (npt pop2) in
                if (n_next nop =? n_prev nop)%nat || pt_eqb (npt nop) (npt pop) then
                  if Bool.eqb op2L cwLarger
                  then a <- set_edge_entry h5 ecw i (Some op2) ;; b <- set_edge_entry a eccw j' None ;; tidy_loop f idx b i (S j')
                  else a <- set_edge_entry h5 eccw j' (Some op2) ;; b <- set_edge_entry a ecw i None ;; tidy_loop f idx b (S i) j'
                else if (n_next nop2 =? n_prev nop2)%nat || pt_eqb (npt nop2) (npt pop2) then
                  if Bool.eqb opL cwLarger
                  then a <- set_edge_entry h5 ecw i (Some op) ;; b <- set_edge_entry a eccw j' None ;; tidy_loop f idx b i (S j')
                  else a <- set_edge_entry h5 eccw j' (Some op) ;; b <- set_edge_entry a ecw i None ;; tidy_loop f idx b (S i) j'
                else if Bool.eqb opL op2L then
                  if Bool.eqb opL cwLarger then
                    a <- set_edge_entry h5 ecw i (Some op) ;; b <- uncouple_edge a op2 ;; c <- add_to_edge b ecw op2 ;;
                    d <- set_edge_entry c eccw j' None ;; tidy_loop f idx d i (S j')
                  else
                    a <- set_edge_entry h5 ecw i None ;; b <- set_edge_entry a eccw j' (Some op2) ;;
                    c <- uncouple_edge b op ;; d <- add_to_edge c eccw op ;; tidy_loop f idx d (S i) 0
                else
                  a <- (if Bool.eqb opL cwLarger then set_edge_entry h5 ecw i (Some op) else set_edge_entry h5 eccw j' (Some op)) ;;
                  b <- (if Bool.eqb op2L cwLarger then set_edge_entry a ecw i (Some op2) else set_edge_entry a eccw j' (Some op2)) ;;
                  tidy_loop f idx b i j'
            | _, _ => Err ErrOOB      (* excluded by the two `dead` tests *)
            end
      else Ok h
    end.

  Definition tidy_fuel (h : heap) : nat := let n := (length (h_nodes h) + 4)%nat in (8 * n * n)%nat.

  Definition tidy_edges (idx : nat) (h : heap) : res heap :=
    ccw <- edge_list h (2 * idx + 1)%nat ;;
    match ccw with [] => Ok h | _ => tidy_loop (tidy_fuel h) idx h 0 0 end.

  (* ---- GetPath ---- *)
  Fixpoint gp_strip (fuel : nat) (h : heap) (op op2 : nat) : res (heap * option nat) :=
    match fuel with
    | O => Err ErrFuel
    | S f =>
      if (op2 =? op)%nat then Ok (h, Some op2)
      else
        c <- coll_at h op2 ;;
        if c then
          n <- nd h op2 ;; let op' := n_prev n in
          '(h', x) <- unlink false h op2 ;;
          match x with None => Ok (h', None) | Some op2' => gp_strip f h' op' op2' end
        else n <- nd h op2 ;; gp_strip f h op (n_next n)
    end.

  Fixpoint gp_collect (fuel : nat) (h : heap) (op op2 : nat) (acc : list tpt) : res (list tpt) :=
    match fuel with
    | O => Err ErrFuel
    | S f => if (op2 =? op)%nat then Ok (rev acc) else n <- nd h op2 ;; gp_collect f h op (n_next n) (n_pt n :: acc)
    end.

  Definition get_path (h : heap) (o : option nat) : res (heap * list tpt) :=
    match o with
    | None => Ok (h, [])
    | Some op =>
      n <- nd h op ;;
      if (n_next n =? n_prev n)%nat then Ok (h, [])
      else
        '(h', x) <- gp_strip (ring_fuel h) h op (n_next n) ;;
        match x with
        | None => Ok (h', [])
        | Some op' =>
          n' <- nd h' op' ;;
          if (n_next n' =? n_prev n')%nat then Ok (h', [])     (* fewer than 3 points are left *)
          else l <- gp_collect (ring_fuel h) h' op' (n_next n') [n_pt n'] ;; Ok (h', l)
        end
    end.

  Fixpoint get_paths (rs : list (option nat)) (h : heap) : res (list (list tpt)) :=
    match rs with
    | [] => Ok []
    | o :: t => '(h', p) <- get_path h o ;; ps <- get_paths t h' ;; Ok (match p with [] => ps | _ => p :: ps end)
    end.
End Tidy.

(* the heap ExecuteInternal leaves behind: one ring, ops in creation order *)
Definition mk_nodes (ops : list tpt) (es : list (nat * nat)) : list node :=
  let n := length ops in
  map (fun '(k, v) => mkNode v 0 (option_map fst (find (fun e => (snd e =? k)%nat) es)) (Nat.modulo (k + 1) n) (Nat.modulo (k + n - 1) n))
      (combine (seq 0 n) ops).
Definition mk_edges (es : list (nat * nat)) : list (list (option nat)) :=
  map (fun e => map (fun x => Some (snd x)) (filter (fun x => (fst x =? e)%nat) es)) (seq 0 8).
Definition mk_heap (rs : results) (es : list (nat * nat)) : heap :=
  match rs with
  | [] => mkHeap [] [] (mk_edges [])
  | ring :: _ => let ops := rev ring in mkHeap (mk_nodes ops es) [Some (length ops - 1)%nat] (mk_edges es)
  end.

(* CheckEdges; TidyEdges(0..3); GetPath for every results_ entry *)
Definition finish (r : rect) (h : heap) : res (list (list tpt)) :=
  h0 <- check_edges r h ;;
  h1 <- tidy_edges 0 h0 ;; h2 <- tidy_edges 1 h1 ;; h3 <- tidy_edges 2 h2 ;; h4 <- tidy_edges 3 h3 ;;
  get_paths (h_results h4) h4.

(* the same with the intermediate heaps (after ExecuteInternal, after CheckEdges, after the four TidyEdges), for the
   stage-by-stage correspondence *)
Definition clip_stages (r : rect) (path : list pt) : res (list location * heap * heap * heap * list (list tpt)) :=
  '(sl, rs, es) <- clip_internal r path ;;
  let h := mk_heap rs es in
  h0 <- check_edges r h ;;
  h1 <- tidy_edges 0 h0 ;; h2 <- tidy_edges 1 h1 ;; h3 <- tidy_edges 2 h2 ;; h4 <- tidy_edges 3 h3 ;;
  ps <- get_paths (h_results h4) h4 ;; Ok (sl, h, h0, h4, ps).

Fixpoint tag_sv (i : nat) (l : list pt) : list tpt := match l with [] => [] | v :: t => (v, SV i) :: tag_sv (S i) t end.

Inductive shortcut := ScNone | ScSkip | ScCopy.
Definition shortcut_of (r : rect) (path : list pt) : shortcut :=
  if (length path <? 3)%nat then ScSkip
  else let b := get_bounds path in
       if negb (rect_intersects r b) then ScSkip
       else if rect_contains_rect r b then ScCopy else ScNone.

(* the body of the for loop of RectClip64::Execute, for any three leaf functions *)
Definition clip_one_g getloc gi iscw (r : rect) (path : list pt) : res (list (list tpt)) :=
  match shortcut_of r path with
  | ScSkip => Ok []
  | ScCopy => Ok [tag_sv 0 path]
  | ScNone => '(_, rs, es) <- clip_internal_g getloc gi iscw r path ;; finish r (mk_heap rs es)
  end.

(* RectClip(rect, {path}) for one path, translated leaf functions *)
Definition rect_clip_t (r : rect) (path : list pt) : res (list (list tpt)) :=
  if rect_is_empty r then Ok [] else clip_one_g (t_get_location r) (t_get_intersection r) (t_is_clockwise r) r path.

Definition rect_clip (r : rect) (path : list pt) : list (list pt) := untag (res_default [] (rect_clip_t r path)).

(* RectClip(rect, paths) / RectClip64::Execute(paths) on SEVERAL paths: Execute clips path after path and clears op_container_,
   results_, edges_ and start_locs_ at the end of every loop iteration, so nothing is carried from one path to the next (nor
   from one Execute call on an object to the next): the result is the concatenation of the per-path results in input order *)
Fixpoint rect_clip_paths_t (r : rect) (ps : list (list pt)) : res (list (list tpt)) :=
  match ps with
  | [] => Ok []
  | p :: t => o <- rect_clip_t r p ;; o' <- rect_clip_paths_t r t ;; Ok (o ++ o')
  end.
Definition rect_clip_paths (r : rect) (ps : list (list pt)) : res (list (list pt)) :=
  o <- rect_clip_paths_t r ps ;; Ok (untag o).

(* ---------- diagnostic variant (root cause classification in checks/C08.py only; no theorem is about it) ----------
   GetSegmentIntersection followed by a projection of the point it returns onto the rectangle side p3-p4 it was computed
   for (perpendicular coordinate := the side's, the other one clamped to the side's extent): the behaviour the code would
   have if computed intersection points were placed ON the side.  A failure of the real output that this variant does
   not show is explained by an intersection point computed off the side (truncation of x1 + t*dx). *)
Definition clampz (lo hi x : Z) : Z := Z.max lo (Z.min hi x).
Definition snap_to_side (a b q : pt) : pt :=
  if px a =? px b then (px a, clampz (Z.min (py a) (py b)) (Z.max (py a) (py b)) (py q))
  else if py a =? py b then (clampz (Z.min (px a) (px b)) (Z.max (px a) (px b)) (px q), py a)
  else q.
Definition gsi_snapped (p1 p2 p3 p4 ip : pt) : bool * pt :=
  let '(ok, q) := GetSegmentIntersection p1 p2 p3 p4 ip in (ok, if ok then snap_to_side p3 p4 q else q).
Definition rect_clip_snapped_t (r : rect) (path : list pt) : res (list (list tpt)) :=
  if rect_is_empty r then Ok [] else clip_one_g (t_get_location r) (get_intersection_g gsi_snapped r) (t_is_clockwise r) r path.

(* sanity *)
Example clip_ex1 :
  rect_clip (mkRect 0 0 10 10) [(-5, 5); (5, -5); (5, 5)] = [[(5, 5); (0, 5); (0, 0); (5, 0)]].
Proof. vm_compute. reflexivity. Qed.
