(* C15: Z-carrying models.  A point of the USINGZ build is (x, y, z); [erase] forgets z.
   The path kernels are written ONCE, generically in the point type P (Section Gen), exactly following the
   index-based/fuelled shape of model/PathUtils.v, and instantiated
     - with P = pt  (the build without USINGZ; proofs/ZErase.v shows these instances ARE the PathUtils.v models),
     - with P = pt3 (the USINGZ build): whole points are copied by TrimCollinear/StripDuplicates (z travels with the
       point), while every place where the library constructs a point from x and y only gets the default z = 0
       (TranslatePath: `Point<T>(pt.x + dx, pt.y + dy)`; Minkowski: `p + pt2`, operator+ builds Point(x + b.x, y + b.y)).
   ClipperBase::SetZ is modelled separately below.  Tie: harness/cx_z.cpp (z build) commands SETZ EQ STRIP TRANSL TRIM
   MINK against the extraction of this file (oracle/drv_zerase.ml), exact comparison. *)
From Coq Require Import ZArith List Bool Lia.
From Clip Require Import base.Geom model.PathUtils.
Import ListNotations.

Definition pt3 := (pt * Z)%type.
Definition erase (p : pt3) : pt := fst p.
Definition pz (p : pt3) : Z := snd p.
Definition mk3 (x y z : Z) : pt3 := ((x, y), z).
Definition x3 (p : pt3) : Z := px (fst p).
Definition y3 (p : pt3) : Z := py (fst p).

(* operator==(const Point& a, const Point& b) { return a.x == b.x && a.y == b.y; }   (same text in both builds) *)
Definition point_eqb3 (a b : pt3) : bool := (x3 a =? x3 b)%Z && (y3 a =? y3 b)%Z.

(* IsCollinear on Z-carrying points reads x and y only *)
Definition is_collinear3 (a b c : pt3) : bool := is_collinear (erase a) (erase b) (erase c).

Local Open Scope nat_scope.

Section Gen.
  Context {P : Type}.
  Variable eqb : P -> P -> bool.          (* operator== *)
  Variable coll : P -> P -> P -> bool.    (* IsCollinear *)

  (* ---- TrimCollinear(const Path64&, bool), see PathUtils.v for the code lines ---- *)
  Fixpoint g_trim_lead (fuel : nat) (p : list P) (src stop : nat) : res nat :=
    match fuel with
    | O => ErrFuel
    | S f =>
      if src =? stop then Ok src else
      a <- rd p stop ;; b <- rd p src ;; c <- rd p (S src) ;;
      if coll a b c then g_trim_lead f p (S src) stop else Ok src
    end.

  Fixpoint g_trim_tail (fuel : nat) (p : list P) (src stop : nat) : res nat :=
    match fuel with
    | O => ErrFuel
    | S f =>
      if src =? stop then Ok stop else
      match stop with
      | O => ErrOOB
      | S s1 =>
        a <- rd p s1 ;; b <- rd p stop ;; c <- rd p src ;;
        if coll a b c then g_trim_tail f p src s1 else Ok stop
      end
    end.

  Fixpoint g_trim_main (fuel : nat) (p : list P) (prev src stop : nat) (dst : list P) : res (nat * list P) :=
    match fuel with
    | O => ErrFuel
    | S f =>
      if src =? stop then Ok (prev, dst) else
      a <- rd p prev ;; b <- rd p src ;; c <- rd p (S src) ;;
      if negb (coll a b c) then g_trim_main f p src (S src) stop (dst ++ [b])
      else g_trim_main f p prev (S src) stop dst
    end.

  Fixpoint g_trim_seam (fuel : nat) (dst : list P) : res (list P) :=
    match fuel with
    | O => ErrFuel
    | S f =>
      let n := length dst in
      if 2 <? n then
        a <- rd dst (n - 1) ;; b <- rd dst (n - 2) ;; c <- rd dst 0 ;;
        if coll a b c then g_trim_seam f (removelast dst) else Ok dst
      else Ok dst
    end.

  Definition g_trim_collinear (p : list P) (is_open : bool) : res (list P) :=
    let len := length p in
    if len <? 3 then
      if negb is_open || (len <? 2) then Ok [] else Ok p
    else
      let stop0 := len - 1 in
      ss <- (if negb is_open then
               s <- g_trim_lead (S len) p 0 stop0 ;;
               e <- g_trim_tail (S len) p s stop0 ;;
               Ok (s, e)
             else Ok (0, stop0)) ;;
      let '(src, stop) := ss in
      if negb is_open && (src =? stop) then Ok [] else
      a <- rd p src ;;
      r <- g_trim_main (S len) p src (S src) stop [a] ;;
      let '(prev, dst) := r in
      if is_open then z <- rd p stop ;; Ok (dst ++ [z])
      else
        a <- rd p prev ;; b <- rd p stop ;; c <- rd dst 0 ;;
        if negb (coll a b c) then Ok (dst ++ [b])
        else d <- g_trim_seam (S len) dst ;; if length d <? 3 then Ok [] else Ok d.

  (* ---- StripDuplicates: std::unique keeps the FIRST point of every run (and its z); pop_back from the end ---- *)
  Fixpoint g_unique_from (last : P) (l : list P) : list P :=
    match l with
    | [] => []
    | x :: t => if eqb last x then g_unique_from last t else x :: g_unique_from x t
    end.

  Definition g_std_unique (p : list P) : list P :=
    match p with [] => [] | a :: t => a :: g_unique_from a t end.

  Fixpoint g_pop_back_eq (fuel : nat) (l : list P) : res (list P) :=
    match fuel with
    | O => ErrFuel
    | S f =>
      if 1 <? length l then
        a <- rd l (length l - 1) ;; b <- rd l 0 ;;
        if eqb a b then g_pop_back_eq f (removelast l) else Ok l
      else Ok l
    end.

  Definition g_strip_duplicates (p : list P) (closed : bool) : res (list P) :=
    let u := g_std_unique p in
    if closed then g_pop_back_eq (S (length u)) u else Ok u.

  (* ---- detail::Minkowski(pattern, path, isSum, isClosed): the quads handed to Union ---- *)
  Variable padd_ : P -> P -> P.            (* p + pt2  or  p - pt2 *)
  Variable is_pos : list P -> bool.        (* IsPositive(quad) = Area(quad) >= 0: a function of x and y only *)

  (* tmp[i] = pattern translated by path[i] *)
  Definition g_mink_tmp (pattern path : list P) : list (list P) :=
    map (fun p => map (fun q => padd_ p q) pattern) path.

  Definition rd2 (tmp : list (list P)) (i j : nat) : res P := row <- rd tmp i ;; rd row j.

  (* inner loop `for (j = 0; j < patLen; j++) { quad...; h = j; }`, js = the remaining values of j *)
  Fixpoint g_mink_row (tmp : list (list P)) (g i h : nat) (js : list nat) : res (list (list P) * nat) :=
    match js with
    | [] => Ok ([], h)
    | j :: js' =>
      a <- rd2 tmp g h ;; b <- rd2 tmp i h ;; c <- rd2 tmp i j ;; d <- rd2 tmp g j ;;
      let quad := [a; b; c; d] in
      let quad := if is_pos quad then quad else rev quad in
      r <- g_mink_row tmp g i j js' ;;
      Ok (quad :: fst r, snd r)
    end.

  (* outer loop `for (h = patLen - 1, i = delta; i < pathLen; ++i) { ...; g = i; }` *)
  Fixpoint g_mink_rows (tmp : list (list P)) (patLen g h : nat) (is : list nat) : res (list (list P)) :=
    match is with
    | [] => Ok []
    | i :: is' =>
      r <- g_mink_row tmp g i h (seq 0 patLen) ;;
      rest <- g_mink_rows tmp patLen i (snd r) is' ;;
      Ok (fst r ++ rest)
    end.

  Definition g_minkowski (pattern path : list P) (closed : bool) : res (list (list P)) :=
    let delta := if closed then 0 else 1 in
    let patLen := length pattern in
    let pathLen := length path in
    if (patLen =? 0) || (pathLen =? 0) then Ok [] else
    let tmp := g_mink_tmp pattern path in
    let g := if closed then pathLen - 1 else 0 in
    g_mink_rows tmp patLen g (patLen - 1) (seq delta (pathLen - delta)).
End Gen.

(* ---------- instances: build without USINGZ ---------- *)
Definition area2_sign_nonneg (q : list pt) : bool := (0 <=? area2 q)%Z.   (* exact sign; the code's double sum is exact below 2^26 *)
Definition trim_collinear2 := g_trim_collinear is_collinear.
Definition strip_duplicates2 := g_strip_duplicates pt_eqb.
Definition minkowski2 (sum : bool) :=
  g_minkowski (fun p q => if sum then padd p q else psub p q) area2_sign_nonneg.

(* ---------- instances: USINGZ build ---------- *)
Definition trim_collinear_z := g_trim_collinear is_collinear3.
Definition strip_duplicates_z := g_strip_duplicates point_eqb3.
(* operator+ / operator- construct Point(x, y): z defaults to 0 *)
Definition padd3 (p q : pt3) : pt3 := (padd (erase p) (erase q), 0%Z).
Definition psub3 (p q : pt3) : pt3 := (psub (erase p) (erase q), 0%Z).
Definition minkowski_z (sum : bool) :=
  g_minkowski (fun p q => if sum then padd3 p q else psub3 p q) (fun q => area2_sign_nonneg (map erase q)).
(* TranslatePath: Point<T>(pt.x + dx, pt.y + dy) *)
Definition translate_path_z (p : list pt3) (dx dy : Z) : list pt3 :=
  map (fun q => mk3 (x3 q + dx) (y3 q + dy) 0) p.

(* ---------- ClipperBase::SetZ ---------- *)
Record zedge := { e_clip : bool; e_bot : pt3; e_top : pt3 }.       (* GetPolyType(e) == Clip, e.bot, e.top *)

(* the if/else-if chain: z of the first coinciding end, else DefaultZ *)
Definition first_match (dz : Z) (ip : pt3) (ends : list pt3) : Z :=
  match find (fun v => point_eqb3 ip v) ends with Some v => pz v | None => dz end.

Definition zcallback := pt3 -> pt3 -> pt3 -> pt3 -> pt3 -> pt3.     (* (e1bot, e1top, e2bot, e2top, pt&) -> pt afterwards *)

Definition set_z (cb : option zcallback) (dz : Z) (e1 e2 : zedge) (ip : pt3) : pt3 :=
  match cb with
  | None => ip                                                      (* if (!zCallback_) return; *)
  | Some f =>
    if negb (e_clip e1) then                                        (* GetPolyType(e1) == PathType::Subject *)
      let z := (if point_eqb3 ip (e_bot e1) then pz (e_bot e1)
                else if point_eqb3 ip (e_top e1) then pz (e_top e1)
                else if point_eqb3 ip (e_bot e2) then pz (e_bot e2)
                else if point_eqb3 ip (e_top e2) then pz (e_top e2)
                else dz) in
      f (e_bot e1) (e_top e1) (e_bot e2) (e_top e2) (erase ip, z)
    else
      let z := (if point_eqb3 ip (e_bot e2) then pz (e_bot e2)
                else if point_eqb3 ip (e_top e2) then pz (e_top e2)
                else if point_eqb3 ip (e_bot e1) then pz (e_bot e1)
                else if point_eqb3 ip (e_top e1) then pz (e_top e1)
                else dz) in
      f (e_bot e2) (e_top e2) (e_bot e1) (e_top e1) (erase ip, z)
  end.

(* ---------- ClipperBase::DoSplitOp: the ring surgery and the flow of z ---------- *)
(* The output ring is given starting at prevOp: [prevOp; splitOp; splitOp.next; nextNextOp; rest ...].  The geometric
   decisions are parameters (the harness derives them with the same library calls): [sg_ip] = the local Point64 ip after
   GetSegmentIntersectPt (default-constructed, so z = 0 unless that function copied an end point), [sg_small] =
   |Area(ring)| < 2 (ring disposed), [sg_keep] = the cut-off triangle is kept as a ring of its own.
   The callback is invoked once, on the local ip, BEFORE ip is used; both new OutPts are copies of that ip.
   Result: (kept ring from prevOp | disposed, new ring from newOp | none). *)
Record split_geom := { sg_ip : pt3; sg_small : bool; sg_keep : bool }.

Definition split_ip (cb : option zcallback) (prev split snext nn : pt3) (g : split_geom) : pt3 :=
  match cb with Some f => f prev split snext nn (sg_ip g) | None => sg_ip g end.

Definition do_split_op_z (cb : option zcallback) (ring : list pt3) (g : split_geom)
  : option (option (list pt3) * option (list pt3)) :=
  match ring with
  | prev :: split :: snext :: nn :: rest =>
      let ip := split_ip cb prev split snext nn g in
      if sg_small g then Some (None, None)
      else
        let kept := if point_eqb3 ip prev || point_eqb3 ip nn then prev :: nn :: rest
                    else prev :: ip :: nn :: rest in
        Some (Some kept, if sg_keep g then Some [ip; split; snext] else None)
  | _ => None                                   (* fewer than four OutPts: FixSelfIntersects never calls it *)
  end.

(* ---------- sanity ---------- *)
Local Open Scope Z_scope.
Example ex_strip_z : strip_duplicates_z [mk3 0 0 5; mk3 0 0 6; mk3 1 0 7; mk3 0 0 8] true = Ok [mk3 0 0 5; mk3 1 0 7].
Proof. vm_compute. reflexivity. Qed.
Example ex_translate_z : translate_path_z [mk3 1 2 9] 10 20 = [mk3 11 22 0].
Proof. reflexivity. Qed.
Example ex_split_z :
  do_split_op_z (Some (fun _ _ _ _ p => (erase p, 100))) [mk3 0 0 1; mk3 10 10 2; mk3 10 0 3; mk3 0 9 4; mk3 (-5) 5 5]
                {| sg_ip := mk3 5 5 0; sg_small := false; sg_keep := true |}
  = Some (Some [mk3 0 0 1; mk3 5 5 100; mk3 0 9 4; mk3 (-5) 5 5], Some [mk3 5 5 100; mk3 10 10 2; mk3 10 0 3]).
Proof. reflexivity. Qed.
Example ex_setz_subject_first :
  set_z (Some (fun _ _ _ _ p => p)) 99 {| e_clip := true; e_bot := mk3 0 0 1; e_top := mk3 5 5 2 |}
        {| e_clip := false; e_bot := mk3 0 0 3; e_top := mk3 7 7 4 |} (mk3 0 0 0) = mk3 0 0 3.
Proof. reflexivity. Qed.
