(* C12 -- the Clipper64 object as a state machine, the abstract "inputs since the last Clear" state, the
   specification of std::stable_sort with LocMinSorter, the per-path loop of RectClip64::Execute, and the
   hand-written policy table that classifies every data member listed in the regenerated Gen_fields.table.

   What is modelled (clipper.engine.h/.cpp): ClipperBase::AddPaths (836), AddReuseableData (843), Clear (776),
   Reset (786, the lazy stable_sort guarded by minima_list_sorted_), Clipper64::Execute (482-517: ExecuteInternal,
   Build*, CleanUp), CleanUp (765).  What is *not* modelled: the sweep.  It is the Section variable [engine_raw];
   it receives everything Execute can read: the scratch state it finds, the minima in their current order,
   has_open_paths_, the options and the call's arguments.  The local-minima finder AddPaths_ is not modelled here
   either: an add operation carries the minima AddPaths_ appended (harness/cx_history.cpp TR prints them, the
   correspondence run compares the model's state after every operation with the object's). *)
From Coq Require Import ZArith List Bool String Lia.
From Clip Require Import base.Region gen.Gen_fields.
Import ListNotations.
Local Open Scope Z_scope.

(* ------------------------------------------------------------------------------------------------------------ *)
(** * Stable sorting, specified by insertion *)
Section StableSort.
  Context {A : Type}.
  Variable lt : A -> A -> bool.       (* the comparator handed to std::stable_sort: [lt a b] = a goes before b *)

  (* x is put in front of the first element that is not strictly smaller: equivalent elements that were already
     there stay behind x, which is what stability asks for when x originally preceded them *)
  Fixpoint sinsert (x : A) (l : list A) : list A :=
    match l with
    | [] => [x]
    | y :: t => if lt y x then y :: sinsert x t else x :: y :: t
    end.

  Definition ssort (l : list A) : list A := fold_right sinsert [] l.
End StableSort.

(* ------------------------------------------------------------------------------------------------------------ *)
(** * Local minima and LocMinSorter *)
Record locmin := mkLM { lm_id : Z; lm_x : Z; lm_y : Z; lm_clip : bool; lm_open : bool }.

(* engine.cpp:49  LocMinSorter(a, b): if (b.y != a.y) return b.y < a.y; else return b.x > a.x; *)
Definition lm_lt (a b : locmin) : bool :=
  if negb (lm_y b =? lm_y a) then lm_y b <? lm_y a else lm_x b >? lm_x a.

(* a vertex flagged as local minimum by AddPaths_, before the add operation attaches path type and openness *)
Record rawmin := mkRaw { r_id : Z; r_x : Z; r_y : Z }.
Definition attach (clip open : bool) (r : rawmin) : locmin := mkLM (r_id r) (r_x r) (r_y r) clip open.

(* ------------------------------------------------------------------------------------------------------------ *)
(** * Operations, options *)
Record opts := mkOpts { o_preserve_collinear : bool; o_reverse_solution : bool }.
Definition default_opts := mkOpts true false.        (* engine.h:259-260 *)

Inductive exec_kind := ExecPaths | ExecTree.

Inductive op :=
| AddSubject (ps : list rawmin)
| AddOpenSubject (ps : list rawmin)
| AddClip (ps : list rawmin)
| AddReuseableData (container : list locmin)       (* the container's minima_list_, copied one by one *)
| SetPreserveCollinear (b : bool)
| SetReverseSolution (b : bool)
| Execute (ct : clip_type) (fr : fill_rule) (k : exec_kind)
| Clear.

Definition is_add (o : op) : bool :=
  match o with AddSubject _ | AddOpenSubject _ | AddClip _ | AddReuseableData _ => true | _ => false end.

(* minima appended by an add operation, and whether it raises has_open_paths_ (AddPaths: `if (is_open)`, even for
   an empty path set; AddReuseableData: per copied minimum) *)
Definition op_minima (o : op) : list locmin :=
  match o with
  | AddSubject ps => map (attach false false) ps
  | AddOpenSubject ps => map (attach false true) ps
  | AddClip ps => map (attach true false) ps
  | AddReuseableData c => c
  | _ => []
  end.
Definition op_sets_open (o : op) : bool :=
  match o with
  | AddOpenSubject _ => true
  | AddReuseableData c => existsb lm_open c
  | _ => false
  end.

Section SM.
  (* what the sweep leaves behind in actives_/scanline_list_/intersect_nodes_/outrec_list_/horz_*_list_ *)
  Variable scratch : Type.
  Variable empty_scratch : scratch.
  Variable result : Type.
  (* ExecuteInternal after Reset + BuildPaths/BuildTree: may read everything it is given, including a dirty scratch *)
  Variable engine_raw : scratch -> list locmin -> bool -> opts -> clip_type -> fill_rule -> exec_kind -> result * scratch.

  (* the engine as a fresh object sees it *)
  Definition engine (ms : list locmin) (has_open : bool) (o : opts) ct fr k : result :=
    fst (engine_raw empty_scratch ms has_open o ct fr k).

  (** ** Concrete object *)
  Record cstate := mkC {
    c_minima : list locmin;        (* minima_list_ in its current order *)
    c_sorted : bool;               (* minima_list_sorted_ *)
    c_has_open : bool;             (* has_open_paths_ *)
    c_opts : opts;                 (* preserve_collinear_, reverse_solution_ *)
    c_succeeded : bool;            (* succeeded_ (AddReuseableData sets it to false, Reset to true) *)
    c_scratch : scratch;
    c_last : option result }.      (* what the last Execute returned *)

  Definition c_init := mkC [] false false default_opts true empty_scratch None.

  Definition add_paths (s : cstate) (open : bool) (ms : list locmin) : cstate :=
    mkC (c_minima s ++ ms) false (if open then true else c_has_open s) (c_opts s) (c_succeeded s) (c_scratch s) (c_last s).

  (* Reset(): sort only when the cache flag is off *)
  Definition reset (s : cstate) : cstate :=
    mkC (if c_sorted s then c_minima s else ssort lm_lt (c_minima s)) true (c_has_open s) (c_opts s) true
        (c_scratch s) (c_last s).

  Definition clean_up (s : cstate) : cstate :=
    mkC (c_minima s) (c_sorted s) (c_has_open s) (c_opts s) (c_succeeded s) empty_scratch (c_last s).

  Definition cstep (s : cstate) (o : op) : cstate :=
    match o with
    | AddSubject _ | AddClip _ => add_paths s false (op_minima o)
    | AddOpenSubject _ => add_paths s true (op_minima o)
    | AddReuseableData c =>
        mkC (c_minima s ++ c) false (c_has_open s || existsb lm_open c) (c_opts s) false (c_scratch s) (c_last s)
    | SetPreserveCollinear b =>
        mkC (c_minima s) (c_sorted s) (c_has_open s) (mkOpts b (o_reverse_solution (c_opts s))) (c_succeeded s) (c_scratch s) (c_last s)
    | SetReverseSolution b =>
        mkC (c_minima s) (c_sorted s) (c_has_open s) (mkOpts (o_preserve_collinear (c_opts s)) b) (c_succeeded s) (c_scratch s) (c_last s)
    | Execute ct fr k =>
        let s1 := reset s in
        let '(r, dirty) := engine_raw (c_scratch s1) (c_minima s1) (c_has_open s1) (c_opts s1) ct fr k in
        clean_up (mkC (c_minima s1) (c_sorted s1) (c_has_open s1) (c_opts s1) (c_succeeded s1) dirty (Some r))
    | Clear =>
        (* CleanUp; DisposeVerticesAndLocalMinima; minima_list_sorted_ = false; has_open_paths_ = false *)
        mkC [] false false (c_opts s) (c_succeeded s) empty_scratch (c_last s)
    end.

  Definition run_sm (h : list op) : cstate := fold_left cstep h c_init.

  (** ** Abstract state: the adds since the last Clear, in order, and the current options *)
  Record astate := mkA { a_adds : list op; a_opts : opts }.
  Definition a_init := mkA [] default_opts.

  Definition astep (a : astate) (o : op) : astate :=
    match o with
    | AddSubject _ | AddOpenSubject _ | AddClip _ | AddReuseableData _ => mkA (a_adds a ++ [o]) (a_opts a)
    | SetPreserveCollinear b => mkA (a_adds a) (mkOpts b (o_reverse_solution (a_opts a)))
    | SetReverseSolution b => mkA (a_adds a) (mkOpts (o_preserve_collinear (a_opts a)) b)
    | Execute _ _ _ => a
    | Clear => mkA [] (a_opts a)
    end.

  Definition abs (h : list op) : astate := fold_left astep h a_init.
  Definition minima (a : astate) : list locmin := flat_map op_minima (a_adds a).
  Definition has_open (a : astate) : bool := existsb op_sets_open (a_adds a).

  (* the history a caller uses to bring a *fresh* object to the abstract state [a] and make the call *)
  Definition fresh_history (a : astate) ct fr k : list op :=
    SetPreserveCollinear (o_preserve_collinear (a_opts a)) :: SetReverseSolution (o_reverse_solution (a_opts a))
      :: a_adds a ++ [Execute ct fr k].
End SM.

(* ------------------------------------------------------------------------------------------------------------ *)
(** * RectClip64::Execute (rectclip.cpp:873): per-path loop with clean-up, on a reusable object *)
Section Rect.
  Variables (path out scratch : Type).
  Variable empty : scratch.                            (* op_container_, results_, edges_[8], start_locs_ all empty *)
  Variable skip : path -> option (list out).           (* the three early `continue`s: they touch no member
                                                          (path_bounds_ is assigned before it is read) *)
  Variable clip : scratch -> path -> list out * scratch.   (* ExecuteInternal; CheckEdges; TidyEdges; GetPath *)

  Definition rect_step (acc : list out * scratch) (p : path) : list out * scratch :=
    match skip p with
    | Some o => (fst acc ++ o, snd acc)
    | None => let '(o, _) := clip (snd acc) p in (fst acc ++ o, empty)       (* lines 903-907 *)
    end.

  (* one call on an object whose members are in state s: the result and the state left behind *)
  Definition rect_execute_from (s : scratch) (ps : list path) : list out * scratch := fold_left rect_step ps ([], s).
  Definition rect_execute (ps : list path) : list out := fst (rect_execute_from empty ps).
  (* a sequence of calls on one object *)
  Fixpoint rect_calls (s : scratch) (calls : list (list path)) : list (list out) :=
    match calls with
    | [] => []
    | ps :: rest => let '(o, s') := rect_execute_from s ps in o :: rect_calls s' rest
    end.
End Rect.

(* ------------------------------------------------------------------------------------------------------------ *)
(** * Policy: one entry per data member of the tracked classes *)
Inductive fkind :=
| KInput            (* retained by design until Clear: part of the abstract state *)
| KOption           (* retained by design: set only by its setter *)
| KConstant         (* never written after construction *)
| KScratchCleared   (* emptied by CleanUp / Reset / the per-path clean-up *)
| KWrittenBeforeRead (* assigned on every path from the entry point before any read (justified per entry) *)
| KCache            (* minima_list_sorted_: covered by C12_refines *)
| KAccumulating.    (* error_code_: only accumulates, never read by the algorithms *)

Record policy := mkP {
  p_class : string; p_name : string; p_kind : fkind;
  p_requires : list (string * string);   (* (function, write kind) pairs that must occur in the member's f_writes *)
  p_calls : list (string * string);      (* call edges that must exist for the requirement to mean anything *)
  p_only : option (list string) }.       (* when given: no other function may (be suspected to) modify the member *)

Local Open Scope string_scope.

Definition CB := "ClipperBase".
Definition CO := "ClipperOffset".
Definition RC := "RectClip64".
Definition cb (f : string) := "ClipperBase::" ++ f.
Definition co (f : string) := "ClipperOffset::" ++ f.

(* every public Execute ends with CleanUp, ExecuteInternal starts with Reset *)
Definition exec_calls : list (string * string) :=
  [("Clipper64::Execute", cb "CleanUp"); ("ClipperD::Execute", cb "CleanUp");
   ("Clipper64::Execute", cb "ExecuteInternal"); ("ClipperD::Execute", cb "ExecuteInternal");
   (cb "ExecuteInternal", cb "Reset")].
Definition clear_calls : list (string * string) :=
  [(cb "Clear", cb "CleanUp"); (cb "Clear", cb "DisposeVerticesAndLocalMinima")].
Definition off_calls : list (string * string) :=
  [(co "Execute", co "ExecuteInternal"); (co "ExecuteInternal", co "DoGroupOffset")].

Definition policy_table : list policy := [
  (* ---- ClipperBase ---- *)
  (* first three statements of ExecuteInternal (2132-2134), before Reset and before any read *)
  mkP CB "cliptype_" KWrittenBeforeRead [(cb "ExecuteInternal", "assign")] exec_calls (Some [cb "ExecuteInternal"]);
  mkP CB "fillrule_" KWrittenBeforeRead [(cb "ExecuteInternal", "assign")] exec_calls (Some [cb "ExecuteInternal"]);
  mkP CB "using_polytree_" KWrittenBeforeRead [(cb "ExecuteInternal", "assign")] exec_calls (Some [cb "ExecuteInternal"]);
  (* only its in-class initialiser; compared with fillrule_ *)
  mkP CB "fillpos" KConstant [] [] (Some []);
  (* read only in AddNewIntersectNode (2365, 2383) <- BuildIntersectList <- DoIntersections(y), which the loop of
     ExecuteInternal calls after `bot_y_ = y` (2149) in the same iteration *)
  mkP CB "bot_y_" KWrittenBeforeRead [(cb "ExecuteInternal", "assign")] exec_calls (Some [cb "ExecuteInternal"]);
  mkP CB "minima_list_sorted_" KCache
      [(cb "AddPaths", "assign"); (cb "AddReuseableData", "assign"); (cb "Clear", "assign"); (cb "Reset", "assign")]
      exec_calls (Some [cb "AddPaths"; cb "AddReuseableData"; cb "Clear"; cb "Reset"]);
  (* Reset sets it to nullptr (798) before InsertLocalMinimaIntoAEL reads it; CleanUp deletes what is left *)
  mkP CB "actives_" KScratchCleared [(cb "Reset", "assign"); (cb "CleanUp", "ref")] (exec_calls ++ [(cb "CleanUp", cb "DeleteEdges")]) None;
  mkP CB "sel_" KWrittenBeforeRead [(cb "Reset", "assign")] exec_calls None;
  mkP CB "minima_list_" KInput [(cb "DisposeVerticesAndLocalMinima", "call:clear")] clear_calls None;
  mkP CB "current_locmin_iter_" KWrittenBeforeRead [(cb "Reset", "assign")] exec_calls None;
  mkP CB "vertex_lists_" KInput [(cb "DisposeVerticesAndLocalMinima", "call:clear")] clear_calls None;
  mkP CB "scanline_list_" KScratchCleared [(cb "CleanUp", "assign")] exec_calls None;
  mkP CB "intersect_nodes_" KScratchCleared [(cb "CleanUp", "call:clear")] exec_calls None;
  mkP CB "horz_seg_list_" KScratchCleared [(cb "CleanUp", "call:clear")] exec_calls None;
  mkP CB "horz_join_list_" KScratchCleared [(cb "CleanUp", "call:clear")] exec_calls None;
  mkP CB "outrec_list_" KScratchCleared [(cb "DisposeAllOutRecs", "call:resize")]
      (exec_calls ++ [(cb "CleanUp", cb "DisposeAllOutRecs")]) None;
  mkP CB "preserve_collinear_" KOption [] [] (Some [cb "PreserveCollinear"]);
  mkP CB "reverse_solution_" KOption [] [] (Some [cb "ReverseSolution"]);
  (* written by ClipperD's scaling helpers only; ErrorCode() is its only reader *)
  mkP CB "error_code_" KAccumulating [] []
      (Some ["ClipperD::ClipperD"; "ClipperD::AddSubject"; "ClipperD::AddOpenSubject"; "ClipperD::AddClip"]);
  mkP CB "has_open_paths_" KInput
      [(cb "AddPaths", "assign"); (cb "AddReuseableData", "assign"); (cb "Clear", "assign")] []
      (Some [cb "AddPaths"; cb "AddReuseableData"; cb "Clear"]);
  (* Reset sets it to true (800); AddReuseableData's `succeeded_ = false` is overwritten before Execute returns it *)
  mkP CB "succeeded_" KWrittenBeforeRead [(cb "Reset", "assign")] exec_calls None;
  mkP CB "zCallback_" KOption [] [] (Some ["Clipper64::SetZCallback"; "ClipperD::CheckCallback"]);
  mkP CB "DefaultZ" KOption [] [] (Some []);
  (* ---- ClipperD ---- *)
  mkP "ClipperD" "scale_" KConstant [] [] (Some ["ClipperD::ClipperD"]);
  mkP "ClipperD" "invScale_" KConstant [] [] (Some ["ClipperD::ClipperD"]);
  mkP "ClipperD" "zCallbackD_" KOption [] [] (Some ["ClipperD::SetZCallback"]);
  (* ---- ClipperOffset ----  "written before read" here speaks about *calls*: nothing survives from one Execute to
     the next.  Inside one call the per-group / per-path values (group_delta_, join_type_, end_type_, step constants) are
     decided by OffsetPlan.v (C12_plan_order_independent) and by the offset validation of checks/C12.py.
     delta_ belongs to the whole call: ExecuteInternal is its only writer (before offset-delta-abs-leak.patch
     DoGroupOffset overwrote it with its absolute value for a Polygon group without a lowest path; the [p_only] below
     makes C12_fields_covered fail if such a write comes back). *)
  mkP CO "error_code_" KWrittenBeforeRead [(co "ExecuteInternal", "assign")] off_calls (Some [co "ExecuteInternal"]);
  mkP CO "delta_" KWrittenBeforeRead [(co "ExecuteInternal", "assign")] off_calls (Some [co "ExecuteInternal"]);
  mkP CO "group_delta_" KWrittenBeforeRead [(co "DoGroupOffset", "assign")] off_calls None;
  (* assigned in ExecuteInternal (584) before the group loop; read only in OffsetPoint *)
  mkP CO "temp_lim_" KWrittenBeforeRead [(co "ExecuteInternal", "assign")] off_calls (Some [co "ExecuteInternal"]);
  (* read in DoRound and in the single-point Round branch only, i.e. when the group's join or end type is Round,
     which is exactly when DoGroupOffset assigns them (464-479); with a delta callback DoRound recomputes them *)
  mkP CO "steps_per_rad_" KWrittenBeforeRead [(co "DoGroupOffset", "assign")] off_calls (Some [co "DoGroupOffset"; co "DoRound"]);
  mkP CO "step_sin_" KWrittenBeforeRead [(co "DoGroupOffset", "assign")] off_calls (Some [co "DoGroupOffset"; co "DoRound"]);
  mkP CO "step_cos_" KWrittenBeforeRead [(co "DoGroupOffset", "assign")] off_calls (Some [co "DoGroupOffset"; co "DoRound"]);
  mkP CO "norms" KScratchCleared [(co "BuildNormals", "call:clear")] (off_calls ++ [(co "DoGroupOffset", co "BuildNormals")]) None;
  mkP CO "path_out" KScratchCleared [(co "DoGroupOffset", "call:clear")] off_calls None;
  mkP CO "solution" KWrittenBeforeRead [(co "Execute", "assign")] off_calls (Some [co "Execute"]);
  mkP CO "solution_tree" KWrittenBeforeRead [(co "Execute", "assign")] off_calls (Some [co "Execute"]);
  mkP CO "groups_" KInput [(co "Clear", "call:clear")] [] None;
  mkP CO "join_type_" KWrittenBeforeRead [(co "DoGroupOffset", "assign")] off_calls (Some [co "DoGroupOffset"]);
  mkP CO "end_type_" KWrittenBeforeRead [(co "DoGroupOffset", "assign")] off_calls (Some [co "DoGroupOffset"]);
  mkP CO "miter_limit_" KOption [] [] (Some [co "MiterLimit"]);
  mkP CO "arc_tolerance_" KOption [] [] (Some [co "ArcTolerance"]);
  mkP CO "preserve_collinear_" KOption [] [] (Some [co "PreserveCollinear"]);
  mkP CO "reverse_solution_" KOption [] [] (Some [co "ReverseSolution"]);
  (* Execute(cb, paths) installs the callback like SetDeltaCallback does: a documented option (DESIGN 6 C12) *)
  mkP CO "deltaCallback64_" KOption [] [] (Some [co "SetDeltaCallback"; co "Execute"]);
  mkP CO "zCallback64_" KOption [] [] (Some [co "SetZCallback"]);
  (* ---- RectClip64 (RectClipLines64 has no members of its own) ---- *)
  mkP RC "rect_" KConstant [] [] (Some []);
  mkP RC "rect_as_path_" KConstant [] [] (Some []);
  mkP RC "rect_mp_" KConstant [] [] (Some []);
  (* assigned (881) before the two tests that read it; RectClipLines64 uses a local instead *)
  mkP RC "path_bounds_" KWrittenBeforeRead [("RectClip64::Execute", "assign")] [] (Some ["RectClip64::Execute"]);
  mkP RC "op_container_" KScratchCleared [("RectClip64::Execute", "assign"); ("RectClipLines64::Execute", "assign")] [] None;
  mkP RC "results_" KScratchCleared [("RectClip64::Execute", "call:clear"); ("RectClipLines64::Execute", "call:clear")] [] None;
  mkP RC "edges_" KScratchCleared [("RectClip64::Execute", "range")] [] None;
  mkP RC "start_locs_" KScratchCleared [("RectClip64::Execute", "call:clear"); ("RectClipLines64::Execute", "call:clear")] [] None
].

Definition pair_eqb (a b : string * string) : bool := String.eqb (fst a) (fst b) && String.eqb (snd a) (snd b).
Definition pair_mem (a : string * string) (l : list (string * string)) : bool := existsb (pair_eqb a) l.
Definition str_mem (a : string) (l : list string) : bool := existsb (String.eqb a) l.

Definition find_policy (c n : string) : option policy :=
  find (fun p => String.eqb (p_class p) c && String.eqb (p_name p) n) policy_table.

(* a member passes when somebody classified it and the code still has the writes the classification rests on *)
Definition field_ok (f : field) : bool :=
  match find_policy (f_class f) (f_name f) with
  | None => false
  | Some p =>
      forallb (fun r => pair_mem r (f_writes f)) (p_requires p)
      && forallb (fun e => pair_mem e Gen_fields.calls) (p_calls p)
      && match p_only p with
         | None => true
         | Some l => forallb (fun w => str_mem (fst w) l) (f_writes f)
         end
  end.

(* the members that fail, for the check's diagnostics *)
Definition failing_fields : list (string * string) :=
  map (fun f => (f_class f, f_name f)) (filter (fun f => negb (field_ok f)) Gen_fields.table).
(* policy entries that no longer correspond to a member (informational: a renamed or removed member) *)
Definition stale_policies : list (string * string) :=
  map (fun p => (p_class p, p_name p))
      (filter (fun p => negb (existsb (fun f => String.eqb (f_class f) (p_class p) && String.eqb (f_name f) (p_name p))
                                      Gen_fields.table)) policy_table).

(* ------------------------------------------------------------------------------------------------------------ *)
(** * Executable instance used by the correspondence run (extracted): the "engine" just reports what it was given *)
Definition probe_result := (list Z * bool * opts)%type.
Definition probe_engine (sc : bool) (ms : list locmin) (ho : bool) (o : opts)
           (ct : clip_type) (fr : fill_rule) (k : exec_kind) : probe_result * bool :=
  ((map lm_id ms, ho, o), false (* leaves the scratch dirty *)).

Definition probe_run (h : list op) : list (cstate bool probe_result) :=
  (fix go (s : cstate bool probe_result) (h : list op) :=
     match h with
     | [] => []
     | o :: t => let s' := cstep bool true probe_result probe_engine s o in s' :: go s' t
     end) (c_init bool true probe_result) h.

Example ssort_stable_example :
  map lm_id (ssort lm_lt [mkLM 1 5 0 false false; mkLM 2 3 7 false false; mkLM 3 5 0 true false; mkLM 4 1 7 false false])
  = [4; 2; 1; 3]%Z.
Proof. reflexivity. Qed.
