(* Hand model of the leaf functions of CPP/Clipper2Lib/src/clipper.rectclip.cpp (and the few
   clipper.core.h helpers they use: Rect64 methods, GetBounds, CrossProduct (double),
   GetSegmentIntersectPt (non CLIPPER2_HI_PRECISION variant), IsCollinear).
   int64 values are unbounded Z (no overflow for |coords| <= 2^61); doubles are PrimFloat.
   Tied to the code by exact correspondence (harness/cx_rect.cpp commands LOC GSI GI ADJ ... ). *)
From Clip Require Import base.Geom base.FloatModel.
From Coq Require Import ZArith List Bool Lia Floats.
Local Open Scope Z_scope.

(* enum class Location { Left, Top, Right, Bottom, Inside } *)
Inductive location := Left | Top | Right | Bottom | Inside.

Definition loc_idx (l : location) : Z :=
  match l with Left => 0 | Top => 1 | Right => 2 | Bottom => 3 | Inside => 4 end.

(* static_cast<Location>(n) for n in 0..4 (anything else is mapped to Inside; never produced) *)
Definition loc_of_idx (z : Z) : location :=
  if z =? 0 then Left else if z =? 1 then Top else if z =? 2 then Right else if z =? 3 then Bottom else Inside.

Definition loc_eqb (a b : location) : bool := loc_idx a =? loc_idx b.

Definition all_locs : list location := [Left; Top; Right; Bottom; Inside].
Definition side_locs : list location := [Left; Top; Right; Bottom].

(* Rect64 {left, top, right, bottom} *)
Record rect := mkRect { r_left : Z; r_top : Z; r_right : Z; r_bottom : Z }.

Definition rect_is_empty (r : rect) : bool := (r_bottom r <=? r_top r) || (r_right r <=? r_left r).

(* Rect64::AsPath: [0]=(l,t) [1]=(r,t) [2]=(r,b) [3]=(l,b) *)
Definition rp0 (r : rect) : pt := (r_left r, r_top r).
Definition rp1 (r : rect) : pt := (r_right r, r_top r).
Definition rp2 (r : rect) : pt := (r_right r, r_bottom r).
Definition rp3 (r : rect) : pt := (r_left r, r_bottom r).
Definition rect_as_path (r : rect) : list pt := [rp0 r; rp1 r; rp2 r; rp3 r].

(* rect_as_path_[k], k = static_cast<size_t>(loc); k = 4 (Inside) would be out of bounds *)
Definition rect_corner (r : rect) (l : location) : option pt :=
  match l with Left => Some (rp0 r) | Top => Some (rp1 r) | Right => Some (rp2 r) | Bottom => Some (rp3 r) | Inside => None end.

(* Rect64::MidPoint: C++ integer division truncates toward zero *)
Definition rect_midpoint (r : rect) : pt :=
  (Z.quot (r_left r + r_right r) 2, Z.quot (r_top r + r_bottom r) 2).

(* Rect64::Contains(const Rect64&) : this = r, argument = b *)
Definition rect_contains_rect (r b : rect) : bool :=
  (r_left r <=? r_left b) && (r_right b <=? r_right r) && (r_top r <=? r_top b) && (r_bottom b <=? r_bottom r).

Definition rect_intersects (r b : rect) : bool :=
  (Z.max (r_left r) (r_left b) <=? Z.min (r_right r) (r_right b))
  && (Z.max (r_top r) (r_top b) <=? Z.min (r_bottom r) (r_bottom b)).

Definition i64_max : Z := 2 ^ 63 - 1.
Definition i64_lowest : Z := - 2 ^ 63.

(* GetBounds(const Path64&) *)
Definition get_bounds (p : list pt) : rect :=
  fold_left (fun b v =>
      mkRect (if px v <? r_left b then px v else r_left b)
             (if py v <? r_top b then py v else r_top b)
             (if px v >? r_right b then px v else r_right b)
             (if py v >? r_bottom b then py v else r_bottom b))
    p (mkRect i64_max i64_max i64_lowest i64_lowest).

(* GetLocation(rec, pt, loc): returns (result, loc) *)
Definition get_location (r : rect) (p : pt) : bool * location :=
  let x := px p in let y := py p in
  if (x =? r_left r) && (r_top r <=? y) && (y <=? r_bottom r) then (false, Left)
  else if (x =? r_right r) && (r_top r <=? y) && (y <=? r_bottom r) then (false, Right)
  else if (y =? r_top r) && (r_left r <=? x) && (x <=? r_right r) then (false, Top)
  else if (y =? r_bottom r) && (r_left r <=? x) && (x <=? r_right r) then (false, Bottom)
  else if x <? r_left r then (true, Left)
  else if x >? r_right r then (true, Right)
  else if y <? r_top r then (true, Top)
  else if y >? r_bottom r then (true, Bottom)
  else (true, Inside).

Definition is_horizontal (a b : pt) : bool := py a =? py b.

(* double CrossProduct(pt1, pt2, pt3) *)
Definition crossF (p1 p2 p3 : pt) : float :=
  (Z2F (px p2 - px p1) * Z2F (py p3 - py p2) - Z2F (py p2 - py p1) * Z2F (px p3 - px p2))%float.

Definition f0 : float := 0%float.
Definition f1 : float := 1%float.
Definition fgt0 (x : float) : bool := fltb f0 x.   (* x > 0 *)
Definition flt0 (x : float) : bool := fltb x f0.   (* x < 0 *)
Definition feq0 (x : float) : bool := feqb x f0.   (* x == 0 (also -0) *)

(* GetSegmentIntersectPt, the #else (not CLIPPER2_HI_PRECISION) variant; ip is the in/out parameter *)
Definition get_segment_intersect_pt (a1 b1 a2 b2 ip : pt) : bool * pt :=
  let dx1 := Z2F (px b1 - px a1) in
  let dy1 := Z2F (py b1 - py a1) in
  let dx2 := Z2F (px b2 - px a2) in
  let dy2 := Z2F (py b2 - py a2) in
  let det := (dy1 * dx2 - dy2 * dx1)%float in
  if feq0 det then (false, ip)
  else
    let t := ((Z2F (px a1 - px a2) * dy2 - Z2F (py a1 - py a2) * dx2) / det)%float in
    if fleb t f0 then (true, a1)
    else if fleb f1 t then (true, b1)
    else (true, (F2I64_trunc (Z2F (px a1) + t * dx1)%float, F2I64_trunc (Z2F (py a1) + t * dy1)%float)).

(* (q.c > s1.c) == (q.c < s2.c) with c = x for a horizontal s1s2, y otherwise; true at once when q is an end point *)
Definition strictly_between (q s1 s2 : pt) : bool :=
  if pt_eqb q s1 || pt_eqb q s2 then true
  else if is_horizontal s1 s2 then Bool.eqb (px q >? px s1) (px q <? px s2)
  else Bool.eqb (py q >? py s1) (py q <? py s2).

(* GetSegmentIntersection(p1,p2,p3,p4,ip): returns (result, ip) -- ip is written on some false returns too *)
Definition get_segment_intersection (p1 p2 p3 p4 ip : pt) : bool * pt :=
  let res1 := crossF p1 p3 p4 in
  let res2 := crossF p2 p3 p4 in
  if feq0 res1 then
    (if feq0 res2 then false else strictly_between p1 p3 p4, p1)
  else if feq0 res2 then (strictly_between p2 p3 p4, p2)
  else if Bool.eqb (fgt0 res1) (fgt0 res2) then (false, ip)
  else
    let res3 := crossF p3 p1 p2 in
    let res4 := crossF p4 p1 p2 in
    if feq0 res3 then (strictly_between p3 p1 p2, p3)
    else if feq0 res4 then (strictly_between p4 p1 p2, p4)
    else if Bool.eqb (fgt0 res3) (fgt0 res4) then (false, ip)
    else
      let '(ok, q) := get_segment_intersect_pt p1 p2 p3 p4 ip in
      if negb ok then (false, q)
      else (* p3-p4 is an axis-parallel edge of the rectangle: the computed (truncated) point is put onto it *)
        if px p3 =? px p4 then
          let lo := if py p3 <? py p4 then py p3 else py p4 in
          let hi := if py p3 <? py p4 then py p4 else py p3 in
          (true, (px p3, if py q <? lo then lo else if py q >? hi then hi else py q))
        else if py p3 =? py p4 then
          let lo := if px p3 <? px p4 then px p3 else px p4 in
          let hi := if px p3 <? px p4 then px p4 else px p3 in
          (true, (if px q <? lo then lo else if px q >? hi then hi else px q, py p3))
        else (true, q).

Section WithGsi.
  (* the structural theorems keep the segment intersection function abstract *)
  Variable gsi : pt -> pt -> pt -> pt -> pt -> bool * pt.

  (* one `GetSegmentIntersection(...)` alternative of GetIntersection, optionally guarded by `guard &&` *)
  Definition gi_try (guard : bool) (p p2 a b ip : pt) : bool * pt :=
    if guard then gsi p p2 a b ip else (false, ip).

  (* GetIntersection(rectPath, p, p2, loc, ip): returns (result, loc, ip) *)
  Definition get_intersection_g (r : rect) (p p2 : pt) (loc : location) (ip : pt) : bool * location * pt :=
    match loc with
    | Left =>
      let '(ok, ip) := gsi p p2 (rp0 r) (rp3 r) ip in if ok then (true, Left, ip) else
      let '(ok, ip) := gi_try (py p <? py (rp0 r)) p p2 (rp0 r) (rp1 r) ip in if ok then (true, Top, ip) else
      let '(ok, ip) := gsi p p2 (rp2 r) (rp3 r) ip in if ok then (true, Bottom, ip) else (false, Left, ip)
    | Top =>
      let '(ok, ip) := gsi p p2 (rp0 r) (rp1 r) ip in if ok then (true, Top, ip) else
      let '(ok, ip) := gi_try (px p <? px (rp0 r)) p p2 (rp0 r) (rp3 r) ip in if ok then (true, Left, ip) else
      let '(ok, ip) := gsi p p2 (rp1 r) (rp2 r) ip in if ok then (true, Right, ip) else (false, Top, ip)
    | Right =>
      let '(ok, ip) := gsi p p2 (rp1 r) (rp2 r) ip in if ok then (true, Right, ip) else
      let '(ok, ip) := gi_try (py p <? py (rp1 r)) p p2 (rp0 r) (rp1 r) ip in if ok then (true, Top, ip) else
      let '(ok, ip) := gsi p p2 (rp2 r) (rp3 r) ip in if ok then (true, Bottom, ip) else (false, Right, ip)
    | Bottom =>
      let '(ok, ip) := gsi p p2 (rp2 r) (rp3 r) ip in if ok then (true, Bottom, ip) else
      let '(ok, ip) := gi_try (px p <? px (rp3 r)) p p2 (rp0 r) (rp3 r) ip in if ok then (true, Left, ip) else
      let '(ok, ip) := gsi p p2 (rp1 r) (rp2 r) ip in if ok then (true, Right, ip) else (false, Bottom, ip)
    | Inside =>
      let '(ok, ip) := gsi p p2 (rp0 r) (rp3 r) ip in if ok then (true, Left, ip) else
      let '(ok, ip) := gsi p p2 (rp0 r) (rp1 r) ip in if ok then (true, Top, ip) else
      let '(ok, ip) := gsi p p2 (rp1 r) (rp2 r) ip in if ok then (true, Right, ip) else
      let '(ok, ip) := gsi p p2 (rp2 r) (rp3 r) ip in if ok then (true, Bottom, ip) else (false, Inside, ip)
    end.
End WithGsi.

Definition get_intersection := get_intersection_g get_segment_intersection.

(* GetAdjacentLocation(loc, isClockwise) = static_cast<Location>((int(loc) + (cw ? 1 : 3)) % 4) *)
Definition get_adjacent_location (l : location) (cw : bool) : location :=
  loc_of_idx (Z.rem (loc_idx l + (if cw then 1 else 3)) 4).

(* HeadingClockwise(prev, curr) = (int(prev) + 1) % 4 == int(curr) *)
Definition heading_clockwise (prev curr : location) : bool :=
  Z.rem (loc_idx prev + 1) 4 =? loc_idx curr.

(* AreOpposites(prev, curr) = abs(int(prev) - int(curr)) == 2 *)
Definition are_opposites (prev curr : location) : bool :=
  Z.abs (loc_idx prev - loc_idx curr) =? 2.

(* IsClockwise(prev, curr, prev_pt, curr_pt, rect_mp) *)
Definition is_clockwise (prev curr : location) (prev_pt curr_pt rect_mp : pt) : bool :=
  if are_opposites prev curr then flt0 (crossF prev_pt rect_mp curr_pt)
  else heading_clockwise prev curr.

(* GetEdgesForPt(pt, rec) : bit set 1=left 2=top 4=right 8=bottom *)
Definition get_edges_for_pt (p : pt) (r : rect) : Z :=
  (if px p =? r_left r then 1 else if px p =? r_right r then 4 else 0)
  + (if py p =? r_top r then 2 else if py p =? r_bottom r then 8 else 0).

(* IsHeadingClockwise(pt1, pt2, edgeIdx) *)
Definition is_heading_clockwise (p1 p2 : pt) (edge_idx : Z) : bool :=
  if edge_idx =? 0 then py p2 <? py p1
  else if edge_idx =? 1 then px p2 >? px p1
  else if edge_idx =? 2 then py p2 >? py p1
  else px p2 <? px p1.

Definition has_horz_overlap (left1 right1 left2 right2 : pt) : bool :=
  (px left1 <? px right2) && (px right1 >? px left2).

Definition has_vert_overlap (top1 bottom1 top2 bottom2 : pt) : bool :=
  (py top1 <? py bottom2) && (py bottom1 >? py top2).

(* IsCollinear(pt1, shared, pt2): a*b == c*d in 128 bit arithmetic, i.e. exact *)
Definition is_collinear (p1 sh p2 : pt) : bool :=
  (px sh - px p1) * (py p2 - py sh) =? (py sh - py p1) * (px p2 - px sh).

(* StartLocsAreClockwise(startlocs) *)
Fixpoint start_locs_sum (prev : location) (l : list location) : Z :=
  match l with
  | [] => 0
  | x :: t =>
    let d := loc_idx x - loc_idx prev in
    (if d =? -1 then -1 else if d =? 1 then 1 else if d =? -3 then 1 else if d =? 3 then -1 else 0)
    + start_locs_sum x t
  end.

Definition start_locs_are_clockwise (l : list location) : bool :=
  match l with [] => false | x :: t => 0 <? start_locs_sum x t end.

(* sanity *)
Example get_location_ex :
  get_location (mkRect 0 0 10 10) (0, 5) = (false, Left) /\ get_location (mkRect 0 0 10 10) (-1, 20) = (true, Left)
  /\ get_location (mkRect 0 0 10 10) (5, 5) = (true, Inside) /\ get_location (mkRect 0 0 10 10) (10, 0) = (false, Right).
Proof. repeat split. Qed.

Example gsi_ex : get_segment_intersection (-5, 3) (5, 7) (0, 0) (0, 10) (0, 0) = (true, (0, 5)).
Proof. vm_compute. reflexivity. Qed.

Example adj_ex : get_adjacent_location Left false = Bottom /\ get_adjacent_location Bottom true = Left
  /\ get_adjacent_location Inside true = Top.
Proof. repeat split. Qed.
