From Clip Require Import base.Geom model.Rings.
Require Import ExtrOcamlBasic.
Extraction Language OCaml.
Extraction "m.ml" init step run recs eo pts fe be OMin OAdd OMax OSwap.
