From Clip Require Import base.Geom base.Winding base.Region base.Dist base.GenPos model.OpenClipSpec.
From Coq Require Import QArith.
Require Import ExtrOcamlBasic.
Extraction Language OCaml.
Extraction "m.ml" open_spec spec_consistent spec_runs check_open general_position_open general_position_C05 judged_broad open_samples check_open_robust robust_at open_general gp_joint gp_open open_self_clear tol_C05 general_position
  wn_diff wn_paths far_from edges_closed edges_open ct_of_Z fr_of_Z open_in_result
  crossings cross_par proper_cross lerp wn_paths_at runs_of seg_verdict run_covered footprint foot_par
  sol_len kept_len total_cuts length_ok Qnum Qden.
