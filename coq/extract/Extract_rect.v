From Clip Require Import base.Geom base.FloatModel base.Dist base.Winding model.RectLeaf model.RectLines proofs.RectSpec.
Require Import ExtrOcamlBasic ExtrOCamlFloats ExtrOCamlInt63.
Extraction Language OCaml.
Extraction "m.ml" rect_clip_lines_paths rect_clip_lines_t rect_clip_lines_legacy_t rect_clip_lines lines_spec lines_inside_fx out_len_fx
  get_location get_segment_intersection get_segment_intersect_pt get_intersection get_adjacent_location
  heading_clockwise are_opposites is_clockwise get_edges_for_pt is_heading_clockwise has_horz_overlap
  has_vert_overlap is_collinear start_locs_are_clockwise get_bounds rect_is_empty rect_midpoint rect_contains_rect
  rect_intersects loc_idx loc_of_idx crossF
  wn wn_paths on_path area2 pt_eqb far_from near_some edges_closed edges_open.
