(* Extraction of the Minkowski model, the C19 specification/checker and the scaling model used for the PathD
   overloads (model/Scale.v, owned by C16) for bin/oracle_minkowski. *)
From Clip Require Import base.Geom base.FloatModel base.Winding base.Dist model.Minkowski model.Scale.
Require Import ExtrOcamlBasic ExtrOCamlFloats ExtrOCamlInt63.
Extraction Language OCaml.
Extraction "m.ml" minkowski areaF is_positive para_quads orient4 minkowski_ub_free
  check_minkowski check_mink mink_eval mink_fails mink_inside mink_bad in_some in_para scalek wn_some mink_xcheck
  scale_path descale_paths pow10_spec inv_of
  wn wn_paths area2 far_from edges_closed.
