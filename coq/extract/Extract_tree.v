(* Extraction of the C04 ownership model (model/Owner.v) and the exact PolyTree checker (model/TreeCheck.v). *)
From Clip Require Import base.Geom base.Winding model.Owner model.TreeCheck.
Require Import ExtrOcamlBasic.
Extraction Language OCaml.
Extraction "m.ml" apply_op run_ops get_real is_valid_owner set_owner move_splits check_split_owner build_tree preorder parent_of fuel_of
  tree_check fully_contains rot_eqb multiset_eqb strictly_inside inside_or_on area2 area2_paths wn on_path level_of is_hole_of_level.
