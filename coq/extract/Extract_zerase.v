From Clip Require Import base.Geom model.PathUtils model.ZErase.
Require Import ExtrOcamlBasic.
Extraction Language OCaml.
Extraction "m.ml" point_eqb3 set_z do_split_op_z trim_collinear_z strip_duplicates_z minkowski_z translate_path_z
  trim_collinear2 strip_duplicates2 minkowski2 erase mk3.
