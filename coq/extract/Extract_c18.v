(* C18 specification oracle: exact specifications only (model/CoreSpec.v, base/Winding.v, base/Geom.v).
   Deliberately independent of coq/gen and of the hand models, so that it still builds when a translated
   definition is missing (it is the search oracle after a proof or tie break). *)
From Clip Require Import base.Geom base.Winding model.CoreSpec.
Require Import ExtrOcamlBasic.
Extraction Language OCaml.
Extraction "m.ml" pip_spec pip_code area2 area2_paths area2_abs
  spec_multiply spec_products_equal spec_cross_sign spec_collinear
  isect_det isect_tnum isect_unum parallel properly_cross closed_cross isect_within in_seg_box isect_ok
  wn on_path all_y.
