(* Extraction of the C10 intersection-machinery model for oracle/drv_inversions.ml *)
From Clip Require Import model.Inversions.
Require Import ExtrOcamlBasic.
Extraction Language OCaml.
Extraction "m.ml" build_intersect_list process_intersect_list check_schedule sort_nodes keys_distinct ids node_ids
  inv_pairs adjacent swap_adj find_adj.
