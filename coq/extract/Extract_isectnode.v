(* AddNewIntersectNode model oracle (model/IsectNode.v over the translated leaves). *)
From Clip Require Import base.Geom base.FloatModel base.CSem gen.Gen_core gen.Gen_engine model.IsectNode.
Require Import ExtrOcamlBasic ExtrOCamlFloats ExtrOCamlInt63.
Extraction Language OCaml.
Extraction "m.ml" ani ani_kind.
