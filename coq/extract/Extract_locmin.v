From Clip Require Import base.Geom base.Winding base.Region base.Dist model.LocMin proofs.SpecAlgebra.
Require Import ExtrOcamlBasic.
Extraction Language OCaml.
Extraction "m.ml" add_path minima_list sorted_minima flags_code insert_dups rotl_n
  far_pts sol_in bad_xor bad_partition bad_map apply_pmap map_paths pmap_fr wn_paths fr_of_Z ct_of_Z.
