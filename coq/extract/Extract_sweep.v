From Clip Require Import base.Geom base.Region model.Sweep1D.
Require Import ExtrOcamlBasic.
Extraction Language OCaml.
Extraction "m.ml" set_wind_closed set_wind_open is_contributing_closed is_contributing_open intersect_edges
  prev_hot inv_b fresh step run ct_of_Z fr_of_Z mkE.
