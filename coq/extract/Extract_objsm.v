(* Extraction of the Clipper64 object state machine (model/ObjectSM.v) for the C12 correspondence run:
   oracle/drv_objsm.ml replays the histories the harness executed and prints the model's state after every op. *)
From Clip Require Import base.Region model.ObjectSM.
Require Import ExtrOcamlBasic.
Extraction Language OCaml.
Extraction "m.ml" probe_run op_minima ssort lm_lt ct_of_Z fr_of_Z c_minima c_sorted c_has_open c_opts c_succeeded
  c_scratch c_last lm_id lm_x lm_y lm_clip lm_open.
