From Clip Require Import base.Geom base.Winding base.Region base.Dist base.FloatModel.
From Clip Require Import model.OffsetPlan model.OffsetGeom proofs.OffsetSpec.
Require Import ExtrOcamlBasic ExtrOCamlFloats ExtrOCamlInt63.
Extraction Language OCaml.
Extraction "m.ml" wn_paths on_paths area2 area2_paths min_dist2 far_from near_some edges_closed edges_open
  c06_class c06_identity_class c07_class Z_of_verdict inR sd_le sd_ge
  jt_of_Z et_of_Z Z_of_jt Z_of_et mk_group group_paths plan plan_from init_state execute_plan end_of own_delta
  g_lens g_has_lowest g_reversed pe_group pe_path pe_len pe_delta pe_join pe_end pe_action pe_steps_for pe_mdelta
  raw_group build_normals step_consts temp_lim select_join unit_normal F2Z_ceil round_pt Z2F F2I64_round
  lowest_path_idx fop open_path_accesses polygon_accesses open_joined_accesses in_bounds.
