(* Extraction of the C10 AddPaths_ Vertex-array model for oracle/drv_vertexalloc.ml *)
From Clip Require Import model.VertexAlloc.
Require Import ExtrOcamlBasic.
Extraction Language OCaml.
Extraction "m.ml" add_paths_alloc total_count.
