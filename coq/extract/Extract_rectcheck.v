From Clip Require Import base.Geom base.Winding base.Region model.RectCheck.
Require Import ExtrOcamlBasic.
Extraction Language OCaml.
Extraction "m.ml" rect_check rect_check_prep prep xs_of ys_of vertices_on_grid vertex_on_grid vertices
  rectilinear_allb edge_axis_parallel cyc_edges cells_ok bad_cells area_ok selected_area2_prep selected
  structural_code area2_paths wn_paths dbl scale_paths translate_paths spec_closed ct_of_Z fr_of_Z.
