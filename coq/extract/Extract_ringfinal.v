(* Extraction of the C03 ring finalisation model (bit-exact leaves) and the exact well-formedness checkers. *)
From Clip Require Import base.Geom base.FloatModel base.Winding base.Dist model.RingFinal model.WfGeom.
Require Import ExtrOcamlBasic ExtrOCamlFloats ExtrOCamlInt63.
Extraction Language OCaml.
Extraction "m.ml" build_paths build_paths_F finalize_F default_fuel seg_isect_F isect_pt_F area_ring_F area_tri_F dot_neg_F crossF dotF
  no_cyc_dup struct_check bbox_check wf_geom_check contains_eo nesting area2 pt_eqb cross dot wn on_path.
