From Clip Require Import base.Geom base.Winding base.Region base.Dist base.GenPos model.RegionCheck.
Require Import ExtrOcamlBasic.
Extraction Language OCaml.
Extraction "m.ml" wn wn_paths on_path on_paths area2 area2_paths spec_closed in_result open_in_result
  ct_of_Z fr_of_Z far_from near_some edges_closed edges_open min_dist2 dist2_pt_seg bbox_of cross dot pt_eqb general_position prep check_prep expected.
