From Clip Require Import base.Geom base.FloatModel base.CSem base.Dist base.Winding gen.Gen_core gen.Gen_rect
  model.RectLeaf model.RectLines model.RectClip model.RectClipCheck.
Require Import ExtrOcamlBasic ExtrOCamlFloats ExtrOCamlInt63.
Extraction Language OCaml.
Extraction "m.ml" rect_clip_t rect_clip rect_clip_paths rect_clip_snapped_t clip_stages clip_internal shortcut_of point_in_polygon path1_contains_path2
  GetLocation GetSegmentIntersection GetIntersection GetAdjacentLocation HeadingClockwise AreOpposites IsClockwise IsCollinear
  R64 RPath get_edges_for_pt is_heading_clockwise has_horz_overlap has_vert_overlap start_locs_are_clockwise get_bounds
  rect_is_empty rect_midpoint rect_contains_rect rect_intersects loc_idx loc_of_idx
  rect_as_path chk verdict_ok simpleb classify wn wn_paths area2 pt_eqb.
