(* C18 model oracle: the hand models of PointInPolygon / Area (model/Pip.v, which calls the translated
   CrossProduct) and the translated GetSegmentIntersectPt variants (gen/Gen_core.v). *)
From Clip Require Import base.Geom base.FloatModel base.CSem gen.Gen_core model.CoreSpec model.Pip.
Require Import ExtrOcamlBasic ExtrOCamlFloats ExtrOCamlInt63.
Extraction Language OCaml.
Extraction "m.ml" PointInPolygon pip_code Area AreaPaths GetSegmentIntersectPt_lo GetSegmentIntersectPt_hi CrossProduct.
