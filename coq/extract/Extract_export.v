From Clip Require Import model.Export gen.Gen_export.
Require Import ExtrOcamlBasic.
Extraction Language OCaml.
Extraction "m.ml" enc_paths enc_paths_raw enc_paths_buf enc_paths_d dec_paths dec_paths_opt enc_path dec_path
  enc_tree enc_tree_buf dec_tree dec_tree_opt node_len
  ofc_i64 toc_i64 ofc_f64 toc_f64
  fwd_failures fwd_ok run_prologue codes_ok_at invalid_args null_input table table_z
  f_name f_ret f_params f_prologue f_calls pe_int.
