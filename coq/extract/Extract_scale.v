(* Extraction of the scaling model (Scale.v) and the error/wrapper model (ErrorModel.v) for bin/oracle_scale. *)
From Clip Require Import base.Geom.
From Clip Require Import base.FloatModel.
From Clip Require Import model.Scale.
From Clip Require Import model.ErrorModel.
Require Import ExtrOcamlBasic ExtrOCamlFloats ExtrOCamlInt63.
Extraction Language OCaml.
Extraction "m.ml"
  Z2F F_decode F2Z_round in_i64
  round_cast scale_coord scale_pt scale_path scale_paths_raw descale_coord descale_path descale_paths scale_rect
  bounds_of range_ok pow10_spec pow2f ilogb_model scaleD_model scaleD_spec log2_above_pow10 inv_of spec_scale
  in_domain_C16 in_coord_range range_guard_check has_nan prod_within is_finite MAX_COORD max_coord min_coord
  check_precision_range scale_path_E descale_path_E scale_paths_E descale_paths_E make_path to_outcome
  clipperD_ctor clipperD_run booleanopD union1D inflateD rectclipD minkowskiD trimcollinearD polypathD_child
  export_booleanop64_pre export_booleanopD_pre export_inflateD_pre export_rectD_pre
  export_booleanopD export_inflateD export_rectD rect_is_empty execute spec_call.
