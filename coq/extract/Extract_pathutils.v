(* Extraction of the C20 path-utility models and specification predicates for oracle/drv_pathutils.ml *)
From Clip Require Import base.Geom base.FloatModel model.PathUtils.
Require Import ExtrOcamlBasic ExtrOCamlFloats ExtrOCamlInt63.
Extraction Language OCaml.

Definition fadd (a b : float) : float := (a + b)%float.
Definition fsub (a b : float) : float := (a - b)%float.
Definition fmul (a b : float) : float := (a * b)%float.
Definition fdiv (a b : float) : float := (a / b)%float.
Definition fsqrt (a : float) : float := PrimFloat.sqrt a.
(* classifier only: epsilon^2 reaches MAX_DBL, the pseudo distance SimplifyPath gives the ends of an open path *)
Definition eps_sqr_ge_max (eps : float) : bool := negb (fsqr eps <? MAX_DBL)%float.

Extraction "m.ml" trim_collinear simplify_path rdp_path rdp_path_flags strip_duplicates strip_near_equal
  get_bounds translate_path translate_ub_free path_length ellipse_i ellipse_d ellipse_params ellipse_angle
  perp_d2 is_collinear sublistb path_eqb keeps_ends no_cyc_dup no_reversal no_cyc_collinear corners_or_empty
  simplify_fixed_f rdp_bad_f  area2 Z2F fsqr fadd fsub fmul fdiv fsqrt pt_eqb near_equal std_unique
  no_lin_dup no_lin_reversal no_lin_collinear bbox_of collect cross eps_sqr_ge_max
  strip_near_equal_d near_equal_d strip_near_equal_paths strip_near_equal_paths_d strip_duplicates_paths
  ptd_eqb perp_d2_d simplify_path_d rdp_path_d rdp_path_flags_d strip_duplicates_d translate_path_d transform_path_di
  transform_path_id trim_collinear_d simplify_paths simplify_paths_d rdp_paths rdp_paths_d strip_duplicates_paths_d
  ellipse_rect_i ellipse_rect_radii_i ellipse_rect_d ellipse_rect_radii_d simplify_fixed_d rdp_bad_d.
