(* C16 -- property theorems (placeholder while the proofs are being written). *)
From Clip Require Import base.Geom base.FloatModel model.Scale model.ErrorModel.
Local Open Scope Z_scope.

Theorem C16_scale_examples : scaleD_spec 2 = 128%float /\ pow10_spec 2 = 100%float.
Proof. split; reflexivity. Qed.
Print Assumptions C16_scale_examples.
