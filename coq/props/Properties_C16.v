(* C16 -- the floating-point API is the integer API on scaled coordinates.
   Models: model/Scale.v (bit-exact binary64 scaling arithmetic, scale selection), model/ErrorModel.v (PathsD wrappers).
   Notation: R_of x = B2R (Prim2B x) is the real number a finite double denotes (Flocq); rnd_A = Flocq's ZnearestA,
   the nearest integer with ties away from zero (std::round); pow10_spec p = the correctly rounded double 10^p;
   scaleD_spec p = the double 2^k with k = log2_above_pow10 p. *)
From Coq Require Import ZArith Reals Floats QArith List.
From Flocq Require Import Core.Core IEEE754.BinarySingleNaN IEEE754.PrimFloat.
From Clip Require Import base.Geom.
From Clip Require Import base.FloatModel.
From Clip Require Import model.Scale.
From Clip Require Import model.ErrorModel.
From Clip Require Import proofs.ScaleProofs.
From Clip Require Import proofs.ScaleFloat.
From Clip Require Import proofs.ErrorModelProofs.
Import ListNotations.
Local Open Scope Z_scope.

(* The decimal powers the scale selection starts from are the correctly rounded ones (exact comparison in Q):
   a normal double m*2^e with |m*2^e - 10^p| <= 2^e/2; this is what the run-time check compares libm's pow(10,p) with. *)
Theorem C16_pow10_correctly_rounded : forall p, - 8 <= p <= 8 -> correctly_rounded_pow10 p = true.
Proof. exact pow10_spec_correctly_rounded. Qed.
Print Assumptions C16_pow10_correctly_rounded.

(* ClipperD's scale 2^(ilogb(10^p)+1) is the smallest power of two strictly above 10^p, its reciprocal is exact *)
Theorem C16_clipperD_scale : forall p, - 8 <= p <= 8 ->
  let k := log2_above_pow10 p in
  scaleD_model pow10_spec p = scaleD_spec p /\
  F_decode (scaleD_spec p) = Some (false, 2 ^ 52, k - 52) /\
  (Qpower 2 (k - 1) <= Qpower 10 p)%Q /\ (Qpower 10 p < Qpower 2 k)%Q /\
  inv_of (scaleD_spec p) = pow2f (- k).
Proof.
  intros p H k. split; [exact (scaleD_model_spec p H)|]. split.
  - unfold scaleD_spec. apply pow2f_decode. pose proof (log2_above_range p H). unfold k. lia.
  - destruct (is_log2_above_Q p k (log2_above_pow10_spec p H)) as [A B]. split; [exact A|]. split; [exact B|].
    exact (invD_exact p H).
Qed.
Print Assumptions C16_clipperD_scale.

(* power-of-two scale: the product is exact, so the integer is the *real* product rounded half away from zero *)
Theorem C16_pow2_scale_exact : forall p x s m e,
  - 8 <= p <= 8 -> F_decode x = Some (s, m, e) ->
  let k := log2_above_pow10 p in
  - 1074 <= e + k ->                                              (* the product does not underflow *)
  (Rabs (R_of x * bpow radix2 k) <= bpow radix2 52)%R ->          (* the property's domain *)
  scaleD_spec p = pow2f k /\
  R_of (x * scaleD_spec p) = (R_of x * bpow radix2 k)%R /\
  scale_coord (scaleD_spec p) x = Some (rnd_A (R_of x * bpow radix2 k)).
Proof. exact clipperD_scale_exact. Qed.
Print Assumptions C16_pow2_scale_exact.

(* ... and descaling a result coordinate |z| < 2^53 by the reciprocal is exact: z * 2^-k *)
Theorem C16_pow2_descale_exact : forall p z,
  - 8 <= p <= 8 -> Z.abs z < 2 ^ 53 ->
  let k := log2_above_pow10 p in
  BinarySingleNaN.is_finite (Prim2B (descale_coord (inv_of (scaleD_spec p)) z)) = true /\
  R_of (descale_coord (inv_of (scaleD_spec p)) z) = (IZR z * bpow radix2 (- k))%R.
Proof. exact clipperD_descale_exact. Qed.
Print Assumptions C16_pow2_descale_exact.

(* any scale (10^p for the free functions): "rounded to nearest" is the rounding half away from zero of the *double*
   product x*s -- the double rounding is explicit; scale_coord is what Point<int64_t>(x*s, ...) computes *)
Theorem C16_dec_scale : forall s x z, scale_coord s x = Some z -> z = rnd_A (R_of (x * s)).
Proof. exact scale_any_nearest. Qed.
Print Assumptions C16_dec_scale.

(* range guard, coordinate-wise: a scaled double inside [min_coord, max_coord] converts without undefined behaviour.
   _partial: the step from ScalePaths' test of the min/max bounds to every single coordinate (monotonicity of the rounded
   product, NaN-free input) is not proved; the oracle evaluates it on every case (GUARD flag). *)
Theorem C16_range_guard_partial : forall s x,
  fleb min_coord (x * s) = true -> fleb (x * s) max_coord = true ->
  exists z, scale_coord s x = Some z /\ - 2 ^ 61 <= z <= 2 ^ 61.
Proof. exact range_guard_coord. Qed.
Print Assumptions C16_range_guard_partial.

(* without the NaN-free hypothesis the guard is false of the faithful model: NaN passes the bounds test *)
Theorem C16_range_guard_nan_refuted :
  exists ps, range_ok 100 100 ps = true /\ scale_paths_raw 100 100 ps = None.
Proof. exists [[(nan, 0%float)]]. exact range_guard_nan_witness. Qed.
Print Assumptions C16_range_guard_nan_refuted.

(* a defined conversion never leaves int64 *)
Theorem C16_scale_path_ub_free : forall sx sy p q,
  scale_path sx sy p = Some q -> forall v, In v q -> in_i64 (fst v) = true /\ in_i64 (snd v) = true.
Proof. exact scale_path_ub_free. Qed.
Print Assumptions C16_scale_path_ub_free.

(* API shape: on valid arguments every PathsD wrapper is  descale o entry64 o scale  with the documented scale, and
   delta / arc_tolerance multiplied by the same factor ([spec_call] is that call; [value_of_spec] wraps it).
   [pow10] is libm's pow(10,.), assumed (and checked at run time) to be the correctly rounded table.
   [all_range_ok s ps] = ScalePaths' test of the common bounds and ScalePath's test of each path against +-MAX_COORD,
   [rect_range_ok] the same for the rectangle; both hold throughout the property's domain (+-2^52).
   InflatePaths has no exception for delta = 0. *)
Theorem C16_api_shape : forall exc pow10,
  (forall p, - 8 <= p <= 8 -> pow10 p = pow10_spec p) ->
  forall p, - 8 <= p <= 8 ->
  let sD := scaleD_spec p in let s10 := pow10_spec p in
  (forall S O C, all_range_ok sD S = true -> all_range_ok sD O = true -> all_range_ok sD C = true ->
     clipperD_run exc pow10 p true true true S O C = Val (0, value_of_spec (spec_call KPow2 p [S; O; C] None []))) /\
  (forall S C, all_range_ok sD S = true -> all_range_ok sD C = true ->
     booleanopD exc pow10 p S C = Val (0, value_of_spec (spec_call KPow2 p [S; []; C] None []))) /\
  (forall S, all_range_ok sD S = true ->
     union1D exc pow10 p S = Val (0, value_of_spec (spec_call KPow2 p [S; []; []] None []))) /\
  (forall ps delta arc, all_range_ok s10 ps = true ->
     inflateD exc pow10 p ps delta arc = Val (0, value_of_spec (spec_call KDec p [ps] None [delta; arc]))) /\
  (forall r ps, rect_is_empty r = false -> ps <> [] -> all_range_ok s10 ps = true -> rect_range_ok s10 r = true ->
     scale_rect s10 r <> None ->
     rectclipD exc pow10 p r ps = Val (0, value_of_spec (spec_call KDec p [ps] (Some r) []))) /\
  (forall pth, range_ok s10 s10 [pth] = true ->
     trimcollinearD exc pow10 p pth = Val (0, value_of_spec (spec_call KDec p [[pth]] None []))) /\
  (forall pat pth, range_ok s10 s10 [pat] = true -> range_ok s10 s10 [pth] = true ->
     minkowskiD exc pow10 p pat pth = Val (0, value_of_spec (spec_call KDec p [[pat]; [pth]] None []))).
Proof.
  intros exc pow10 Hpow p Hp sD s10. repeat split.
  - intros S O C. exact (clipperD_shape exc pow10 Hpow p S O C Hp).
  - intros S C. exact (booleanopD_shape exc pow10 Hpow p S C Hp).
  - intros S. exact (union1D_shape exc pow10 Hpow p S Hp).
  - intros ps delta arc. exact (inflateD_shape exc pow10 Hpow p ps delta arc Hp).
  - intros r ps Hr Hne. exact (rectclipD_shape exc pow10 Hpow p r ps Hp Hr Hne).
  - intros pth. exact (trimcollinearD_shape exc pow10 Hpow p pth Hp).
  - intros pat pth. exact (minkowskiD_shape exc pow10 Hpow p pat pth Hp).
Qed.
Print Assumptions C16_api_shape.

(* the hypotheses of C16_api_shape are satisfiable *)
Theorem C16_api_shape_sat :
  all_range_ok (scaleD_spec 2) [sq] = true /\ all_range_ok (pow10_spec 2) [sq] = true /\
  range_ok (pow10_spec 2) (pow10_spec 2) [sq] = true /\ range_ok (pow10_spec 2) (pow10_spec 2) [tri] = true /\
  rect_is_empty (0%float, 0%float, 5%float, 5%float) = false /\
  rect_range_ok (pow10_spec 2) (0%float, 0%float, 5%float, 5%float) = true /\
  scale_rect (pow10_spec 2) (0%float, 0%float, 5%float, 5%float) <> None.
Proof. exact shape_hyps_sat. Qed.
Print Assumptions C16_api_shape_sat.

(* The wrapper model (ErrorModel.v) follows the repaired code (triage/C16-inflateD-delta0.patch and the C11 patches).
   On a tree without C16-inflateD-delta0.patch InflatePaths(PathsD) with delta = 0 returns its input unrounded before any
   scaling (`if (!delta) return paths;`), which is not descale o entry64 o scale: the differential reports that as
   inflateD.delta0-returns-unrounded-input with the failing input. *)
