(* Property C20: path utilities keep their contracts.
   Statements only; the proofs are in coq/proofs/PathUtils*.v, the models in coq/model/PathUtils.v.
   The models mirror clipper.h with the four C20 repairs (triage/C20-*.patch): RDP keeps the vertex the shrunk `end`
   stops at and no longer un-keeps the last vertex; SimplifyPath handles 3-point paths and clamps epsilon^2 below
   MAX_DBL; TrimCollinear returns an open 2-point path as it is.  The inputs that refuted the clauses before the
   repairs are kept as corpus cases (corpus/C20/boundary.case) and as Examples in proofs/PathUtilsInst.v.
   _partial : proves part of the property's clause (the comment says what is missing). *)
From Coq Require Import ZArith List Bool Floats Reals.
From Clip Require Import base.Geom base.FloatModel model.PathUtils.
From Clip Require Import proofs.PathUtilsBase proofs.PathUtilsFloat proofs.PathUtilsTrim proofs.PathUtilsFlags
  proofs.PathUtilsSimplify proofs.PathUtilsRdp proofs.PathUtilsMisc proofs.PathUtilsEllipse proofs.PathUtilsNoNan
  proofs.PathUtilsNearGen proofs.PathUtilsInst.
Import ListNotations.

(* ---------------------------------------------------------------- TrimCollinear *)
(* never out of bounds / out of fuel, and the result is a subsequence of the input (open and closed) *)
Theorem C20_trim_subseq : forall p is_open, exists r, trim_collinear p is_open = Ok r /\ sublist r p.
Proof. exact trim_total_subseq. Qed.
Print Assumptions C20_trim_subseq.

(* open paths keep both end points (a single point is not a path: TrimCollinear returns the empty path for it) *)
Theorem C20_trim_open_keeps_ends : forall p,
  (2 <= length p)%nat ->
  exists r, trim_collinear p true = Ok r /\ keeps_ends r p = true.
Proof. exact trim_open_keeps_ends. Qed.
Print Assumptions C20_trim_open_keeps_ends.

(* the signed area of a closed path is preserved exactly, for every input *)
Theorem C20_trim_area : forall p, exists r, trim_collinear p false = Ok r /\ area2 r = area2 p.
Proof. exact trim_area. Qed.
Print Assumptions C20_trim_area.

(* ---------------------------------------------------------------- SimplifyPath *)
Theorem C20_simplify_subseq : forall p eps closed r, simplify_path p eps closed = Ok r -> sublist r p.
Proof. exact simplify_path_subseq. Qed.
Print Assumptions C20_simplify_subseq.

(* no out-of-bounds access to flags[]/distSqr[]/path[], GetNext/GetPrior always find an unflagged index, at most
   len iterations: for every path, every epsilon (NaN included) and open/closed *)
Theorem C20_simplify_safe : forall p eps closed, exists r, simplify_path p eps closed = Ok r.
Proof. exact simplify_path_safe. Qed.
Print Assumptions C20_simplify_safe.

(* the same for any distance type, distance function and comparison (no floating point involved) *)
Theorem C20_simplify_safe_generic : forall D d2 ltD dmax dzero p (e : D) closed,
  exists r, simplify_gen pt D d2 ltD dmax dzero p e closed = Ok r.
Proof. exact simplify_safe. Qed.
Print Assumptions C20_simplify_safe_generic.

(* open paths keep both end points, for every epsilon other than NaN (0 <= epsilon^2; +inf included) *)
Theorem C20_simplify_open_keeps_ends : forall p eps,
  (2 <= length p)%nat -> (0 <=? fsqr eps)%float = true ->
  exists r, simplify_path p eps false = Ok r /\ keeps_ends r p = true.
Proof. exact simplify_path_open_keeps_ends. Qed.
Print Assumptions C20_simplify_open_keeps_ends.

(* the tolerance the loop works with is epsilon^2 unless that exceeds MAX_DBL / 2 (epsilon > 9.4e153) *)
Theorem C20_simplify_eps_clamp : forall eps,
  ((HALF_MAX_DBL <? fsqr eps)%float = false -> simp_eps_sqr eps = fsqr eps) /\
  ((0 <=? fsqr eps)%float = true -> (simp_eps_sqr eps <? MAX_DBL)%float = true).
Proof. exact (fun eps => conj (simp_eps_sqr_id eps) (simp_eps_sqr_lt_max eps)). Qed.
Print Assumptions C20_simplify_eps_clamp.

(* ---------------------------------------------------------------- RamerDouglasPeucker *)
Theorem C20_rdp_subseq : forall p eps r, rdp_path p eps = Ok r -> sublist r p.
Proof. exact rdp_path_subseq. Qed.
Print Assumptions C20_rdp_subseq.

(* no out-of-bounds access, recursion depth <= len, for epsilon^2 >= 0 (i.e. epsilon not NaN) *)
Theorem C20_rdp_safe : forall p eps, (0 <=? fsqr eps)%float = true -> exists r, rdp_path p eps = Ok r.
Proof. exact rdp_path_safe. Qed.
Print Assumptions C20_rdp_safe.

(* the first and the last vertex are kept, for every path (first == last and all-equal paths included) *)
Theorem C20_rdp_keeps_ends : forall p eps, (0 <=? fsqr eps)%float = true ->
  exists r, rdp_path p eps = Ok r /\ keeps_ends r p = true.
Proof. exact rdp_path_keeps_ends. Qed.
Print Assumptions C20_rdp_keeps_ends.

(* every removed vertex has a kept vertex before and after it and is within epsilon of the line through the nearest
   ones ([rdp_bad_f] lists the removed vertices for which that fails) -- distance and comparison as the code computes
   them: PerpendicDistFromLineSqrd <= epsilon^2 in binary64.  Hypothesis: no NaN distance between vertices of the path
   (the model's coordinates are unbounded integers; see C20_rdp_bound_i64 for int64 coordinates). *)
Theorem C20_rdp_bound : forall p eps fl, (0 <=? fsqr eps)%float = true ->
  (forall a b c, In a p -> In b p -> In c p -> not_nan (perp_d2 a b c) = true) ->
  rdp_path_flags p eps = Ok fl -> rdp_bad_f p fl eps = [].
Proof. exact rdp_path_bound. Qed.
Print Assumptions C20_rdp_bound.

(* ... discharged for every path with int64 coordinates, i.e. every path the real code can be given *)
Theorem C20_rdp_bound_i64 : forall p eps fl, (0 <=? fsqr eps)%float = true ->
  (forall q, In q p -> in_i64 (px q) = true /\ in_i64 (py q) = true) ->
  rdp_path_flags p eps = Ok fl -> rdp_bad_f p fl eps = [].
Proof. exact rdp_path_bound_i64. Qed.
Print Assumptions C20_rdp_bound_i64.

(* PerpendicDistFromLineSqrd of int64 points is never NaN (no overflow: the intermediate values stay below 2^259) *)
Theorem C20_perp_dist_not_nan : forall p l1 l2 : pt,
  (Z.abs (px p - px l1) <= 2 ^ 64)%Z -> (Z.abs (py p - py l1) <= 2 ^ 64)%Z ->
  (Z.abs (px l2 - px l1) <= 2 ^ 64)%Z -> (Z.abs (py l2 - py l1) <= 2 ^ 64)%Z ->
  not_nan (perp_d2 p l1 l2) = true.
Proof. exact perp_d2_not_nan. Qed.
Print Assumptions C20_perp_dist_not_nan.

(* the same for any distance type: a total preorder on the non-NaN values is all the argument needs *)
Theorem C20_rdp_bound_generic : forall D d2 leD (dzero : D) p eps,
  leD dzero eps = true -> leD dzero dzero = true ->
  (forall a b c, leD a b = true -> leD b c = true -> leD a c = true) ->
  (forall a b, leD a a = true -> leD b b = true -> leD a b = false -> leD b a = true) ->
  (forall a b c, In a p -> In b p -> In c p -> leD (d2 a b c) (d2 a b c) = true) ->
  (forall x a, In x p -> In a p -> leD (d2 x a x) eps = true) ->
  forall fl, (5 <= length p)%nat -> rdp_flags pt pt_eqb D d2 leD dzero p eps = Ok fl -> rdp_bad pt D d2 leD p fl eps = [].
Proof. exact rdp_bound_gen. Qed.
Print Assumptions C20_rdp_bound_generic.

(* ---------------------------------------------------------------- defining equations *)
(* StripDuplicates: std::unique (identity on duplicate-free lists, collapses a repeated neighbour) + closing pops *)
Theorem C20_strip_dups_unique : forall p,
  no_adj eq (std_unique p) /\ sublist (std_unique p) p /\ (no_adj eq p -> std_unique p = p) /\
  (forall l1 a l2, std_unique (l1 ++ a :: a :: l2) = std_unique (l1 ++ a :: l2)).
Proof.
  exact (fun p => conj (std_unique_no_adj p) (conj (std_unique_sublist p)
           (conj (std_unique_id p) (fun l1 a l2 => std_unique_collapse l1 a l2)))).
Qed.
Print Assumptions C20_strip_dups_unique.

Theorem C20_strip_dups : forall p closed,
  exists r, strip_duplicates p closed = Ok r /\
    sublist r p /\ no_adj eq r /\ (forall x, In x p <-> In x r) /\ hd_pt r = hd_pt p /\
    (closed = false -> r = std_unique p) /\
    (closed = true -> (1 < length r)%nat -> last r (0, 0)%Z <> hd (0, 0)%Z r).
Proof. exact strip_duplicates_spec. Qed.
Print Assumptions C20_strip_dups.

(* StripNearEqual: consecutive kept points are not NearEqual, dropped points are near a kept/earlier point,
   closed: the last kept point is not near the first *)
Theorem C20_strip_near : forall maxd p closed,
  exists r, strip_near_equal p maxd closed = Ok r /\
    sublist r p /\ no_adj (fun x y => near maxd y x) r /\ hd_pt r = hd_pt p /\
    (closed = false -> forall x, In x p -> In x r \/ exists k, In k p /\ near maxd x k) /\
    (closed = true -> (1 < length r)%nat -> ~ near maxd (last r (0, 0)%Z) (hd (0, 0)%Z r)).
Proof. exact strip_near_equal_spec. Qed.
Print Assumptions C20_strip_near.

(* StripNearEqual<T> for any point type T and NearEqual function (Path64, PathD, ...): the closed clean-up pops EVERY
   trailing point that is near the first one -- the result is the prefix [firstn k] of the forward pass such that all
   dropped points (index >= k) are near the first point and the last kept one is not (or only the first point is left) *)
Theorem C20_strip_near_generic : forall (P : Type) (nearb : P -> P -> bool) p closed (d : P),
  exists r, strip_near_equal_g P nearb p closed = Ok r /\
    sublist r p /\ no_adj_g P (fun x y => nearb y x = true) r /\ hd_error r = hd_error p /\
    (closed = false -> forall x, In x p -> In x r \/ exists k, In k p /\ nearb x k = true) /\
    (closed = true -> (1 < length r)%nat -> nearb (last r d) (hd d r) = false) /\
    (closed = true -> forall first t, p = first :: t ->
       let r0 := first :: strip_near_from_g P nearb first t in
       exists k, r = firstn k r0 /\ (1 <= k <= length r0)%nat /\
                 forall j, (k <= j < length r0)%nat -> nearb (nth j r0 d) first = true).
Proof. exact strip_near_equal_g_spec. Qed.
Print Assumptions C20_strip_near_generic.

(* the int64 model used by C20_strip_near is the generic one with NearEqual<int64_t>; the PathD model is the generic one
   with NearEqual<double> by definition (strip_near_equal_d) *)
Theorem C20_strip_near_is_generic : forall p maxd closed,
  strip_near_equal p maxd closed = strip_near_equal_g pt (fun x y => near_equal x y maxd) p closed.
Proof. exact strip_near_equal_is_g. Qed.
Print Assumptions C20_strip_near_is_generic.

(* Paths overloads (StripNearEqual, StripDuplicates): one result per input path, each the single-path result *)
Theorem C20_strip_paths : forall (A B : Type) (f : A -> res B) l r, map_res f l = Ok r ->
  length r = length l /\ forall i x, nth_error l i = Some x -> exists y, nth_error r i = Some y /\ f x = Ok y.
Proof. exact (@map_res_Ok). Qed.
Print Assumptions C20_strip_paths.

(* ---- the PathD (Point<double>) instantiations: StripNearEqual<double> is C20_strip_near_generic at NearEqual<double> *)
Theorem C20_strip_near_d : forall p maxd closed d,
  exists r, strip_near_equal_d p maxd closed = Ok r /\
    sublist r p /\ no_adj_g ptd (fun x y => near_equal_d y x maxd = true) r /\ hd_error r = hd_error p /\
    (closed = true -> (1 < length r)%nat -> near_equal_d (last r d) (hd d r) maxd = false).
Proof.
  exact (fun p maxd closed d =>
    match strip_near_equal_g_spec ptd (fun a b => near_equal_d a b maxd) p closed d with
    | ex_intro _ r (conj H1 (conj H2 (conj H3 (conj H4 (conj _ (conj H6 _)))))) =>
        ex_intro _ r (conj H1 (conj H2 (conj H3 (conj H4 H6))))
    end).
Qed.
Print Assumptions C20_strip_near_d.

Theorem C20_translate_d : forall p dx dy,
  length (translate_path_d p dx dy) = length p /\
  forall i, nth_error (translate_path_d p dx dy) i = option_map (fun q => (fst q + dx, snd q + dy)%float) (nth_error p i).
Proof. exact translate_path_d_spec. Qed.
Print Assumptions C20_translate_d.

(* TrimCollinear(PathD, precision, open) = descale (TrimCollinear(Path64) (round (path * scale))), scale = 10^precision *)
Theorem C20_trim_d : forall p scale o,
  let p64 := map (fun q => (F2I64_round (fst q * scale), F2I64_round (snd q * scale))%float) p in
  exists r64, trim_collinear p64 o = Ok r64 /\ sublist r64 p64 /\
    trim_collinear_d p scale o = Ok (map (fun q => (Z2Ff (px q) * (1 / scale), Z2Ff (py q) * (1 / scale))%float) r64).
Proof.
  exact (fun p scale o =>
    match trim_collinear_d_spec (fun p o => match trim_total_subseq p o with ex_intro _ r (conj H _) => ex_intro _ r H end) p scale o with
    | ex_intro _ r (conj H1 H2) => ex_intro _ r (conj H1 (conj (trim_subseq _ _ _ H1) H2))
    end).
Qed.
Print Assumptions C20_trim_d.

(* Ellipse(Rect, steps) = Ellipse(MidPoint, Width / 2, Height / 2, steps) *)
Theorem C20_ellipse_rect : forall l t r b steps si co,
  ellipse_rect_i l t r b steps si co =
  ellipse_i (Z.quot (l + r) 2, Z.quot (t + b) 2) (Z2Ff (r - l) * 0.5)%float (Z2Ff (b - t) * 0.5)%float steps si co.
Proof. exact ellipse_rect_i_spec. Qed.
Print Assumptions C20_ellipse_rect.

Theorem C20_ellipse_rect_d : forall l t r b steps si co,
  ellipse_rect_d l t r b steps si co =
  ellipse_d ((l + r) / 2)%float ((t + b) / 2)%float ((r - l) * 0.5)%float ((b - t) * 0.5)%float steps si co.
Proof. exact ellipse_rect_d_spec. Qed.
Print Assumptions C20_ellipse_rect_d.

Theorem C20_translate : forall p dx dy,
  length (translate_path p dx dy) = length p /\
  forall i, nth_error (translate_path p dx dy) i = option_map (fun q => (px q + dx, py q + dy)%Z) (nth_error p i).
Proof. exact translate_path_spec. Qed.
Print Assumptions C20_translate.

(* GetBounds = fold of min/max (Geom.bbox_of) once the first point is an int64 point; contains every point *)
Theorem C20_bounds : forall a t,
  in_i64 (px a) = true -> in_i64 (py a) = true -> bbox_of (a :: t) = Some (get_bounds (a :: t)).
Proof. exact get_bounds_bbox. Qed.
Print Assumptions C20_bounds.

Theorem C20_bounds_contains : forall p l t r b,
  get_bounds p = (l, t, r, b) -> forall q, In q p -> (l <= px q <= r /\ t <= py q <= b)%Z.
Proof. exact get_bounds_contains. Qed.
Print Assumptions C20_bounds_contains.

(* Length = sum of sqrt(dx^2+dy^2) over the edges, accumulated left to right in binary64 *)
Theorem C20_length : forall p closed, (2 <= length p)%nat ->
  path_length p closed = Ok (fold_left edge_len (if closed then cyc_edges p else open_edges p) 0%float).
Proof. exact path_length_spec. Qed.
Print Assumptions C20_length.

(* Ellipse: the recurrence the model runs on binary64, read over the reals with co = cos t, si = sin t *)
Theorem C20_ellipse_recurrence : forall t n i, (i < n)%nat ->
  nth i (ell_R n (cos t) (sin t) (cos t) (sin t)) (0, 0)%R = (cos (INR (S i) * t), sin (INR (S i) * t))%R.
Proof. exact ellipse_recurrence. Qed.
Print Assumptions C20_ellipse_recurrence.

Theorem C20_ellipse_shape : forall cx cy rx ry steps si co ry' steps',
  ellipse_params rx ry steps = Some (ry', steps') -> (1 <= steps')%Z ->
  length (ellipse_d cx cy rx ry steps si co) = Z.to_nat steps' /\
  hd_error (ellipse_d cx cy rx ry steps si co) = Some (cx + rx, cy)%float /\
  forall i, (i < Z.to_nat steps' - 1)%nat ->
    nth_error (ellipse_d cx cy rx ry steps si co) (S i) =
    option_map (fun u => (cx + rx * fst u, cy + ry' * snd u)%float) (nth_error (ell_units (Z.to_nat (steps' - 1)) co si) i).
Proof. exact ellipse_d_shape. Qed.
Print Assumptions C20_ellipse_shape.

(* the fast int64 -> double conversion used by the extracted model is FloatModel.Z2F *)
Theorem C20_int_to_double_fast_path : forall z, Z2Ff z = Z2F z.
Proof. exact Z2Ff_eq. Qed.
Print Assumptions C20_int_to_double_fast_path.
