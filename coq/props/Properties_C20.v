(* Property C20: path utilities keep their contracts.  Statements only; proofs are in coq/proofs/PathUtils*.v *)
From Coq Require Import ZArith List Floats.
From Clip Require Import base.Geom base.FloatModel model.PathUtils proofs.PathUtilsFloat.

Theorem C20_int_to_double_fast_path : forall z, Z2Ff z = Z2F z.
Proof. exact Z2Ff_eq. Qed.
Print Assumptions C20_int_to_double_fast_path.
