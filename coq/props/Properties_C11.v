(* C11 -- property theorems (placeholder while the proofs are being written). *)
From Clip Require Import base.Geom base.FloatModel model.Scale model.ErrorModel.
Local Open Scope Z_scope.

Theorem C11_cpr_example : check_precision_range true 9 0 = Throw 1 1.
Proof. reflexivity. Qed.
Print Assumptions C11_cpr_example.
