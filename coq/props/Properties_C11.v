(* C11 -- execution always succeeds on valid input and invalid arguments are reported.
   Model: model/ErrorModel.v ([exc] = true: C++ exceptions enabled; false: -fno-exceptions).
   Outcomes: Ok v | Thrown code | Code code v; values: VEmpty | VInput | VCall (the 64-bit call made) | VUndef (UB).
   The success clause for all inputs is the sweep model's (C01/C10); here only Execute's NoClip prologue.
   _refuted theorems state that the property's claim is FALSE of the faithful model; their witnesses are replayed on the
   real code by checks/C11.py (grid cells of the same entry point).
   The model mirrors the tree with the fixes "ScalePath checks the range like ScalePaths", "Minkowski*(PathD) check precision
   and error code", "RectClip(PathsD) checks the range of the rectangle", "BooleanOp(PathsD) looks at ClipperD::ErrorCode()"
   and "InflatePaths(PathsD) has no delta == 0 shortcut". *)
From Coq Require Import ZArith Floats List.
From Clip Require base.Region model.Sweep1D proofs.Sweep1D_main.
From Clip Require Import base.Geom.
From Clip Require Import base.FloatModel.
From Clip Require Import model.Scale.
From Clip Require Import model.ErrorModel.
From Clip Require Import proofs.ScaleProofs.
From Clip Require Import proofs.ErrorModelProofs.
Import ListNotations.
Local Open Scope Z_scope.

Theorem C11_noclip_empty : forall sweep fr inputs, execute sweep 0 fr inputs = (true, ([], [])).
Proof. exact execute_noclip. Qed.
Print Assumptions C11_noclip_empty.

(* CheckPrecisionRange itself *)
Theorem C11_check_precision_range : forall p ec,
  (- 8 <= p <= 8 -> forall exc, check_precision_range exc p ec = Val (p, ec)) /\
  (~ (- 8 <= p <= 8) -> check_precision_range true p ec = Throw 1 (Z.lor ec 1) /\
                        check_precision_range false p ec = Val (if 0 <? p then 8 else - 8, Z.lor ec 1) /\
                        Z.testbit (Z.lor ec 1) 0 = true).
Proof.
  intros p ec. split.
  - intros H exc. exact (cpr_valid exc p ec H).
  - intros H. split; [exact (cpr_invalid_on p ec H)|]. split; [exact (cpr_invalid_off p ec H)|exact (lor1_bit0 ec)].
Qed.
Print Assumptions C11_check_precision_range.

(* ---- success clause: the only place where the engine clears succeeded_ is AddLocalMaxPoly, when the two edges of a
   maxima pair are on the same side of their OutRec (front/front or back/back) and neither is an open end.  In the
   sweep model (model/Sweep1D.v, tied to the code as described in Properties_C01.v) `step` returns None exactly
   there.  For EVERY well-formed event history -- closed and open paths, all 16 rule combinations -- that never
   happens: the invariant makes the sides of a maxima pair opposite.  Partial: histories with joined edges
   (coincident / touching input handled by CheckJoinLeft/Right, Split) are outside the model; for those the success
   clause is validated by the small-lattice enumeration of checks/C11.py. ---- *)
Theorem C11_never_fails_partial : forall ct fr evs,
  ct <> Region.NoClip -> Sweep1D_main.wf_trace ct fr nil evs = true -> Sweep1D.run ct fr nil evs <> None.
Proof. exact Sweep1D_main.never_fails. Qed.
Print Assumptions C11_never_fails_partial.

(* precision outside +-8 is reported by: BooleanOp/Intersect/Union/Difference/Xor(PathsD) (+ tree), Union(subjects),
   InflatePaths(PathsD) [every delta], RectClip/RectClipLines(PathsD) [non-empty rectangle and paths],
   TrimCollinear(PathD), MinkowskiSum/Diff(PathD), and -- with exceptions -- the ClipperD constructor. *)
Theorem C11_precision_reported : forall pow10 p, ~ (- 8 <= p <= 8) ->
  (forall S C, to_outcome (booleanopD true pow10 p S C) = Thrown 1 /\ to_outcome (booleanopD false pow10 p S C) = Code 1 VEmpty) /\
  (forall S, to_outcome (union1D true pow10 p S) = Thrown 1 /\ to_outcome (union1D false pow10 p S) = Code 1 VEmpty) /\
  (forall ps d a, to_outcome (inflateD true pow10 p ps d a) = Thrown 1 /\ to_outcome (inflateD false pow10 p ps d a) = Code 1 VEmpty) /\
  (forall r ps, rect_is_empty r = false -> ps <> [] ->
                to_outcome (rectclipD true pow10 p r ps) = Thrown 1 /\ to_outcome (rectclipD false pow10 p r ps) = Code 1 VEmpty) /\
  (forall pth, to_outcome (trimcollinearD true pow10 p pth) = Thrown 1 /\ to_outcome (trimcollinearD false pow10 p pth) = Code 1 VEmpty) /\
  (forall pat pth, to_outcome (minkowskiD true pow10 p pat pth) = Thrown 1 /\ to_outcome (minkowskiD false pow10 p pat pth) = Code 1 VEmpty) /\
  (forall aS aO aC S O C, to_outcome (clipperD_run true pow10 p aS aO aC S O C) = Thrown 1) /\
  Z.testbit 1 0 = true.
Proof.
  intros pow10 p H.
  split. { intros S C. split; [exact (booleanopD_precision_on pow10 p S C H)|exact (booleanopD_precision_off pow10 p S C H)]. }
  split. { intros S. split; [exact (union1D_precision_on pow10 p S H)|exact (union1D_precision_off pow10 p S H)]. }
  split. { intros ps d a. split; [exact (inflateD_precision_on pow10 p ps d a H)|exact (inflateD_precision_off pow10 p ps d a H)]. }
  split. { intros r ps Hr Hne. split; [exact (rectclipD_precision_on pow10 p r ps H Hr Hne)|exact (rectclipD_precision_off pow10 p r ps H Hr Hne)]. }
  split. { intros pth. split; [exact (trimcollinearD_precision_on pow10 p pth H)|exact (trimcollinearD_precision_off pow10 p pth H)]. }
  split. { intros pat pth. split; [exact (minkowskiD_precision_on pow10 p pat pth H)|exact (minkowskiD_precision_off pow10 p pat pth H)]. }
  split. { intros aS aO aC S O C. exact (clipperD_precision_on pow10 p aS aO aC S O C H). }
  reflexivity.
Qed.
Print Assumptions C11_precision_reported.

(* RectClip/RectClipLines(PathsD) on an empty rectangle or no paths: the (empty) answer does not depend on the precision,
   which is never looked at -- nothing is computed from it, so nothing is "accepted" (not a refutation of the property) *)
Theorem C11_rectclip_empty_input : forall exc pow10 p r ps, rect_is_empty r = true \/ ps = [] ->
  to_outcome (rectclipD exc pow10 p r ps) = Ok VEmpty.
Proof. intros exc pow10 p r ps H. rewrite (rectclipD_empty_shortcut pow10 exc p r ps H). reflexivity. Qed.
Print Assumptions C11_rectclip_empty_input.

(* ... and, with exceptions disabled, still accepted by ClipperD used directly: the code is set (ErrorCode() = 1), the
   precision is clamped to 8 and a result is computed *)
Theorem C11_precision_clipperD_noexc_refuted :
  ~ (- 8 <= 12 <= 8) /\
  exists c, to_outcome (clipperD_run false pow10_spec 12 true true true [sq] [] []) = Code 1 (VCall c) /\ c_paths c <> [[]; []; []].
Proof. exact clipperD_precision_noexc. Qed.
Print Assumptions C11_precision_clipperD_noexc_refuted.

(* coordinates failing the range test (+-MAX_COORD after scaling) are reported by ScalePaths and ScalePath themselves and
   by every PathsD/PathD wrapper; RectClip also tests its rectangle *)
Theorem C11_range_reported : forall pow10 p, - 8 <= p <= 8 ->
  (forall sx sy ps ec, range_ok sx sy ps = false ->
     scale_paths_E true sx sy ps ec = Throw 64 (Z.lor ec 64) /\ scale_paths_E false sx sy ps ec = Val (Some [], Z.lor ec 64)) /\
  (forall sx sy pth ec, feqb sx 0 || feqb sy 0 = false -> range_ok sx sy [pth] = false ->
     scale_path_E true sx sy pth ec = Throw 64 (Z.lor ec 64) /\ scale_path_E false sx sy pth ec = Val (Some [], Z.lor ec 64)) /\
  (forall ps d a, range_ok (pow10 p) (pow10 p) ps = false ->
     to_outcome (inflateD true pow10 p ps d a) = Thrown 64 /\ to_outcome (inflateD false pow10 p ps d a) = Code 64 VEmpty) /\
  (forall r r64 ps, rect_is_empty r = false -> ps <> [] -> rect_range_ok (pow10 p) r = true -> scale_rect (pow10 p) r = Some r64 ->
     range_ok (pow10 p) (pow10 p) ps = false ->
     to_outcome (rectclipD true pow10 p r ps) = Thrown 64 /\ to_outcome (rectclipD false pow10 p r ps) = Code 64 VEmpty) /\
  (forall r ps, rect_is_empty r = false -> ps <> [] -> rect_range_ok (pow10 p) r = false ->
     to_outcome (rectclipD true pow10 p r ps) = Thrown 64 /\ to_outcome (rectclipD false pow10 p r ps) = Code 64 VEmpty) /\
  (forall S O C, range_ok (scaleD_model pow10 p) (scaleD_model pow10 p) S = false ->
     to_outcome (clipperD_run true pow10 p true true true S O C) = Thrown 64) /\
  (forall S C, range_ok (scaleD_model pow10 p) (scaleD_model pow10 p) S = false ->
     to_outcome (booleanopD true pow10 p S C) = Thrown 64) /\
  (forall S C, range_ok (scaleD_model pow10 p) (scaleD_model pow10 p) S = false \/
               range_ok (scaleD_model pow10 p) (scaleD_model pow10 p) C = false ->
     to_outcome (booleanopD false pow10 p S C) = Ok VEmpty) /\
  (forall S, range_ok (scaleD_model pow10 p) (scaleD_model pow10 p) S = false ->
     to_outcome (union1D false pow10 p S) = Ok VEmpty) /\
  (forall pth, feqb (pow10 p) 0 = false -> range_ok (pow10 p) (pow10 p) [pth] = false ->
     to_outcome (trimcollinearD true pow10 p pth) = Thrown 64 /\ to_outcome (trimcollinearD false pow10 p pth) = Code 64 VEmpty) /\
  (forall pat pth, feqb (pow10 p) 0 = false ->
     range_ok (pow10 p) (pow10 p) [pat] = false \/ range_ok (pow10 p) (pow10 p) [pth] = false ->
     (exists ec, minkowskiD true pow10 p pat pth = Throw 64 ec) /\
     (exists ec, minkowskiD false pow10 p pat pth = Val (ec, VEmpty) /\ Z.testbit ec 6 = true)).
Proof.
  intros pow10 p Hp.
  split. { intros sx sy ps ec H. split; [exact (scale_paths_range_on sx sy ps ec H)|exact (scale_paths_range_off sx sy ps ec H)]. }
  split. { intros sx sy pth ec Hz H. split; [exact (scale_path_range_on sx sy pth ec Hz H)|exact (scale_path_range_off sx sy pth ec Hz H)]. }
  split. { intros ps d a Hr. exact (inflateD_range pow10 p ps d a Hp Hr). }
  split. { intros r r64 ps Hre Hne Hrr Hr64 Hr. exact (rectclipD_range pow10 p r r64 ps Hp Hre Hne Hrr Hr64 Hr). }
  split. { intros r ps Hre Hne Hrr. exact (rectclipD_rect_range pow10 p r ps Hp Hre Hne Hrr). }
  split. { intros S O C Hr. exact (clipperD_range_on pow10 p S O C Hp Hr). }
  split. { intros S C Hr. exact (booleanopD_range_on pow10 p S C Hp Hr). }
  split. { intros S C Hr. exact (booleanopD_range_off pow10 p S C Hp Hr). }
  split. { intros S Hr. exact (union1D_range_off pow10 p S Hp Hr). }
  split. { intros pth Hz Hr. exact (trimcollinearD_range pow10 p pth Hp Hz Hr). }
  intros pat pth Hz Hr. exact (minkowskiD_range pow10 p pat pth Hp Hz Hr).
Qed.
Print Assumptions C11_range_reported.

(* the hypotheses are satisfiable, and the inputs that used to be accepted silently are rejected *)
Theorem C11_range_reported_sat :
  (range_ok 100 100 [huge_sq] = false /\ range_ok 100 100 [big_sq] = false /\ in_coord_range (pow10_spec 2) [big_sq] = false /\
   rect_range_ok 100 (0%float, 0%float, 0x1p+300%float, 5%float) = false /\
   rect_range_ok 100 (0%float, 0%float, 5%float, 5%float) = true /\
   feqb (pow10_spec 2) 0 = false) /\
  ((scale_path_E true 100 100 huge_sq 0 = Throw 64 64 /\ scale_path_E false 100 100 big_sq 0 = Val (Some [], 64)) /\
   (to_outcome (trimcollinearD true pow10_spec 2 big_sq) = Thrown 64 /\ to_outcome (trimcollinearD false pow10_spec 2 huge_sq) = Code 64 VEmpty) /\
   (to_outcome (minkowskiD true pow10_spec 2 tri big_sq) = Thrown 64 /\ to_outcome (minkowskiD false pow10_spec 2 tri huge_sq) = Code 64 VEmpty) /\
   (to_outcome (rectclipD true pow10_spec 2 (0%float, 0%float, 0x1p+300%float, 5%float) [sq]) = Thrown 64 /\
    to_outcome (rectclipD false pow10_spec 2 (0%float, 0%float, 0x1p+300%float, 5%float) [sq]) = Code 64 VEmpty) /\
   to_outcome (booleanopD false pow10_spec 2 [huge_sq] [sq]) = Ok VEmpty).
Proof. split; [exact range_hyps_sat|exact range_now_reported]. Qed.
Print Assumptions C11_range_reported_sat.

(* exceptions disabled, ClipperD used directly: the oversized subject is dropped (ErrorCode() = 64) and a result is computed
   from the other operands; the C exports BooleanOpD / BooleanOp_PolyTreeD do the same and return 0 *)
Theorem C11_range_clipperD_noexc_refuted :
  exists c, to_outcome (clipperD_run false pow10_spec 2 true true true [huge_sq] [] [sq]) = Code 64 (VCall c) /\ nth 2 (c_paths c) [] <> [].
Proof. exact clipperD_range_noexc. Qed.
Print Assumptions C11_range_clipperD_noexc_refuted.

Theorem C11_range_export_booleanopD_noexc_refuted :
  exists c, export_booleanopD false pow10_spec 2 1 2 [huge_sq] [] [sq] = inl (Val (0, VCall c)) /\ nth 0 (c_paths c) [] = []
            /\ nth 2 (c_paths c) [] <> [].
Proof. exact export_booleanopD_range_noexc. Qed.
Print Assumptions C11_range_export_booleanopD_noexc_refuted.

(* NaN passes every range test (undefined conversion, nothing reported), in both builds *)
Theorem C11_range_nan_refuted :
  (forall exc, scale_paths_E exc 100 100 [nan_sq] 0 = Val (None, 0)) /\
  (forall exc, scale_path_E exc 100 100 nan_sq 0 = Val (None, 0)) /\
  (forall exc, to_outcome (booleanopD exc pow10_spec 2 [nan_sq] [sq]) = Ok VUndef) /\
  (forall exc, to_outcome (rectclipD exc pow10_spec 2 (0%float, 0%float, nan, 5%float) [sq]) = Ok VUndef).
Proof.
  split; [exact scale_paths_nan_unchecked|]. split; [exact scale_path_nan_unchecked|].
  split; [exact booleanopD_nan_unchecked|exact rectclipD_rect_nan_unchecked].
Qed.
Print Assumptions C11_range_nan_refuted.

(* the C exports InflatePathsD / InflatePathD / RectClipD / RectClipLinesD convert paths and rectangle with no range test *)
Theorem C11_range_export_refuted :
  (export_inflateD pow10_spec 2 [huge_sq] 1 0 = inl (Val (0, VUndef)) /\
   exists c, export_inflateD pow10_spec 2 [big_sq] 1 0 = inl (Val (0, VCall c))) /\
  (export_rectD pow10_spec 2 (0%float, 0%float, 5%float, 5%float) [huge_sq] = inl (Val (0, VUndef)) /\
   export_rectD pow10_spec 2 (0%float, 0%float, 0x1p+300%float, 5%float) [sq] = inl (Val (0, VUndef)) /\
   exists c, export_rectD pow10_spec 2 (0%float, 0%float, 0x1.47ae147ae147bp+55%float, 5%float) [sq] = inl (Val (0, VCall c))).
Proof. split; [exact export_inflateD_range_unchecked|exact export_rectD_range_unchecked]. Qed.
Print Assumptions C11_range_export_refuted.

(* zero scale: reported with exceptions ... *)
Theorem C11_zero_scale : forall sx sy, feqb sx 0 || feqb sy 0 = true ->
  (forall p ec, scale_path_E true sx sy p ec = Throw 2 (Z.lor ec 2)) /\
  (forall p ec, descale_path_E true sx sy p ec = Throw 2 (Z.lor ec 2)) /\
  (forall p, polypathD_child true 0 p = Throw 2 2).
Proof.
  intros sx sy H. split; [intros p ec; exact (scale_path_zero_on sx sy p ec H)|].
  split; [intros p ec; exact (descale_path_zero_on sx sy p ec H)|exact polypathD_zero_on].
Qed.
Print Assumptions C11_zero_scale.

(* ... without exceptions the path is scaled by 1 and returned (bit 1 set); PolyPathD loses even the bit *)
Theorem C11_zero_scale_noexc_refuted :
  scale_path_E false 0 0 [(1.5%float, 2%float)] 0 = Val (Some [(2, 2)], 2) /\
  polypathD_child false 0 [(3, 4)] = Val (0, [(3%float, 4%float)]).
Proof. split; [exact scale_path_zero_off|exact polypathD_zero_off]. Qed.
Print Assumptions C11_zero_scale_noexc_refuted.

(* ... and the range test is then made with the repaired scale 1 *)
Theorem C11_zero_scale_then_range_noexc : forall pth ec, range_ok 1 1 [pth] = false ->
  scale_path_E false 0 0 pth ec = Val (Some [], Z.lor (Z.lor ec 2) 64).
Proof. exact scale_path_zero_then_range_off. Qed.
Print Assumptions C11_zero_scale_then_range_noexc.

(* odd number of coordinates *)
Theorem C11_odd_count : forall vals,
  (Z.odd (Z.of_nat (length vals)) = true -> make_path true vals = Throw 4 0) /\
  (Z.odd (Z.of_nat (length vals)) = false -> forall exc, exists p, make_path exc vals = Val p).
Proof.
  intros vals. split; [exact (make_path_odd_on vals)|]. intros H exc. exact (make_path_even_ok exc vals H).
Qed.
Print Assumptions C11_odd_count.

Theorem C11_odd_count_noexc_refuted : make_path false [1; 2; 3] = Val [(1, 2)].
Proof. exact make_path_odd_off. Qed.
Print Assumptions C11_odd_count_noexc_refuted.

(* the C boundary: negative return <-> some argument out of range, precision first, then clip type, then fill rule;
   for every integer value (uint8_t / int included) *)
Theorem C11_export_rejects : forall ct fr p,
  ((exists rc, export_booleanopD_pre ct fr p = Some rc /\ rc < 0) <-> (ct > 4 \/ fr > 3 \/ ~ (- 8 <= p <= 8))) /\
  (~ (- 8 <= p <= 8) -> export_booleanopD_pre ct fr p = Some (- 5)) /\
  (- 8 <= p <= 8 -> ct > 4 -> export_booleanopD_pre ct fr p = Some (- 4)) /\
  (- 8 <= p <= 8 -> ct <= 4 -> fr > 3 -> export_booleanopD_pre ct fr p = Some (- 3)) /\
  (- 8 <= p <= 8 -> ct <= 4 -> fr <= 3 -> export_booleanopD_pre ct fr p = None) /\
  ((exists rc, export_booleanop64_pre ct fr = Some rc /\ rc < 0) <-> (ct > 4 \/ fr > 3)) /\
  (ct > 4 -> export_booleanop64_pre ct fr = Some (- 4)) /\
  (ct <= 4 -> fr > 3 -> export_booleanop64_pre ct fr = Some (- 3)) /\
  (ct <= 4 -> fr <= 3 -> export_booleanop64_pre ct fr = None) /\
  (forall r, ~ (- 8 <= p <= 8) -> export_inflateD_pre p false = true /\ export_rectD_pre r false p = true) /\
  (- 8 <= p <= 8 -> export_inflateD_pre p false = false).
Proof.
  intros ct fr p.
  split; [exact (export_booleanopD_rejects ct fr p)|].
  destruct (export_booleanopD_priority ct fr p) as [A [B [C D]]].
  split; [exact A|]. split; [exact B|]. split; [exact C|]. split; [exact D|].
  split; [exact (export_booleanop64_rejects ct fr)|].
  destruct (export_booleanop64_priority ct fr) as [E [F G]].
  split; [exact E|]. split; [exact F|]. split; [exact G|].
  split; [intros r; exact (proj1 (export_pointer_rejects p r))|exact (proj2 (export_pointer_rejects p (0%float, 0%float, 0%float, 0%float)))].
Qed.
Print Assumptions C11_export_rejects.
