(* C05 — property theorems (statements only; proofs live in proofs/OpenClipSpec.v and, for the sweep-line part,
   proofs/Sweep1D_main.v). *)
From Clip Require Import base.Geom base.Winding base.Region base.Dist base.GenPos model.OpenClipSpec proofs.OpenClipSpec.
From Coq Require Import QArith List.
Import ListNotations.
Local Open Scope Z_scope.

(* ===== Part 1: the specification oracle (model/OpenClipSpec.v) ===== *)

(* the table that decides where an open subject survives is the property text *)
Theorem C05_open_in_result_spec : forall fr wS wC,
  open_in_result Intersection fr wS wC = inside fr wC /\
  open_in_result Difference fr wS wC = negb (inside fr wC) /\
  open_in_result Xor fr wS wC = negb (inside fr wC) /\
  open_in_result Union fr wS wC = negb (inside fr wS || inside fr wC) /\
  open_in_result Union fr wS wC = negb (in_result Union fr wS wC).
Proof. exact open_in_result_spec. Qed.
Print Assumptions C05_open_in_result_spec.

(* a cut parameter is strictly inside the open segment and the point at that parameter lies exactly on the supporting line
   of the closed edge (all in integers: the point is [lerp]'s integer-scaled point, the closed edge is scaled alike) *)
Theorem C05_crossing_parameter : forall a b c d,
  proper_cross (a, b) (c, d) = true ->
  let t := cross_par (a, b) (c, d) in
  (0 < Qnum t < Zpos (Qden t)) /\
  let m := lerp (a, b) t in cross (pscale (snd m) c) (pscale (snd m) d) (fst m) = 0.
Proof. exact cross_par_spec. Qed.
Print Assumptions C05_crossing_parameter.

(* the pieces of an open segment start at 0, end at 1 and are linked end to start *)
Theorem C05_pieces_partition : forall ts,
  (exists hi r, mk_pieces ts = (0%Q, hi) :: r) /\ linked (mk_pieces ts) /\ snd (last (mk_pieces ts) (0%Q, 0%Q)) = 1%Q.
Proof. exact mk_pieces_partition. Qed.
Print Assumptions C05_pieces_partition.

(* the interval-cover test behind "kept run covered by the solution" never says yes wrongly *)
Theorem C05_cover_test_sound : forall start_ok end_ok ivs,
  covered start_ok end_ok ivs = true ->
  exists a b, start_ok a = true /\ end_ok b = true /\ Cov ivs a b.
Proof. exact covered_sound. Qed.
Print Assumptions C05_cover_test_sound.

(* the hypothesis of the validation, general position of the whole input, unfolded; and the fact that a polyline folding
   back on itself is outside it *)
Theorem C05_hypothesis : forall S C O, general_position_C05 S C O = true ->
  general_position (S ++ C) = true /\ gp_open (S ++ C) O = true /\ open_self_clear O = true /\ gp_joint (S ++ C) O = true.
Proof. exact general_position_C05_open. Qed.
Print Assumptions C05_hypothesis.

Theorem C05_foldback_outside_hypothesis :
  let C := [[(40,-10);(60,-10);(60,16);(40,16)]] in let O := [[(0,40);(100,10);(0,10);(90,10);(95,40)]] in
  general_position_open [] C O = true /\ general_position_C05 [] C O = false.
Proof. exact foldback_not_general. Qed.
Print Assumptions C05_foldback_outside_hypothesis.

(* ===== Part 2: the sweep-line toggle logic (model/Sweep1D.v) — theorems about the open edges of the sweep model
   (proofs/Sweep1D_main.v: open_hot_iff, open_crossing_leaves_closed_unchanged) are added here by the integrator ===== *)
