(* C05 — property theorems (statements only; proofs live in proofs/OpenClipSpec.v). *)
From Clip Require Import base.Geom base.Winding base.Region base.Dist base.GenPos model.OpenClipSpec proofs.OpenClipSpec.
From Coq Require Import QArith.
Local Open Scope Z_scope.

Theorem C05_open_in_result_spec : forall fr wS wC,
  open_in_result Intersection fr wS wC = inside fr wC /\
  open_in_result Difference fr wS wC = negb (inside fr wC) /\
  open_in_result Xor fr wS wC = negb (inside fr wC) /\
  open_in_result Union fr wS wC = negb (inside fr wS || inside fr wC) /\
  open_in_result Union fr wS wC = negb (in_result Union fr wS wC).
Proof. exact open_in_result_spec. Qed.
Print Assumptions C05_open_in_result_spec.
