(* C05 — property theorems (statements only; proofs live in proofs/OpenClipSpec.v and, for the sweep-line part,
   proofs/Sweep1D_main.v). *)
From Clip Require Import base.Geom base.Winding base.Region base.Dist base.GenPos model.OpenClipSpec proofs.OpenClipSpec.
From Coq Require Import QArith List.
Import ListNotations.
Local Open Scope Z_scope.

(* ===== Part 1: the specification oracle (model/OpenClipSpec.v) ===== *)

(* the table that decides where an open subject survives is the property text *)
Theorem C05_open_in_result_spec : forall fr wS wC,
  open_in_result Intersection fr wS wC = inside fr wC /\
  open_in_result Difference fr wS wC = negb (inside fr wC) /\
  open_in_result Xor fr wS wC = negb (inside fr wC) /\
  open_in_result Union fr wS wC = negb (inside fr wS || inside fr wC) /\
  open_in_result Union fr wS wC = negb (in_result Union fr wS wC).
Proof. exact open_in_result_spec. Qed.
Print Assumptions C05_open_in_result_spec.

(* a cut parameter is strictly inside the open segment and the point at that parameter lies exactly on the supporting line
   of the closed edge (all in integers: the point is [lerp]'s integer-scaled point, the closed edge is scaled alike) *)
Theorem C05_crossing_parameter : forall a b c d,
  proper_cross (a, b) (c, d) = true ->
  let t := cross_par (a, b) (c, d) in
  (0 < Qnum t < Zpos (Qden t)) /\
  let m := lerp (a, b) t in cross (pscale (snd m) c) (pscale (snd m) d) (fst m) = 0.
Proof. exact cross_par_spec. Qed.
Print Assumptions C05_crossing_parameter.

(* the pieces of an open segment start at 0, end at 1 and are linked end to start *)
Theorem C05_pieces_partition : forall ts,
  (exists hi r, mk_pieces ts = (0%Q, hi) :: r) /\ linked (mk_pieces ts) /\ snd (last (mk_pieces ts) (0%Q, 0%Q)) = 1%Q.
Proof. exact mk_pieces_partition. Qed.
Print Assumptions C05_pieces_partition.

(* the interval-cover test behind "kept run covered by the solution" never says yes wrongly *)
Theorem C05_cover_test_sound : forall start_ok end_ok ivs,
  covered start_ok end_ok ivs = true ->
  exists a b, start_ok a = true /\ end_ok b = true /\ Cov ivs a b.
Proof. exact covered_sound. Qed.
Print Assumptions C05_cover_test_sound.

(* the hypothesis of the validation, general position of the whole input, unfolded; and the fact that a polyline folding
   back on itself is outside it *)
Theorem C05_hypothesis : forall S C O, general_position_C05 S C O = true ->
  general_position (S ++ C) = true /\ gp_open (S ++ C) O = true /\ open_self_clear O = true /\ gp_joint (S ++ C) O = true.
Proof. exact general_position_C05_open. Qed.
Print Assumptions C05_hypothesis.

Theorem C05_foldback_outside_hypothesis :
  let C := [[(40,-10);(60,-10);(60,16);(40,16)]] in let O := [[(0,40);(100,10);(0,10);(90,10);(95,40)]] in
  general_position_open [] C O = true /\ general_position_C05 [] C O = false.
Proof. exact foldback_not_general. Qed.
Print Assumptions C05_foldback_outside_hypothesis.

(* ===== Part 2: the sweep-line toggle logic (model/Sweep1D.v) — theorems about the open edges of the sweep model
   (proofs/Sweep1D_main.v: open_hot_iff, open_crossing_leaves_closed_unchanged) are added here by the integrator ===== *)

From Coq Require Import ZArith List.
From Clip Require Import base.CSem gen.Gen_core gen.Gen_engine model.Sweep1D.
From Clip Require Import proofs.Sweep1D_main proofs.Sweep1D_gen proofs.Sweep1D_erase.
Local Open Scope Z_scope.

(* in every AEL reachable by any well-formed event history (C01_reachable: inv_b holds there) an open-path edge is
   hot -- i.e. currently emitting a solution piece -- exactly where open subjects are to be kept:
   inside the clip region for Intersection, outside it for Difference and Xor, outside both regions for Union *)
Theorem C05_open_hot_iff_kept : forall ct fr pre e post,
  inv_b ct fr (pre ++ e :: post) = true -> eopen e = true ->
  is_hot e = open_in_result ct fr (Wsum Subj pre) (Wsum Clp pre).
Proof. exact open_hot_iff. Qed.
Print Assumptions C05_open_hot_iff_kept.

(* the invariant is preserved by every event, open-path events (EInsert … true, EInsert1, ERemove1, crossings
   of an open with a closed edge) included: this is C01_step_preserves, restated here because the open branch of
   IntersectEdges (toggle on crossing a closed edge) is part of `step` *)
Theorem C05_open_step_preserves : forall ct fr a ev,
  ct <> NoClip -> inv_b ct fr a = true -> wf_event a ev = true ->
  exists a', step ct fr a ev = Some a' /\ inv_b ct fr a' = true.
Proof. exact step_preserves. Qed.
Print Assumptions C05_open_step_preserves.

(* the start state of an open edge is decided by the TRANSLATED IsContributingOpen *)
Theorem C05_contributing_open_is_translated : forall ct fr e,
  is_contributing_open ct fr e = IsContributingOpen (ct_code ct) (fr_code fr) (to_active e).
Proof. exact contributing_open_is_translated. Qed.
Print Assumptions C05_contributing_open_is_translated.

(* "adding open subjects does not change the region of the closed solution", at the level of sweep state:
   crossing an open edge never changes the closed edge, and in a reachable AEL the closed edges' wind counts, hot
   flags and sides are what they are with every open edge deleted *)
Theorem C05_open_crossing_leaves_closed_unchanged : forall ct fr ph same e1 e2,
  (eopen e1 = true -> eopen e2 = false -> exists o, intersect_edges ct fr ph same e1 e2 = Some (o, e2)) /\
  (eopen e1 = false -> eopen e2 = true -> exists o, intersect_edges ct fr ph same e1 e2 = Some (e1, o)).
Proof. exact open_crossing_leaves_closed_unchanged. Qed.
Print Assumptions C05_open_crossing_leaves_closed_unchanged.

Theorem C05_closed_state_ignores_open : forall ct fr a,
  inv_b ct fr a = true ->
  inv_b ct fr (closed_only a) = true /\ (forall pt, Wsum pt (closed_only a) = Wsum pt a).
Proof. intros ct fr a H. split; [apply closed_state_ignores_open, H|intros pt; apply Wsum_closed_only]. Qed.
Print Assumptions C05_closed_state_ignores_open.

(* partial: cut positions and lengths are geometry (validated against the exact rational specification above);
   joins at open x closed crossings are not part of the model (the defect fixed in /repo "no join check at an
   intersection that involves an open edge" lived there). *)
Definition C05_open_logic_partial :=
  (C05_open_hot_iff_kept, C05_open_step_preserves, C05_open_crossing_leaves_closed_unchanged, C05_closed_state_ignores_open).
