From Clip Require Import model.OffsetPlan.
Theorem C06_stub : True. Proof. exact I. Qed.
Print Assumptions C06_stub.
