(* C06 -- polygon offsetting moves the boundary by delta.
   Models: model/OffsetPlan.v (member dataflow of ExecuteInternal / DoGroupOffset / CheckReverseOrientation: which delta,
   join, end type, fill rule every path gets), model/OffsetGeom.v (binary64 model of the per-vertex constructions, tied
   bit for bit to DoGroupOffset by checks/C06.py), proofs/OffsetReal.v (the real-valued formulas those constructions
   evaluate).  The theorems say that every constructed point is where the tolerance budget of the property (arc
   tolerance + 0.1 % of |delta|, miter limit, sqrt 2) assumes it is, and that sign of delta, fill rule and reversal
   flag follow the orientation of the path's own group.
   NOT proved (level: partial): that the union with Positive/Negative filling of the raw offset curves is the dilated /
   eroded region -- a global geometric fact; it is validated by checks/C06.py against the exact signed-distance
   specification proofs/OffsetSpec.v (c06_class).
   Known finding (offset.group-orientation.first-polygon-group-decides, see Properties_C12.v): one fill rule per call. *)
From Coq Require Import ZArith List Bool Floats Reals.
From Clip Require Import base.Geom base.FloatModel model.OffsetPlan model.OffsetGeom
  proofs.OffsetReal proofs.OffsetPlanProofs proofs.OffsetGeomProofs.
Import ListNotations.
#[local] Set Warnings "-inexact-float".

(* steps_per_360 = PI / acos(1 - arcTol/|delta|): the chord between two consecutive arc points has sagitta = arcTol *)
Theorem C06_arc_sagitta : forall a r : R, (0 < a <= r)%R -> (r * (1 - cos (acos (1 - a / r))) = a)%R.
Proof. exact arc_sagitta. Qed.
Print Assumptions C06_arc_sagitta.

(* the cap steps_per_360 <= |delta| PI: half step angle 1/r, sagitta at most half a unit *)
Theorem C06_arc_cap : forall r : R, (1 <= r)%R -> (r * (1 - cos (1 / r)) <= 1 / 2)%R.
Proof. exact arc_cap. Qed.
Print Assumptions C06_arc_cap.

(* DoRound recurrence: every emitted point is at distance |delta| of the vertex *)
Theorem C06_round_on_circle : forall (c s delta : R) (n : vec) (i : nat),
  (c * c + s * s = 1)%R -> is_unit n -> norm2 (rot_iter c s i (vscale delta n)) = (delta * delta)%R.
Proof. exact round_points_on_circle. Qed.
Print Assumptions C06_round_on_circle.

(* DoMiter under the miter-limit test cos_a > 2/ML^2 - 1: within |delta| ML of the vertex *)
Theorem C06_miter_reach : forall (nj nk : vec) (delta ML : R),
  is_unit nj -> is_unit nk -> (0 < ML)%R -> (vdot nj nk > 2 / (ML * ML) - 1)%R ->
  (norm2 (miter_vec nj nk delta) <= (delta * ML) * (delta * ML))%R.
Proof. exact miter_reach. Qed.
Print Assumptions C06_miter_reach.

(* near-straight joins (cos_a > 0.999) are mitred whatever the join type: within 1.001 |delta| *)
Theorem C06_miter_flat_reach : forall (nj nk : vec) (delta : R),
  is_unit nj -> is_unit nk -> (vdot nj nk > 999 / 1000)%R ->
  (norm2 (miter_vec nj nk delta) <= (delta * (1001 / 1000)) * (delta * (1001 / 1000)))%R.
Proof. exact miter_flat_reach. Qed.
Print Assumptions C06_miter_flat_reach.

(* DoSquare: the corner points are within |delta| sqrt 2 of the vertex *)
Theorem C06_square_reach : forall (v n x : vec) (d : R),
  is_unit v -> is_unit n -> (0 <= vdot v n)%R -> (vdot v n < 1)%R -> vdot x v = d -> vdot x n = d ->
  (norm2 x <= 2 * (d * d))%R.
Proof. exact square_reach. Qed.
Print Assumptions C06_square_reach.

(* p + delta n, n the unit normal of the edge: at distance |delta| from the edge's line ... *)
Theorem C06_offset_edge_distance : forall (a b n : vec) (t delta : R),
  is_unit n -> vdot n (vsub b a) = 0%R ->
  let p := vadd a (vscale t (vsub b a)) in
  let q := vadd p (vscale delta n) in
  (vcross (vsub b a) (vsub q a) * vcross (vsub b a) (vsub q a) = delta * delta * edge_len2 a b)%R.
Proof. exact offset_edge_distance. Qed.
Print Assumptions C06_offset_edge_distance.

(* ... on the side the sign of delta selects (GetUnitNormal = (dy, -dx)/L: right of a->b for delta > 0) *)
Theorem C06_offset_edge_side : forall (a b : vec) (L t delta : R),
  (0 < L)%R -> (L * L)%R = edge_len2 a b ->
  let n := ((vy b - vy a) / L, - (vx b - vx a) / L)%R in
  let q := vadd (vadd a (vscale t (vsub b a))) (vscale delta n) in
  vcross (vsub b a) (vsub q a) = (- delta * L)%R.
Proof. exact offset_edge_side. Qed.
Print Assumptions C06_offset_edge_side.

Theorem C06_unit_normal : forall (a b : vec) (L : R),
  (0 < L)%R -> (L * L)%R = edge_len2 a b ->
  let n := ((vy b - vy a) / L, - (vx b - vx a) / L)%R in
  is_unit n /\ vdot n (vsub b a) = 0%R.
Proof. exact unit_normal_is_unit. Qed.
Print Assumptions C06_unit_normal.

(* OffsetPoint: exactly one branch is taken, the one whose condition (written without the if-cascade) holds *)
Theorem C06_join_selection_total : forall jt tlim gd sin_a cos_a b,
  branch_cond jt tlim gd sin_a cos_a b = true <-> select_join jt tlim gd sin_a cos_a = b.
Proof. exact join_selection_total. Qed.
Print Assumptions C06_join_selection_total.

(* concave iff cos_a > -0.999 and sin_a * delta < 0 (and |delta| above the floating point tolerance) *)
Theorem C06_join_concave_iff : forall jt tlim gd sin_a cos_a,
  select_join jt tlim gd sin_a cos_a = BConcave <->
  PrimFloat.leb (PrimFloat.abs gd) fp_tol = false /\ fgt cos_a (-0.999)%float = true /\ PrimFloat.ltb (sin_a * gd)%float 0%float = true.
Proof. exact join_concave_iff. Qed.
Print Assumptions C06_join_concave_iff.

(* the miter threshold used for every vertex of a call is the one derived from the miter limit in force at that Execute,
   whether it came from the constructor or from the MiterLimit setter *)
Theorem C06_temp_lim_in_force : forall acos_f sin_f cos_f miter_limit arc_tolerance e,
  c_tlim (ctx_of acos_f sin_f cos_f miter_limit arc_tolerance e) = temp_lim miter_limit.
Proof. exact ctx_temp_lim. Qed.
Print Assumptions C06_temp_lim_in_force.

(* OffsetPolygon reads path[j], path[k], norms[j], norms[k] in bounds for every length *)
Theorem C06_polygon_accesses_in_bounds : forall len : Z, (0 <= len)%Z -> forallb (in_bounds len) (polygon_accesses len) = true.
Proof. exact polygon_accesses_in_bounds. Qed.
Print Assumptions C06_polygon_accesses_in_bounds.

(* ExecuteInternal: |delta| < 0.5 copies the input; otherwise the plan is executed; fill rule Negative and the
   ReverseSolution argument follow CheckReverseOrientation *)
Theorem C06_small_delta_identity : forall (rev : bool) (gs : list group) (delta : float),
  gs <> [] ->
  (insignificant delta = true -> x_mode (execute_plan rev gs delta) = XIdentity) /\
  (insignificant delta = false -> x_mode (execute_plan rev gs delta) = XOffset (plan gs delta)) /\
  x_fill_negative (execute_plan rev gs delta) = check_reverse gs /\
  x_reverse_solution (execute_plan rev gs delta) = xorb rev (check_reverse gs).
Proof. exact small_delta_identity. Qed.
Print Assumptions C06_small_delta_identity.

(* Every path is offset with group_delta_ = own_delta of its OWN group: delta itself for a Polygon group with a lowest
   path, negated exactly when that group is reversed -- whatever groups precede it.
   (Refuted for the code before offset-delta-abs-leak.patch: witness in the header of model/OffsetPlan.v.) *)
Theorem C06_orientation_plan : forall (gs : list group) (delta : float) (e : pentry),
  In e (plan gs delta) ->
  exists g, nth_error gs (pe_group e) = Some g /\ pe_delta e = own_delta g delta /\
            (g_end g = EPolygon -> g_has_lowest g = true -> pe_delta e = if g_reversed g then fneg delta else delta).
Proof. exact orientation_plan. Qed.
Print Assumptions C06_orientation_plan.

(* When the oriented Polygon groups of a call agree on their orientation r, the clean-up union fills Negative iff r
   and the result is reversed iff (ReverseSolution xor r): the orientation of the input is kept; groups without any
   vertex do not take part (offset-empty-group-orientation.patch). *)
Theorem C06_orientation_preserved : forall (rev : bool) (gs : list group) (delta : float) (r : bool),
  (forall g, In g gs -> oriented g = true -> g_reversed g = r) ->
  (exists g, In g gs /\ oriented g = true) ->
  x_fill_negative (execute_plan rev gs delta) = r /\ x_reverse_solution (execute_plan rev gs delta) = xorb rev r.
Proof. exact orientation_preserved. Qed.
Print Assumptions C06_orientation_preserved.
