(* C17 -- the C export layer marshals faithfully and forwards every parameter.
   Model: model/Export.v (hand model of the array layouts, tied to the code by the exact correspondence run
   of checks/C17.py) and gen/Gen_export.v (translated from clipper.export.h on every run).
   E / ofc / toc / ezero: array element type (int64_t or double), count -> element, element -> count, 0.
   D = EXPORT_VERTEX_DIMENSIONALITY (2, or 3 with USINGZ); a vertex is the list of its D components. *)
From Coq Require Import ZArith List Bool String.
From Clip Require Import model.Export gen.Gen_export proofs.Export proofs.ExportElem proofs.ExportFwd.
Import ListNotations.
Local Open Scope Z_scope.

(* the count conversions of the two array types are exact in the relevant range *)
Theorem C17_count_law_i64 : forall n, 0 <= n < 2 ^ 63 -> toc_i64 (ofc_i64 n) = Some n.
Proof. exact toc_ofc_i64. Qed.
Print Assumptions C17_count_law_i64.

Theorem C17_count_law_f64 : forall n, 0 <= n < 2 ^ 53 -> toc_f64 (ofc_f64 n) = Some n.
Proof. exact toc_ofc_f64. Qed.
Print Assumptions C17_count_law_f64.

(* paths -> array -> paths is the identity on the non-empty paths *)
Theorem C17_dec_enc_paths :
  forall (E : Type) (ofc : Z -> E) (toc : E -> option Z) (ezero : E) (cmax : Z),
    (forall n, 0 <= n < cmax -> toc (ofc n) = Some n) ->
    forall (D : nat) (ps : cpaths E), (0 < D)%nat -> Forall (Forall (dims E D)) ps ->
      Z.of_nat (List.length (enc_paths E ofc ezero D ps)) < cmax ->
      dec_paths E toc D (enc_paths E ofc ezero D ps) = Some (filter nonempty ps).
Proof. exact dec_enc_paths. Qed.
Print Assumptions C17_dec_enc_paths.

Theorem C17_dec_enc_paths_i64 :
  forall (D : nat) (ps : cpaths Z), (0 < D)%nat -> Forall (Forall (dims Z D)) ps ->
    Z.of_nat (List.length (i64_enc_paths D ps)) < 2 ^ 63 ->
    i64_dec_paths D (i64_enc_paths D ps) = Some (filter nonempty ps).
Proof. exact dec_enc_paths_i64. Qed.
Print Assumptions C17_dec_enc_paths_i64.

Theorem C17_dec_enc_paths_f64 :
  forall (D : nat) (ps : cpaths Z), (0 < D)%nat -> Forall (Forall (dims Z D)) ps ->
    Z.of_nat (List.length (f64_enc_paths D ps)) < 2 ^ 53 ->
    f64_dec_paths D (f64_enc_paths D ps) = Some (filter nonempty ps).
Proof. exact dec_enc_paths_f64. Qed.
Print Assumptions C17_dec_enc_paths_f64.

(* ConvertCPathsToPathsT on an array a CALLER built from the documented layout -- every path an entry, an
   empty one as [0; 0], A = number of elements, C = number of entries (the library's creators never write an
   empty entry): exactly those paths come back, the empty ones included, in order *)
Theorem C17_dec_hand_built :
  forall (E : Type) (ofc : Z -> E) (toc : E -> option Z) (ezero : E) (cmax : Z),
    (forall n, 0 <= n < cmax -> toc (ofc n) = Some n) ->
    forall (D : nat) (ps : cpaths E), (0 < D)%nat -> Forall (Forall (dims E D)) ps ->
      Z.of_nat (List.length (enc_paths_raw E ofc ezero ps)) < cmax ->
      dec_paths E toc D (enc_paths_raw E ofc ezero ps) = Some ps.
Proof. exact dec_enc_paths_raw. Qed.
Print Assumptions C17_dec_hand_built.

Theorem C17_dec_hand_built_i64 :
  forall (D : nat) (ps : cpaths Z), (0 < D)%nat -> Forall (Forall (dims Z D)) ps ->
    Z.of_nat (List.length (enc_paths_raw Z ofc_i64 0 ps)) < 2 ^ 63 ->
    i64_dec_paths D (enc_paths_raw Z ofc_i64 0 ps) = Some ps.
Proof. exact dec_hand_built_i64. Qed.
Print Assumptions C17_dec_hand_built_i64.

Theorem C17_dec_hand_built_f64 :
  forall (D : nat) (ps : cpaths Z), (0 < D)%nat -> Forall (Forall (dims Z D)) ps ->
    Z.of_nat (List.length (enc_paths_raw Z ofc_f64 0 ps)) < 2 ^ 53 ->
    f64_dec_paths D (enc_paths_raw Z ofc_f64 0 ps) = Some ps.
Proof. exact dec_hand_built_f64. Qed.
Print Assumptions C17_dec_hand_built_f64.

(* the caller-built array states its own length and entry count, and is the creator's array when no path is empty *)
Theorem C17_hand_built_len :
  forall (E : Type) (ofc : Z -> E) (ezero : E) (ps : cpaths E),
    nth_error (enc_paths_raw E ofc ezero ps) 0 = Some (ofc (Z.of_nat (List.length (enc_paths_raw E ofc ezero ps)))) /\
    nth_error (enc_paths_raw E ofc ezero ps) 1 = Some (ofc (Z.of_nat (List.length ps))).
Proof. exact enc_raw_len. Qed.
Print Assumptions C17_hand_built_len.

Theorem C17_hand_built_is_created :
  forall (E : Type) (ofc : Z -> E) (ezero : E) (D : nat) (ps : cpaths E),
    Forall (Forall (dims E D)) ps -> filter nonempty ps = ps ->
    enc_paths_raw E ofc ezero ps = enc_paths E ofc ezero D ps.
Proof. exact enc_raw_eq_enc. Qed.
Print Assumptions C17_hand_built_is_created.

(* CreateCPathsDFromPathsD / ...FromPaths64 answer nullptr for an empty set; nullptr decodes to the empty set *)
Theorem C17_dec_enc_paths_nullable :
  forall (E : Type) (ofc : Z -> E) (toc : E -> option Z) (ezero : E) (cmax : Z),
    (forall n, 0 <= n < cmax -> toc (ofc n) = Some n) ->
    forall (D : nat) (ps : cpaths E), (0 < D)%nat -> Forall (Forall (dims E D)) ps ->
      Z.of_nat (List.length (enc_paths E ofc ezero D ps)) < cmax ->
      dec_paths_opt E toc D (enc_paths_d E ofc ezero D ps) = Some (filter nonempty ps).
Proof. exact dec_enc_paths_d. Qed.
Print Assumptions C17_dec_enc_paths_nullable.

(* the first element is the number of elements written, the second the number of non-empty paths *)
Theorem C17_enc_len :
  forall (E : Type) (ofc : Z -> E) (ezero : E) (D : nat) (ps : cpaths E), Forall (Forall (dims E D)) ps ->
    nth_error (enc_paths E ofc ezero D ps) 0 = Some (ofc (Z.of_nat (List.length (enc_paths E ofc ezero D ps)))) /\
    nth_error (enc_paths E ofc ezero D ps) 1 = Some (ofc (Z.of_nat (List.length (filter nonempty ps)))).
Proof. exact enc_len. Qed.
Print Assumptions C17_enc_len.

Theorem C17_enc_len_i64 :
  forall (D : nat) (ps : cpaths Z), Forall (Forall (dims Z D)) ps ->
    hd 0 (i64_enc_paths D ps) = Z.of_nat (List.length (i64_enc_paths D ps)) /\
    nth 1 (i64_enc_paths D ps) 0 = Z.of_nat (List.length (filter nonempty ps)).
Proof. exact enc_len_i64. Qed.
Print Assumptions C17_enc_len_i64.

(* CreateCPathsFromPathsT as written (allocate GetPathCountAndCPathsArrayLen elements, write through a cursor
   with bounds-checked writes): no write leaves the allocation, the cursor ends exactly at its end (every
   element is initialised) and the buffer is the documented layout; the check is not vacuous *)
Theorem C17_enc_writes_in_bounds :
  forall (E : Type) (ofc : Z -> E) (ezero : E) (D : nat) (ps : cpaths E), Forall (Forall (dims E D)) ps ->
    enc_paths_buf E ofc ezero D ps = Some (enc_paths E ofc ezero D ps, List.length (enc_paths E ofc ezero D ps)).
Proof. exact enc_paths_buf_ok. Qed.
Print Assumptions C17_enc_writes_in_bounds.

Theorem C17_enc_short_alloc_fails :
  forall (E : Type) (ofc : Z -> E) (ezero : E) (D : nat) (ps : cpaths E) (n : nat),
    (n < List.length (enc_paths E ofc ezero D ps))%nat ->
    put_all E (repeat ezero n, O) (enc_paths E ofc ezero D ps) = None.
Proof. exact enc_paths_short_alloc_fails. Qed.
Print Assumptions C17_enc_short_alloc_fails.

(* every read of ConvertCPathsToPathsT on an encoder output is below the stated length: the decoder whose
   reads are all bounds-checked against the array's first element does not fail; and a successful checked read
   is in bounds by construction *)
Theorem C17_dec_in_bounds :
  forall (E : Type) (ofc : Z -> E) (toc : E -> option Z) (ezero : E) (cmax : Z),
    (forall n, 0 <= n < cmax -> toc (ofc n) = Some n) ->
    forall (D : nat) (ps : cpaths E), (0 < D)%nat -> Forall (Forall (dims E D)) ps ->
      Z.of_nat (List.length (enc_paths E ofc ezero D ps)) < cmax ->
      dec_paths E toc D (enc_paths E ofc ezero D ps) <> None.
Proof. exact dec_enc_paths_in_bounds. Qed.
Print Assumptions C17_dec_in_bounds.

Theorem C17_checked_read :
  forall (E : Type) (a : list E) (lim i : nat) (x : E),
    rd E a lim i = Some x -> (i < lim)%nat /\ nth_error a i = Some x.
Proof. exact rd_some. Qed.
Print Assumptions C17_checked_read.

(* ConvertCPathToPathT on the documented CPath layout [N; 0; vertices] *)
Theorem C17_dec_enc_path :
  forall (E : Type) (ofc : Z -> E) (toc : E -> option Z) (ezero : E) (cmax : Z),
    (forall n, 0 <= n < cmax -> toc (ofc n) = Some n) ->
    forall (D : nat) (p : cpath E), (0 < D)%nat -> Forall (dims E D) p ->
      Z.of_nat (List.length (enc_path E ofc ezero p)) < cmax ->
      dec_path E toc D (enc_path E ofc ezero p) = Some p.
Proof. exact dec_enc_path. Qed.
Print Assumptions C17_dec_enc_path.

(* polytrees (root without polygon, as every PolyTree64/D): round trip, stated length, writes *)
Theorem C17_dec_enc_tree :
  forall (E : Type) (ofc : Z -> E) (toc : E -> option Z) (cmax : Z),
    (forall n, 0 <= n < cmax -> toc (ofc n) = Some n) ->
    forall (D : nat) (ch : list (ptree E)), (0 < D)%nat -> Forall (tdims E D) ch ->
      (forall a, enc_tree E ofc D (PNode [] ch) = Some a -> Z.of_nat (List.length a) < cmax) ->
      dec_tree_opt E toc D (enc_tree E ofc D (PNode [] ch)) = Some (PNode [] ch).
Proof. exact dec_enc_tree_opt. Qed.
Print Assumptions C17_dec_enc_tree.

Theorem C17_tree_len :
  forall (E : Type) (ofc : Z -> E) (D : nat) (ch : list (ptree E)) (a : list E),
    Forall (tdims E D) ch -> enc_tree E ofc D (PNode [] ch) = Some a ->
    nth_error a 0 = Some (ofc (Z.of_nat (List.length a))) /\ nth_error a 1 = Some (ofc (Z.of_nat (List.length ch))).
Proof. exact tree_len. Qed.
Print Assumptions C17_tree_len.

Theorem C17_tree_writes_in_bounds :
  forall (E : Type) (ofc : Z -> E) (ezero : E) (D : nat) (ch : list (ptree E)), Forall (tdims E D) ch ->
    enc_tree_buf E ofc ezero D (PNode [] ch) =
      Some (match enc_tree E ofc D (PNode [] ch) with Some a => Some (a, List.length a) | None => None end).
Proof. exact enc_tree_buf_ok. Qed.
Print Assumptions C17_tree_writes_in_bounds.

(* forwarding, over the table translated from the current clipper.export.h (plain and USINGZ) *)
Theorem C17_forwarding : forallb fwd_ok Gen_export.table = true.
Proof. exact fwd_table. Qed.
Print Assumptions C17_forwarding.

Theorem C17_forwarding_all : forallb fwd_ok (Gen_export.table ++ Gen_export.table_z) = true.
Proof. exact fwd_all. Qed.
Print Assumptions C17_forwarding_all.

(* USINGZ: the Z callback registered through SetZCallback64 / SetZCallbackD (two header-level globals) is handed to
   SetZCallback of the clipper each boolean export executes, in front of Execute; see Export.zcb_failures *)
Theorem C17_zcallback_forwarded :
  forallb (zcb_ok true) Gen_export.table_z = true /\ forallb (zcb_ok false) Gen_export.table = true.
Proof. exact zcb_all. Qed.
Print Assumptions C17_zcallback_forwarded.

Theorem C17_zcallback_constrained :
  map f_name (filter (fun f => match zcb_family (f_name f) with Some _ => true | None => false end) Gen_export.table_z) =
    ["BooleanOp64"; "BooleanOpD"; "BooleanOp_PolyTree64"; "BooleanOp_PolyTreeD"]%string.
Proof. exact zcb_constrained. Qed.
Print Assumptions C17_zcallback_constrained.

Theorem C17_table_complete :
  map f_name table = map f_name table_z /\
  map f_name table =
    ["BooleanOp64"; "BooleanOpD"; "BooleanOp_PolyTree64"; "BooleanOp_PolyTreeD";
     "InflatePaths64"; "InflatePathsD"; "InflatePath64"; "InflatePathD";
     "RectClip64"; "RectClipD"; "RectClipLines64"; "RectClipLinesD";
     "MinkowskiSum64"; "MinkowskiDiff64"]%string.
Proof. exact table_names. Qed.
Print Assumptions C17_table_complete.

(* validation prologues: negative code <-> clip type > 4 or fill rule > 3 or precision outside [-8,8]
   (int functions); nullptr in the prologue <-> bad precision, null input or empty rectangle (pointer functions);
   see Export.codes_ok_at *)
Theorem C17_export_codes :
  Forall (fun f => forall en : penv, codes_ok_at f en = true) (Gen_export.table ++ Gen_export.table_z).
Proof. exact codes_all. Qed.
Print Assumptions C17_export_codes.
