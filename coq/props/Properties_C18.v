(* C18 -- geometric predicates are exact, measurements accurate.

   Integer predicates and GetSegmentIntersectPt: the theorems are about the definitions that cpp2v REGENERATES
   from clipper.core.h on every run (coq/gen/Gen_core.v): TriSign, Multiply, ProductsAreEqual and CrossProductSign
   on both preprocessor branches (_int128 / _portable), IsCollinear, GetSegmentIntersectPt_lo (default) and _hi
   (CLIPPER2_HI_PRECISION).  int64 values are unbounded Z with the range hypotheses [i64] / [diffs i64];
   uint64 arithmetic is wrapped explicitly; doubles are Coq's primitive binary64 floats.
   PointInPolygon and Area contain loops: the theorems are about the hand models coq/model/Pip.v (iterators as
   bounds-checked indices; PointInPolygon calls the regenerated CrossProduct), tied to the C++ by exact equality of
   results in checks/C18.py.  Specifications: coq/model/CoreSpec.v, coq/base/Winding.v, coq/base/Geom.v.

   Clauses of the property that are FALSE are proved as [_refuted] with witnesses the check replays on the
   compiled code:  the accuracy clause of GetSegmentIntersectPt at |coordinates| <= 2^40 (both variants), and,
   for the truncating default variant, the literal "within one unit" already at 2^25 (exceeded by < 2^-20). *)
From Coq Require Import ZArith List Bool Floats Reals.
From Clip Require Import base.Geom base.Winding base.FloatModel base.CSem gen.Gen_core
  model.CoreSpec model.Pip proofs.Core_int proofs.Core_float proofs.Core_isect proofs.Core_isect_acc proofs.Core_area
  proofs.Pip_walk proofs.Pip_loop.
From Flocq Require Import Core.Core IEEE754.BinarySingleNaN IEEE754.PrimFloat.
Import ListNotations.
Local Open Scope Z_scope.

(* ------------------------------------------------------------------ Multiply: the exact 128-bit product *)
Theorem C18_multiply :
  forall a b, 0 <= a < 2 ^ 64 -> 0 <= b < 2 ^ 64 ->
  u128_lo (Multiply a b) + 2 ^ 64 * u128_hi (Multiply a b) = a * b /\
  0 <= u128_lo (Multiply a b) < 2 ^ 64 /\ 0 <= u128_hi (Multiply a b) < 2 ^ 64.
Proof. exact multiply_exact. Qed.
Print Assumptions C18_multiply.

(* ------------------------------------------------------------------ ProductsAreEqual, all int64 arguments
   ([i64 z] := -2^63 <= z < 2^63).  Portable branch at INT64_MIN: std::abs(INT64_MIN) is formally undefined;
   the model (and two's complement hardware, exercised natively by the check) takes it to 2^63 as uint64_t. *)
Theorem C18_products_equal_int128 :
  forall a b c d, i64 a -> i64 b -> i64 c -> i64 d -> ProductsAreEqual_int128 a b c d = (a * b =? c * d).
Proof. exact products_equal_int128. Qed.
Print Assumptions C18_products_equal_int128.

Theorem C18_products_equal_portable :
  forall a b c d, i64 a -> i64 b -> i64 c -> i64 d -> ProductsAreEqual_portable a b c d = (a * b =? c * d).
Proof. exact products_equal_portable_closed. Qed.
Print Assumptions C18_products_equal_portable.

(* ------------------------------------------------------------------ CrossProductSign / IsCollinear: all points whose
   four coordinate differences are int64 values ([diffs i64 p q r]) *)
Theorem C18_cross_sign_int128 :
  forall p q r, diffs i64 p q r -> CrossProductSign_int128 p q r = Z.sgn (cross p q r).
Proof. exact cross_sign_int128. Qed.
Print Assumptions C18_cross_sign_int128.

Theorem C18_cross_sign_portable :
  forall p q r, diffs i64 p q r -> CrossProductSign_portable p q r = Z.sgn (cross p q r).
Proof. exact cross_sign_portable_closed. Qed.
Print Assumptions C18_cross_sign_portable.

Theorem C18_is_collinear :
  forall p s q, diffs i64 p s q -> IsCollinear p s q = (cross p s q =? 0).
Proof. exact is_collinear_exact. Qed.
Print Assumptions C18_is_collinear.

(* ------------------------------------------------------------------ PointInPolygon: on / inside / outside by the
   even-odd rule, exactly, for |coordinates| <= 2^25 and every polygon (>= 3 vertices) whose vertices are not all
   on the horizontal line through the query point (in particular: every polygon not contained in one horizontal
   line).  [pip_spec q p = if on_path p q then IsOn else if Z.odd (wn p q) then IsInside else IsOutside];
   in particular the model never fails (no out-of-bounds read, fuel suffices). *)
Theorem C18_pip_exact :
  forall q poly,
  (3 <= length poly)%nat -> pt_le (2 ^ 25) q -> Forall (pt_le (2 ^ 25)) poly -> all_y (py q) poly = false ->
  PointInPolygon q poly = pip_spec q poly.
Proof. exact pip_exact. Qed.
Print Assumptions C18_pip_exact.

(* ------------------------------------------------------------------ GetSegmentIntersectPt: parallelism exactly
   ([parallel a b c d] := dy1 * dx2 - dy2 * dx1 =? 0 over Z; coords_le B := all eight |coordinates| <= B) *)
Theorem C18_isect_parallel_exact_lo :
  forall a b c d ip, coords_le (2 ^ 25) a b c d ->
  fst (GetSegmentIntersectPt_lo a b c d ip) = negb (parallel a b c d).
Proof. exact isect_parallel_exact_lo. Qed.
Print Assumptions C18_isect_parallel_exact_lo.

Theorem C18_isect_parallel_exact_hi :
  forall a b c d ip, coords_le (2 ^ 25) a b c d ->
  fst (GetSegmentIntersectPt_hi a b c d ip) = negb (parallel a b c d).
Proof. exact isect_parallel_exact_hi. Qed.
Print Assumptions C18_isect_parallel_exact_hi.

(* ------------------------------------------------------------------ accuracy for |coordinates| <= 2^25, properly crossing
   segments: the result is inside the bounding box of the first segment and
     - CLIPPER2_HI_PRECISION variant: within one unit per axis of the exact crossing (the property's clause, literally;
       the whole clause [isect_ok]: parallelism exact, and this for properly crossing segments);
     - default variant: within 1 + 2^-20 per axis -- [_partial]: the literal bound 1 is false for it
       (C18_isect_accuracy_small_lo_refuted below: truncation of a value computed 2^-27 too low). *)
Theorem C18_isect_accuracy_small_hi :
  forall a b c d ip, coords_le (2 ^ 25) a b c d -> properly_cross a b c d = true ->
  let r := GetSegmentIntersectPt_hi a b c d ip in
  fst r = true /\ in_seg_box a b (snd r) = true /\ isect_within 1 1 a b c d (snd r) = true.
Proof. exact isect_accuracy_small_hi. Qed.
Print Assumptions C18_isect_accuracy_small_hi.

Theorem C18_isect_clause_small_hi :
  forall a b c d ip, coords_le (2 ^ 25) a b c d ->
  let r := GetSegmentIntersectPt_hi a b c d ip in
  isect_ok a b c d (fst r) (snd r) = true.
Proof. exact isect_ok_small_hi. Qed.
Print Assumptions C18_isect_clause_small_hi.

Theorem C18_isect_accuracy_small_lo_partial :
  forall a b c d ip, coords_le (2 ^ 25) a b c d -> properly_cross a b c d = true ->
  let r := GetSegmentIntersectPt_lo a b c d ip in
  fst r = true /\ in_seg_box a b (snd r) = true /\
  isect_within (2 ^ 20 + 1) (2 ^ 20) a b c d (snd r) = true.
Proof. exact isect_accuracy_small_lo. Qed.
Print Assumptions C18_isect_accuracy_small_lo_partial.

(* ------------------------------------------------------------------ the accuracy clause at 2^40 is false
   ([isect_within tn td a b c d ip]: ip within tn/td per axis of the exact crossing of the lines a-b, c-d) *)
Theorem C18_isect_accuracy_2p40_refuted :
  exists a b c d ip, coords_le (2 ^ 40) a b c d /\ properly_cross a b c d = true /\
    let r := GetSegmentIntersectPt_lo a b c d ip in
    fst r = false \/ isect_within 1 1 a b c d (snd r) = false.
Proof. exact isect_accuracy_2p40_refuted_lo. Qed.
Print Assumptions C18_isect_accuracy_2p40_refuted.

Theorem C18_isect_accuracy_2p40_hi_refuted :
  exists a b c d ip, coords_le (2 ^ 40) a b c d /\ properly_cross a b c d = true /\
    let r := GetSegmentIntersectPt_hi a b c d ip in
    fst r = false \/ isect_within 1 1 a b c d (snd r) = false.
Proof. exact isect_accuracy_2p40_refuted_hi. Qed.
Print Assumptions C18_isect_accuracy_2p40_hi_refuted.

(* the two failure modes, on the witnesses the check replays natively: properly crossing segments reported
   parallel, and a result more than 10^6 units from the crossing -- both variants *)
Theorem C18_isect_2p40_false_parallel_refuted :
  coords_le (2 ^ 40) w40_a w40_b w40_c w40_d /\ properly_cross w40_a w40_b w40_c w40_d = true /\
  fst (GetSegmentIntersectPt_lo w40_a w40_b w40_c w40_d (0, 0)) = false /\
  fst (GetSegmentIntersectPt_hi w40_a w40_b w40_c w40_d (0, 0)) = false.
Proof. exact isect_2p40_false_parallel. Qed.
Print Assumptions C18_isect_2p40_false_parallel_refuted.

Theorem C18_isect_2p40_far_refuted :
  coords_le (2 ^ 40) f40_a f40_b f40_c f40_d /\ properly_cross f40_a f40_b f40_c f40_d = true /\
  (let r := GetSegmentIntersectPt_lo f40_a f40_b f40_c f40_d (0, 0) in
   fst r = true /\ isect_within 1000000 1 f40_a f40_b f40_c f40_d (snd r) = false) /\
  (let r := GetSegmentIntersectPt_hi f40_a f40_b f40_c f40_d (0, 0) in
   fst r = true /\ isect_within 1000000 1 f40_a f40_b f40_c f40_d (snd r) = false).
Proof. exact isect_2p40_far. Qed.
Print Assumptions C18_isect_2p40_far_refuted.

(* the truncating variant exceeds one unit (by less than 2^-20) already at |coordinates| <= 2^25 *)
Theorem C18_isect_accuracy_small_lo_refuted :
  exists a b c d ip, coords_le (2 ^ 25) a b c d /\ properly_cross a b c d = true /\
    let r := GetSegmentIntersectPt_lo a b c d ip in
    fst r = true /\ isect_within 1 1 a b c d (snd r) = false /\
    isect_within (2 ^ 20 + 1) (2 ^ 20) a b c d (snd r) = true.
Proof. exact isect_accuracy_small_lo_refuted. Qed.
Print Assumptions C18_isect_accuracy_small_lo_refuted.

(* ------------------------------------------------------------------ Area: exactly half the shoelace sum while
   n * B^2 < 2^51 (every term and partial sum is an integer below 2^53); the model never fails *)
Theorem C18_area_exact :
  forall (p : path) (B : Z),
  0 <= B -> (forall v, In v p -> pt_le B v) -> Z.of_nat (length p) * (B * B) < 2 ^ 51 ->
  exists f, Area p = Some f /\
            BinarySingleNaN.is_finite (Prim2B f) = true /\
            (B2R (Prim2B f) = IZR (area2 p) / 2)%R.
Proof. exact area_exact. Qed.
Print Assumptions C18_area_exact.

Theorem C18_area_paths_exact :
  forall (ps : paths) (B : Z),
  0 <= B -> (forall p, In p ps -> forall v, In v p -> pt_le B v) ->
  Z.of_nat (length (concat ps)) * (B * B) < 2 ^ 51 ->
  exists f, AreaPaths ps = Some f /\
            BinarySingleNaN.is_finite (Prim2B f) = true /\
            (B2R (Prim2B f) = IZR (area2_paths ps) / 2)%R.
Proof. exact area_paths_exact. Qed.
Print Assumptions C18_area_paths_exact.
