(* C03 -- property theorems (statements only; proofs live in proofs/). *)
From Clip Require Import base.Geom base.Winding base.Dist model.RingFinal model.WfGeom proofs.WfGeom proofs.RingFinal.
From Coq Require Import ZArith List Bool Floats.
Import ListNotations.

(* Structural clause, for ALL raw rings and ALL behaviours of the double-precision leaves (SegmentsIntersect,
   GetSegmentIntersectPt, Area, AreaTriangle, DotProduct<0 are arbitrary functions here), any PreserveCollinear /
   ReverseSolution setting: every closed path that ring finalisation (CleanCollinear, FixSelfIntersects incl. the micro
   self-intersection branch, DoSplitOp, BuildPath64) emits for a raw ring -- the ring itself and everything split off
   it -- has at least three vertices and no two cyclically consecutive equal vertices.  The one hypothesis:
   SegmentsIntersect never reports an intersection for two segments that share an end point. *)
Theorem C03_structural :
  forall (seg_isect : pt -> pt -> pt -> pt -> bool) (isect_pt : pt -> pt -> pt -> pt -> pt)
         (area_ring : list pt -> float) (area_tri : pt -> pt -> pt -> float),
  (forall a b c d, seg_isect a b c d = true -> a <> c /\ a <> d /\ b <> c /\ b <> d) ->
  forall (dot_neg : pt -> pt -> pt -> bool) (pc rev : bool) (fuel : nat) (ring : list pt) (out : list path),
  finalize seg_isect isect_pt area_ring area_tri dot_neg pc rev fuel ring = Some out ->
  Forall (fun p => (3 <= length p)%nat /\ no_cyc_dup p = true) out.
Proof. exact finalize_structural. Qed.
Print Assumptions C03_structural.

(* The same for BuildPaths64 over a whole outrec_list_ (open and closed OutRecs, split-off OutRecs appended). *)
Theorem C03_structural_all_rings :
  forall (seg_isect : pt -> pt -> pt -> pt -> bool) (isect_pt : pt -> pt -> pt -> pt -> pt)
         (area_ring : list pt -> float) (area_tri : pt -> pt -> pt -> float),
  (forall a b c d, seg_isect a b c d = true -> a <> c /\ a <> d /\ b <> c /\ b <> d) ->
  forall (dot_neg : pt -> pt -> pt -> bool) (pc rev : bool) (fuel : nat) (rings : list (bool * list pt)) (closed opened : list path),
  build_paths seg_isect isect_pt area_ring area_tri dot_neg pc rev fuel rings = Ok (closed, opened) ->
  Forall (fun p => (3 <= length p)%nat /\ no_cyc_dup p = true) closed.
Proof. exact build_paths_structural. Qed.
Print Assumptions C03_structural_all_rings.

(* Without the hypothesis on SegmentsIntersect the statement is false of the model: a leaf that reports an intersection
   for segments sharing an end point makes DoSplitOp/BuildPath64 emit a path whose first and last vertex are equal. *)
Theorem C03_structural_without_leaf_hypothesis_refuted :
  exists seg_isect isect_pt area_ring area_tri dot_neg pc rev fuel ring out,
    finalize seg_isect isect_pt area_ring area_tri dot_neg pc rev fuel ring = Some out /\
    ~ Forall (fun p => (3 <= length p)%nat /\ no_cyc_dup p = true) out.
Proof. exact structural_needs_leaf_hypothesis. Qed.
Print Assumptions C03_structural_without_leaf_hypothesis_refuted.

(* CleanCollinear's for(;;) loop terminates: with fuel above n^2 + n - k (n nodes, k nodes accepted since the last
   removal) the model neither runs out of fuel nor reaches the undefined-behaviour state.
   Partial: termination of FixSelfIntersects (whose micro self-intersection branch makes the ring grow) is not proved;
   the correspondence runs report a FUEL answer of the model as a tie break. *)
Theorem C03_clean_collinear_terminates_partial :
  forall (dot_neg : pt -> pt -> pt -> bool) (pc : bool) (fuel : nat) (l : list pt) (p k : nat),
  (k < length l)%nat -> (length l * length l + length l - k < fuel)%nat ->
  clean_loop dot_neg pc fuel l p k <> Fuel /\ clean_loop dot_neg pc fuel l p k <> UB.
Proof. exact clean_loop_terminates. Qed.
Print Assumptions C03_clean_collinear_terminates_partial.

(* The structural checker run on every solution of the validation stream decides the structural clause. *)
Theorem C03_struct_check_sound : forall out, struct_check out = [] ->
  Forall (fun p => (3 <= length p)%nat /\ no_cyc_dup p = true) out.
Proof. exact struct_check_sound. Qed.
Print Assumptions C03_struct_check_sound.
