(* C03 -- property theorems (statements only; proofs live in proofs/). *)
From Clip Require Import base.Geom base.Winding base.Dist model.RingFinal model.WfGeom proofs.WfGeom.
From Coq Require Import ZArith List Bool.
Import ListNotations.

(* The structural checker run on every solution of the validation stream decides the structural clause. *)
Theorem C03_struct_check_sound : forall out, struct_check out = [] ->
  Forall (fun p => (3 <= length p)%nat /\ no_cyc_dup p = true) out.
Proof. exact struct_check_sound. Qed.
Print Assumptions C03_struct_check_sound.
