(* C03 -- property theorems (statements only; proofs live in proofs/). *)
From Clip Require Import base.Geom base.Winding base.Dist model.RingFinal model.WfGeom proofs.WfGeom proofs.RingFinal.
From Coq Require Import ZArith List Bool Floats.
Import ListNotations.

(* Structural clause, for ALL raw rings and ALL behaviours of the double-precision leaves (SegmentsIntersect,
   GetSegmentIntersectPt, Area, AreaTriangle, DotProduct<0 are arbitrary functions here), any PreserveCollinear /
   ReverseSolution setting: every closed path that ring finalisation (CleanCollinear, FixSelfIntersects incl. the micro
   self-intersection branch, DoSplitOp, BuildPath64) emits for a raw ring -- the ring itself and everything split off
   it -- has at least three vertices and no two cyclically consecutive equal vertices.  The one hypothesis:
   SegmentsIntersect never reports an intersection for two segments that share an end point. *)
Theorem C03_structural :
  forall (seg_isect : pt -> pt -> pt -> pt -> bool) (isect_pt : pt -> pt -> pt -> pt -> pt)
         (area_ring : list pt -> float) (area_tri : pt -> pt -> pt -> float),
  (forall a b c d, seg_isect a b c d = true -> a <> c /\ a <> d /\ b <> c /\ b <> d) ->
  forall (dot_neg : pt -> pt -> pt -> bool) (pc rev : bool) (fuel : nat) (ring : list pt) (out : list path),
  finalize seg_isect isect_pt area_ring area_tri dot_neg pc rev fuel ring = Some out ->
  Forall (fun p => (3 <= length p)%nat /\ no_cyc_dup p = true) out.
Proof. exact finalize_structural. Qed.
Print Assumptions C03_structural.

(* The same for BuildPaths64 over a whole outrec_list_ (open and closed OutRecs, split-off OutRecs appended). *)
Theorem C03_structural_all_rings :
  forall (seg_isect : pt -> pt -> pt -> pt -> bool) (isect_pt : pt -> pt -> pt -> pt -> pt)
         (area_ring : list pt -> float) (area_tri : pt -> pt -> pt -> float),
  (forall a b c d, seg_isect a b c d = true -> a <> c /\ a <> d /\ b <> c /\ b <> d) ->
  forall (dot_neg : pt -> pt -> pt -> bool) (pc rev : bool) (fuel : nat) (rings : list (bool * list pt)) (closed opened : list path),
  build_paths seg_isect isect_pt area_ring area_tri dot_neg pc rev fuel rings = Ok (closed, opened) ->
  Forall (fun p => (3 <= length p)%nat /\ no_cyc_dup p = true) closed.
Proof. exact build_paths_structural. Qed.
Print Assumptions C03_structural_all_rings.

(* Without the hypothesis on SegmentsIntersect the statement is false of the model: a leaf that reports an intersection
   for segments sharing an end point makes DoSplitOp/BuildPath64 emit a path whose first and last vertex are equal. *)
Theorem C03_structural_without_leaf_hypothesis_refuted :
  exists seg_isect isect_pt area_ring area_tri dot_neg pc rev fuel ring out,
    finalize seg_isect isect_pt area_ring area_tri dot_neg pc rev fuel ring = Some out /\
    ~ Forall (fun p => (3 <= length p)%nat /\ no_cyc_dup p = true) out.
Proof. exact structural_needs_leaf_hypothesis. Qed.
Print Assumptions C03_structural_without_leaf_hypothesis_refuted.

(* CleanCollinear's for(;;) loop terminates: with fuel above n^2 + n - k (n nodes, k nodes accepted since the last
   removal) the model neither runs out of fuel nor reaches the undefined-behaviour state.
   Partial: termination of FixSelfIntersects (whose micro self-intersection branch makes the ring grow) is not proved;
   the correspondence runs report a FUEL answer of the model as a tie break. *)
Theorem C03_clean_collinear_terminates_partial :
  forall (dot_neg : pt -> pt -> pt -> bool) (pc : bool) (fuel : nat) (l : list pt) (p k : nat),
  (k < length l)%nat -> (length l * length l + length l - k < fuel)%nat ->
  clean_loop dot_neg pc fuel l p k <> Fuel /\ clean_loop dot_neg pc fuel l p k <> UB.
Proof. exact clean_loop_terminates. Qed.
Print Assumptions C03_clean_collinear_terminates_partial.

(* The structural checker run on every solution of the validation stream decides the structural clause. *)
Theorem C03_struct_check_sound : forall out, struct_check out = [] ->
  Forall (fun p => (3 <= length p)%nat /\ no_cyc_dup p = true) out.
Proof. exact struct_check_sound. Qed.
Print Assumptions C03_struct_check_sound.

(* ------------------------------------------------------------------ bounding box clause: the leaf functions
   "(for coordinates up to 2^52) every solution vertex lies inside the bounding box of the inputs": a solution vertex is
   an input vertex or a coordinate / point produced by one of three leaf functions -- TopX (x of an edge at a scanline),
   GetClosestPointOnSegment, GetSegmentIntersectPt -- from input-derived edges.  The theorems below are about the
   definitions REGENERATED from the C++ by cpp2v (coq/gen/Gen_engine.v, coq/gen/Gen_core.v); proofs in
   proofs/Core_bbox.v (binary64 monotonicity / error arguments, Flocq).  [pt_le B p] := |p.x| <= B /\ |p.y| <= B;
   [in_seg_box a b p] := p in the bounding box of a, b; [coords_le B a b c d] := all four points pt_le B. *)
From Clip Require Import base.FloatModel base.CSem gen.Gen_core gen.Gen_engine model.CoreSpec proofs.Core_isect proofs.Core_bbox.
Local Open Scope Z_scope.

(* TopX: for |coordinates| <= 2^52 (the property's bound) and a scanline between the end points of the edge, the
   result lies between the abscissae of the end points.  Horizontal edges need no exclusion: there the scanline
   equals top.y and the first early return answers; dx = +-DBL_MAX is never multiplied. *)
Theorem C03_topx_in_bbox :
  forall (ae : Active) (currentY : Z),
  dx ae = GetDx (bot ae) (top ae) -> pt_le (2 ^ 52) (bot ae) -> pt_le (2 ^ 52) (top ae) ->
  (py (top ae) <= currentY <= py (bot ae) \/ py (bot ae) <= currentY <= py (top ae)) ->
  Z.min (px (bot ae)) (px (top ae)) <= TopX ae currentY <= Z.max (px (bot ae)) (px (top ae)).
Proof. exact topx_in_bbox. Qed.
Print Assumptions C03_topx_in_bbox.

(* GetClosestPointOnSegment: for |coordinates| <= 2^52 the result lies in the bounding box of the segment *)
Theorem C03_closest_point_in_bbox :
  forall offPt seg1 seg2,
  pt_le (2 ^ 52) offPt -> pt_le (2 ^ 52) seg1 -> pt_le (2 ^ 52) seg2 ->
  in_seg_box seg1 seg2 (GetClosestPointOnSegment offPt seg1 seg2) = true.
Proof. exact closest_point_in_bbox. Qed.
Print Assumptions C03_closest_point_in_bbox.

(* GetClosestPointOnSegment ("every vertex is within 2 units of an input edge": the out-of-scanbeam repair of
   AddNewIntersectNode snaps the intersection point onto a nearly horizontal edge with it): for |coordinates| <= 2^25 the
   result is, per axis, within 1/2 + 2^-25 of the exact orthogonal projection of offPt onto the segment (parameter
   clamped to [0,1]) -- hence less than one unit from the segment -- and the end points are fixed. *)
From Coq Require Import Reals.
From Clip Require Import proofs.Core_closest.
Theorem C03_closest_point_accuracy_small :
  forall offPt seg1 seg2,
  pt_le (2 ^ 25) offPt -> pt_le (2 ^ 25) seg1 -> pt_le (2 ^ 25) seg2 ->
  (px seg1 =? px seg2)%Z && (py seg1 =? py seg2)%Z = false ->
  let r := GetClosestPointOnSegment offPt seg1 seg2 in
  let t := proj_t offPt seg1 seg2 in
  (Rabs (IZR (px r) - (IZR (px seg1) + t * IZR (px seg2 - px seg1))) <= / 2 + / IZR (2 ^ 25))%R /\
  (Rabs (IZR (py r) - (IZR (py seg1) + t * IZR (py seg2 - py seg1))) <= / 2 + / IZR (2 ^ 25))%R.
Proof. exact closest_point_accuracy_small. Qed.
Print Assumptions C03_closest_point_accuracy_small.

Theorem C03_closest_point_near_segment :
  forall offPt seg1 seg2,
  pt_le (2 ^ 25) offPt -> pt_le (2 ^ 25) seg1 -> pt_le (2 ^ 25) seg2 ->
  (px seg1 =? px seg2)%Z && (py seg1 =? py seg2)%Z = false ->
  let r := GetClosestPointOnSegment offPt seg1 seg2 in
  exists t : R, (0 <= t <= 1)%R /\
    (Rabs (IZR (px r) - (IZR (px seg1) + t * IZR (px seg2 - px seg1))) <= / 2 + / IZR (2 ^ 25))%R /\
    (Rabs (IZR (py r) - (IZR (py seg1) + t * IZR (py seg2 - py seg1))) <= / 2 + / IZR (2 ^ 25))%R.
Proof. exact closest_point_near_segment. Qed.
Print Assumptions C03_closest_point_near_segment.

Theorem C03_closest_point_fixes_ends :
  forall seg1 seg2, pt_le (2 ^ 25) seg1 -> pt_le (2 ^ 25) seg2 ->
  GetClosestPointOnSegment seg1 seg1 seg2 = seg1 /\ GetClosestPointOnSegment seg2 seg1 seg2 = seg2.
Proof. intros s1 s2 B1 B2. split; [exact (closest_point_fixes_seg1 s1 s2 B1 B2)|exact (closest_point_fixes_seg2 s1 s2 B1 B2)]. Qed.
Print Assumptions C03_closest_point_fixes_ends.

(* TopX (the abscissa of an edge at a scanline; every vertex the sweep creates at a scanline gets its x from it): for
   |coordinates| <= 2^25 and a non-horizontal edge it is within 1/2 + 2^-25 of the exact abscissa of the edge's line *)
Theorem C03_topx_accuracy_small :
  forall (ae : Active) (currentY : Z),
  dx ae = GetDx (bot ae) (top ae) ->
  pt_le (2 ^ 25) (bot ae) -> pt_le (2 ^ 25) (top ae) ->
  py (top ae) <> py (bot ae) ->
  (py (top ae) <= currentY <= py (bot ae) \/ py (bot ae) <= currentY <= py (top ae))%Z ->
  (Rabs (IZR (TopX ae currentY) -
         (IZR (px (bot ae)) + IZR (px (top ae) - px (bot ae)) / IZR (py (top ae) - py (bot ae)) * IZR (currentY - py (bot ae))))
   <= / 2 + / IZR (2 ^ 25))%R.
Proof. exact topx_accuracy_small. Qed.
Print Assumptions C03_topx_accuracy_small.

(* AddNewIntersectNode's out-of-scanbeam repair (model/IsectNode.v: the branch structure over the regenerated leaves,
   tied to the real member function by exact correspondence): whenever the repair fires the stored point is, per axis,
   within 1/2 + 2^-25 of a point of one of the two edges (|coordinates| <= 2^25), in every one of the six branches; in
   the clamp branches it lies on the top or bottom scanline of the scanbeam. *)
From Clip Require Import model.IsectNode proofs.IsectNode.
Theorem C03_repaired_near_edge :
  forall (e1 e2 : Active) (bot_y top_y : Z) (ip : pt),
  edge_ok e1 -> edge_ok e2 -> pt_le (2 ^ 25) ip ->
  (py (top e1) <= top_y -> py (top e2) <= top_y -> top_y <= bot_y -> bot_y <= py (bot e1) -> bot_y <= py (bot e2) ->
  repair_kind e1 e2 bot_y top_y ip <> NoRepair ->
  let r := apply_repair e1 e2 bot_y top_y ip (repair_kind e1 e2 bot_y top_y ip) in
  near_edge e1 r \/ near_edge e2 r)%Z.
Proof. exact repaired_near_edge. Qed.
Print Assumptions C03_repaired_near_edge.

Theorem C03_repaired_clamp_in_scanbeam :
  forall (e1 e2 : Active) (bot_y top_y : Z) (ip : pt) to_top first,
  (top_y <= bot_y)%Z -> repair_kind e1 e2 bot_y top_y ip = Clamp to_top first ->
  (top_y <= py (apply_repair e1 e2 bot_y top_y ip (Clamp to_top first)) <= bot_y)%Z.
Proof. exact repaired_clamp_in_scanbeam. Qed.
Print Assumptions C03_repaired_clamp_in_scanbeam.

Theorem C03_intersect_node_repaired_near_edge :
  forall (e1 e2 : Active) (bot_y top_y : Z),
  edge_ok e1 -> edge_ok e2 -> (Z.abs (curr_x e1) <= 2 ^ 25)%Z ->
  (py (top e1) <= top_y -> py (top e2) <= top_y -> top_y <= bot_y -> bot_y <= py (bot e1) -> bot_y <= py (bot e2) ->
  repair_kind e1 e2 bot_y top_y (raw_ip false e1 e2 top_y) <> NoRepair ->
  near_edge e1 (add_new_intersect_node false e1 e2 bot_y top_y) \/
  near_edge e2 (add_new_intersect_node false e1 e2 bot_y top_y))%Z.
Proof. exact ani_lo_repaired_near_edge. Qed.
Print Assumptions C03_intersect_node_repaired_near_edge.

(* GetSegmentIntersectPt, default (truncating) variant: for |coordinates| <= 2^52 and ANY two segments, whenever it
   returns true the point lies in the bounding box of the first segment (t is clamped to [0,1], roundings are monotone) *)
Theorem C03_isect_in_bbox :
  forall a b c d ip,
  coords_le (2 ^ 52) a b c d -> fst (GetSegmentIntersectPt_lo a b c d ip) = true ->
  in_seg_box a b (snd (GetSegmentIntersectPt_lo a b c d ip)) = true.
Proof. exact isect_lo_in_box. Qed.
Print Assumptions C03_isect_in_bbox.

(* All leaves.  Partial: (1) the CLIPPER2_HI_PRECISION variant of GetSegmentIntersectPt only for properly crossing
   segments with |coordinates| <= 2^25 instead of 2^52 -- it does not clamp, and beyond 2^25 its determinant is inexact
   and the result can leave the box (C18 known finding isect.inaccurate.hi.gt2p25); the default build reaches 2^52 for
   all three leaves; (2) that every solution vertex is an input vertex or a result of these leaves on edges inside the
   input bounding box is validated by checks/C03.py, not proved. *)
Theorem C03_leaf_in_bbox_partial :
  (forall (ae : Active) (currentY : Z),
     dx ae = GetDx (bot ae) (top ae) -> pt_le (2 ^ 52) (bot ae) -> pt_le (2 ^ 52) (top ae) ->
     (py (top ae) <= currentY <= py (bot ae) \/ py (bot ae) <= currentY <= py (top ae)) ->
     Z.min (px (bot ae)) (px (top ae)) <= TopX ae currentY <= Z.max (px (bot ae)) (px (top ae))) /\
  (forall offPt seg1 seg2,
     pt_le (2 ^ 52) offPt -> pt_le (2 ^ 52) seg1 -> pt_le (2 ^ 52) seg2 ->
     in_seg_box seg1 seg2 (GetClosestPointOnSegment offPt seg1 seg2) = true) /\
  (forall a b c d ip,
     coords_le (2 ^ 52) a b c d -> fst (GetSegmentIntersectPt_lo a b c d ip) = true ->
     in_seg_box a b (snd (GetSegmentIntersectPt_lo a b c d ip)) = true) /\
  (forall a b c d ip,
     coords_le (2 ^ 25) a b c d -> properly_cross a b c d = true ->
     fst (GetSegmentIntersectPt_hi a b c d ip) = true /\ in_seg_box a b (snd (GetSegmentIntersectPt_hi a b c d ip)) = true).
Proof. exact leaf_in_bbox. Qed.
Print Assumptions C03_leaf_in_bbox_partial.
