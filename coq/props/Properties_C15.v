(* C15 — property theorems (statements only; proofs live in proofs/ZErase.v). *)
From Coq Require Import ZArith List.
From Clip Require Import base.Geom model.PathUtils model.ZErase proofs.ZErase.
Import ListNotations.
Local Open Scope Z_scope.

(* operator== of the USINGZ point ignores z *)
Theorem C15_eq_ignores_z : forall a b : pt3, point_eqb3 a b = pt_eqb (erase a) (erase b).
Proof. intros. reflexivity. Qed.
Print Assumptions C15_eq_ignores_z.

(* "a library built with USINGZ returns exactly the same x,y solution", on the modelled kernels: the kernels are
   written once, generically in the point type (model/ZErase.v, Section Gen) and instantiated for both builds;
   erasing z commutes with each of them, for ALL inputs and ALL z labels (error outcomes included: rmap maps
   ErrOOB/ErrFuel to themselves). *)
Theorem C15_erase_commutes_trim_collinear : forall p is_open,
  trim_collinear2 (map erase p) is_open = rmap (map erase) (trim_collinear_z p is_open).
Proof. exact trim_collinear_erase. Qed.
Print Assumptions C15_erase_commutes_trim_collinear.

Theorem C15_erase_commutes_strip_duplicates : forall p closed,
  strip_duplicates2 (map erase p) closed = rmap (map erase) (strip_duplicates_z p closed).
Proof. exact strip_duplicates_erase. Qed.
Print Assumptions C15_erase_commutes_strip_duplicates.

Theorem C15_erase_commutes_minkowski : forall sum pattern path closed,
  minkowski2 sum (map erase pattern) (map erase path) closed =
  rmap (map (map erase)) (minkowski_z sum pattern path closed).
Proof. exact minkowski_erase. Qed.
Print Assumptions C15_erase_commutes_minkowski.

Theorem C15_erase_commutes_translate : forall p dx dy,
  map erase (translate_path_z p dx dy) = map (fun v => (px v + dx, py v + dy)) (map erase p).
Proof. exact translate_path_erase. Qed.
Print Assumptions C15_erase_commutes_translate.

(* the generic statement behind them: ANY map between point types compatible with IsCollinear commutes with
   TrimCollinear (so the result cannot depend on anything IsCollinear does not see) *)
Theorem C15_trim_collinear_parametric :
  forall (P Q : Type) (f : P -> Q)
         (coll1 : P -> P -> P -> bool) (coll2 : Q -> Q -> Q -> bool),
  (forall a b c, coll2 (f a) (f b) (f c) = coll1 a b c) ->
  forall p is_open,
  g_trim_collinear coll2 (map f p) is_open = rmap (map f) (g_trim_collinear coll1 p is_open).
Proof. exact @trim_collinear_map. Qed.
Print Assumptions C15_trim_collinear_parametric.

(* ClipperBase::SetZ: with a callback installed, the z handed to the callback is that of the first coinciding edge
   end in the order (subject-first): own bot, own top, other bot, other top -- else DefaultZ; the callback receives
   the edges in that same order; without a callback the point is left untouched *)
Theorem C15_setz_priority : forall cb dz e1 e2 ip,
  set_z cb dz e1 e2 ip =
  match cb with
  | None => ip
  | Some f =>
      let '(a, b) := if negb (e_clip e1) then (e1, e2) else (e2, e1) in
      f (e_bot a) (e_top a) (e_bot b) (e_top b)
        (erase ip, first_match dz ip [e_bot a; e_top a; e_bot b; e_top b])
  end.
Proof. exact set_z_priority. Qed.
Print Assumptions C15_setz_priority.

(* ClipperBase::DoSplitOp (repair of a residual self-intersection of an output ring; reached only by inputs that are
   NOT in general position, see checks/C15.py): the callback is invoked once on the local ip before ip is used, so
   every vertex of the kept ring and of the split-off ring is a vertex of the ring before the call or THE point the
   callback returned; the two copies of that point (one per ring) are identical, z included; and a callback that
   leaves x,y alone does not change the x,y of the rings.  The geometric decisions are parameters of the model. *)
Theorem C15_split_vertices_accounted : forall cb prev split snext nn rest g kept newr,
  do_split_op_z cb (prev :: split :: snext :: nn :: rest) g = Some (kept, newr) ->
  forall v, In v (match kept with Some k => k | None => [] end ++ match newr with Some n => n | None => [] end) ->
  In v (prev :: split :: snext :: nn :: rest) \/ v = split_ip cb prev split snext nn g.
Proof. exact split_vertices_accounted. Qed.
Print Assumptions C15_split_vertices_accounted.

Theorem C15_split_same_point_both_rings : forall cb prev split snext nn rest g k n,
  do_split_op_z cb (prev :: split :: snext :: nn :: rest) g = Some (Some k, Some n) ->
  hd_error n = Some (split_ip cb prev split snext nn g) /\
  (length k = S (length (nn :: rest)) \/ nth_error k 1 = Some (split_ip cb prev split snext nn g)).
Proof. exact split_same_point_both_rings. Qed.
Print Assumptions C15_split_same_point_both_rings.

Theorem C15_split_erase : forall cb ring g,
  (forall f, cb = Some f -> forall a b c d p, erase (f a b c d p) = erase p) ->
  match do_split_op_z cb ring g, do_split_op_z None ring g with
  | Some (k, n), Some (k', n') => option_map (map erase) k = option_map (map erase) k' /\ option_map (map erase) n = option_map (map erase) n'
  | None, None => True
  | _, _ => False
  end.
Proof. exact split_erase. Qed.
Print Assumptions C15_split_erase.

(* partial: the engine, the offsetter and RectClip are not modelled with z; their x,y equality between the two
   builds and the completeness of SetZ call sites are validated by the two-build differential run and the
   Z-accounting monitor of checks/C15.py, not proved. *)
Definition C15_erasure_partial :=
  (C15_erase_commutes_trim_collinear, C15_erase_commutes_strip_duplicates, C15_erase_commutes_minkowski,
   C15_erase_commutes_translate, C15_setz_priority, C15_split_vertices_accounted, C15_split_same_point_both_rings,
   C15_split_erase).

Example C15_nonvacuous :
  let p := [mk3 0 0 5; mk3 5 0 6; mk3 10 0 7; mk3 10 10 8; mk3 0 10 9] in
  trim_collinear_z p false = Ok [mk3 0 0 5; mk3 10 0 7; mk3 10 10 8; mk3 0 10 9]
  /\ trim_collinear2 (map erase p) false = Ok [(0, 0); (10, 0); (10, 10); (0, 10)].
Proof. exact erase_nonvacuous. Qed.
