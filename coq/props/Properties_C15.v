From Clip Require Import base.Geom model.ZErase.
Theorem C15_eq_ignores_z : forall a b : pt3, point_eqb3 a b = pt_eqb (erase a) (erase b).
Proof. intros. reflexivity. Qed.
Print Assumptions C15_eq_ignores_z.
