(* C08 -- RectClip equals intersection with the rectangle, path by path.

   Three layers, all checked on every run:
   (A) theorems over the TRANSLATED leaf functions of clipper.rectclip.cpp (coq/gen/Gen_rect.v is regenerated from the
       source by cpp2v before this file is compiled): GetLocation, HeadingClockwise / GetAdjacentLocation / AreOpposites /
       IsClockwise, GetIntersection, GetSegmentIntersection;
   (B) theorems over the complete executable model model/RectClip.v of RectClip64 (Execute / ExecuteInternal / Add /
       AddCorner / CheckEdges / TidyEdges / GetPath), whose leaf functions are the translated ones and which is tied to the
       C++ by exact equality of every stage on every generated case (checks/C08.py);
   (C) soundness of the sample checker model/RectClipCheck.v with which the check decides the property on RectClip's output.

   NOT proved (validated by (C) on every generated case instead): the winding-number clause for all points -- that the
   corner insertion of ExecuteInternal and the splitting / rejoining of TidyEdges produce rings whose summed winding number
   is the input's inside the rectangle.  The one-unit accuracy of computed intersection points is proved for |coordinates| <= 2^25
   (C08_isect_on_rect) and validated beyond.  (GetSegmentIntersection projects the truncated point of GetSegmentIntersectPt onto
   the side since triage/C08-ip-onto-side.patch; before, it could be one unit off its side and the winding clause failed along
   that side -- the check still recognises that failure mode, key clip.ip-off-side.)

   Vocabulary (proofs/RectClipLeaf.v, proofs/RectLines.v, proofs/RectClipCheck.v):
     on_side r p loc      p lies on the closed side of r that the code loc names (Left: x = left /\ top <= y <= bottom, ...)
     off_region r p loc   p is off the boundary and loc is its region (Left: x < left; Right: left <= x /\ right < x;
                          Top: left <= x <= right /\ y < top; Bottom: .. /\ bottom < y; Inside: strictly inside)
     in_rect r v          left <= x <= right /\ top <= y <= bottom;   within r s v: the same with every side moved out by s
     cseg_at path i a b   a, b are the end points of the input edge ending at path[i] (path[highI] -> path[0] for i = 0)
     tags                 SV i copy of path[i]; SC k rect_as_path_[k]; SI i returned (result true) by GetIntersection for the
                          edge ending at path[i]; SX is never produced (it tagged the ip2 that ExecuteInternal used to add
                          although the second GetIntersection call of a pass-through had returned false) *)
From Clip Require Import base.Geom base.FloatModel base.Winding base.Dist base.CSem gen.Gen_core gen.Gen_rect
  model.RectLeaf model.RectLines model.RectClip model.RectClipCheck.
From Clip Require Import proofs.RectLines proofs.RectClip proofs.RectClipCheck.
From Clip Require proofs.RectClipLeaf proofs.RectClipIsect proofs.RectFloat.
From Coq Require Import ZArith List Bool.
Local Open Scope Z_scope.

(* ================================================================ (A) translated leaf functions *)

(* GetLocation: the boolean result is false iff the point is on the rectangle boundary, and then loc names the side it is
   on; otherwise loc is the region of the point.  No hypothesis on the rectangle. *)
Theorem C08_location_partition :
  forall (r : Rect64) (p : pt) (l0 : Z) (onb : bool) (loc : Z),
  GetLocation r p l0 = (onb, loc) ->
  (onb = false <-> RectClipLeaf.on_boundary r p)
  /\ (onb = false -> RectClipLeaf.on_side r p loc)
  /\ (onb = true -> RectClipLeaf.off_region r p loc).
Proof. exact RectClipLeaf.location_partition. Qed.
Print Assumptions C08_location_partition.

(* the Z/4 structure of the four side codes Left = 0, Top = 1, Right = 2, Bottom = 3 that the state machine assumes
   (decided by computation over the 4 x 4 codes; adjz = GetAdjacentLocation, iter_adj k = k steps) *)
Theorem C08_loc_group :
  forall a b : Z, In a RectClipLeaf.sides -> In b RectClipLeaf.sides ->
  (forall cw, In (GetAdjacentLocation a cw) RectClipLeaf.sides)
  /\ GetAdjacentLocation (GetAdjacentLocation a true) false = a
  /\ GetAdjacentLocation (GetAdjacentLocation a false) true = a
  /\ (forall cw, RectClipLeaf.iter_adj 4 a cw = a)
  /\ (HeadingClockwise a b = true <-> b = GetAdjacentLocation a true)
  /\ (HeadingClockwise b a = true <-> b = GetAdjacentLocation a false)
  /\ (AreOpposites a b = true <-> b = GetAdjacentLocation (GetAdjacentLocation a true) true)
  /\ (AreOpposites a b = true <-> b = GetAdjacentLocation (GetAdjacentLocation a false) false)
  /\ AreOpposites a b = AreOpposites b a
  /\ Z.b2z (a =? b) + Z.b2z (HeadingClockwise a b) + Z.b2z (HeadingClockwise b a) + Z.b2z (AreOpposites a b) = 1
  /\ (forall cw, exists k, (k <= 3)%nat /\ RectClipLeaf.iter_adj k a cw = b)
  /\ (forall p q m, AreOpposites a b = false -> a <> b -> GetAdjacentLocation a (IsClockwise a b p q m) = b).
Proof. exact RectClipLeaf.loc_group. Qed.
Print Assumptions C08_loc_group.

(* GetIntersection: a true result names a side, and the point is what GetSegmentIntersection returned (true) for exactly
   that side of rect_as_path_ (side_of: Left 0-3, Top 0-1, Right 1-2, Bottom 2-3) *)
Theorem C08_intersection_names_side :
  forall rp p p2 loc ip loc' q,
  GetIntersection rp p p2 loc ip = (true, loc', q) ->
  In loc' RectClipLeaf.sides
  /\ exists ip0, GetSegmentIntersection p p2 (fst (RectClipLeaf.side_of rp loc')) (snd (RectClipLeaf.side_of rp loc')) ip0 = (true, q).
Proof. exact RectClipLeaf.gi_true_side. Qed.
Print Assumptions C08_intersection_names_side.

(* GetSegmentIntersection against an axis-parallel side p3-p4 for |coordinates| <= 2^25 (small_pt), where the four binary64
   cross products are exact: a true result is an end point lying EXACTLY on both closed segments (on_seg: collinear and inside
   the bounding box), or the segments cross properly and the point is the one GetSegmentIntersectPt computes -- projected onto the
   side (project_on_side: perpendicular coordinate := the side's, the other clamped to the side's extent; as it was computed in
   the code before triage/C08-ip-onto-side.patch).  The proof accepts either form of the translated definition.
   (How far q0 is from the side: next theorem.) *)
Theorem C08_isect_on_rect_cases :
  forall p1 p2 p3 p4 ip q,
  RectFloat.small_pt p1 -> RectFloat.small_pt p2 -> RectFloat.small_pt p3 -> RectFloat.small_pt p4 ->
  RectClipLeaf.axis_side p3 p4 ->
  GetSegmentIntersection p1 p2 p3 p4 ip = (true, q) ->
  (on_seg q (p3, p4) = true /\ on_seg q (p1, p2) = true /\ (q = p1 \/ q = p2 \/ q = p3 \/ q = p4))
  \/ ((cross p1 p3 p4 * cross p2 p3 p4 < 0 /\ cross p3 p1 p2 * cross p4 p1 p2 < 0)
      /\ exists q0, GetSegmentIntersectPt_lo p1 p2 p3 p4 ip = (true, q0)
                    /\ (q = q0 \/ q = RectClipLeaf.project_on_side p3 p4 q0)).
Proof. exact RectClipLeaf.gsi_on_rect_partial. Qed.
Print Assumptions C08_isect_on_rect_cases.

(* ... and in every case the point is within ONE unit of the side: its perpendicular coordinate is within 1 of the side's line and
   the other one within [min - 1, max + 1] of the side's extent.  Uses the accuracy theorem for GetSegmentIntersectPt proved for
   C18 (proofs/Core_isect_acc.v, binary64 error analysis with Flocq: within 1 + 2^-20 per axis of the exact crossing, whose
   perpendicular coordinate is an integer here).  The bound 2^25 is the one under which det, the numerator of t and the four
   cross products are exact; beyond it the clause is validated only. *)
Theorem C08_isect_on_rect :
  forall p1 p2 p3 p4 ip q,
  RectFloat.small_pt p1 -> RectFloat.small_pt p2 -> RectFloat.small_pt p3 -> RectFloat.small_pt p4 ->
  RectClipLeaf.axis_side p3 p4 ->
  GetSegmentIntersection p1 p2 p3 p4 ip = (true, q) ->
  (px p3 = px p4 -> Z.abs (px q - px p3) <= 1 /\ Z.min (py p3) (py p4) - 1 <= py q <= Z.max (py p3) (py p4) + 1)
  /\ (py p3 = py p4 -> Z.abs (py q - py p3) <= 1 /\ Z.min (px p3) (px p4) - 1 <= px q <= Z.max (px p3) (px p4) + 1).
Proof. exact RectClipIsect.gsi_on_rect. Qed.
Print Assumptions C08_isect_on_rect.

(* ================================================================ (B) the model of RectClip64 *)

(* bounds shortcuts: a polygon (>= 3 vertices) with every vertex in the closed rectangle is returned unchanged; a polygon whose
   vertices all lie strictly beyond one side is dropped.  (rect_i64 / pt_i64: the coordinates are int64 values.) *)
Theorem C08_shortcuts :
  forall r path,
  rect_is_empty r = false -> rect_i64 r -> (forall v, In v path -> pt_i64 v) ->
  ((3 <= length path)%nat -> (forall v, In v path -> in_rect r v) ->
     rect_clip_t r path = Ok [tag_sv 0 path] /\ rect_clip r path = [path])
  /\ (((forall v, In v path -> px v < r_left r) \/ (forall v, In v path -> r_right r < px v)
       \/ (forall v, In v path -> py v < r_top r) \/ (forall v, In v path -> r_bottom r < py v)) ->
     rect_clip_t r path = Ok [] /\ rect_clip r path = []).
Proof. exact rect_clip_shortcuts. Qed.
Print Assumptions C08_shortcuts.

(* provenance of every vertex of the result (all stages: ExecuteInternal, CheckEdges, TidyEdges, GetPath) *)
Theorem C08_vertices :
  forall r path out piece v s,
  rect_i64 r -> rect_clip_t r path = Ok out -> In piece out -> In (v, s) piece ->
  match s with
  | SV i => nth_error path i = Some v /\ in_rect r v
  | SC k => nth_error (rect_as_path r) k = Some v
  | SI i => exists a b, cseg_at path i a b /\ exists loc ip0 loc',
              GetIntersection (RPath r) b a loc ip0 = (true, loc', v) \/ GetIntersection (RPath r) a b loc ip0 = (true, loc', v)
  | SX _ => False
  end.
Proof. exact rect_clip_vertices. Qed.
Print Assumptions C08_vertices.

(* the statement of the design, on the untagged result: "an input vertex not outside, a rectangle corner, or a GetIntersection
   result".  History: before the repair of the pass-through branch of ExecuteInternal (a pass-through now needs BOTH
   GetIntersection calls to succeed; triage/C08-stale-ip2.patch) this was false of the faithful model -- for
   Rect64(32769433,279593455,32769434,279593456) and the triangle (109421516,656086942) (-25760342,-7888347) (32769354,279593454)
   the result contained Point64() = (0,0); that input is kept as corpus case and as Example stale_repaired (result: nothing). *)
Theorem C08_vertices_untagged :
  forall r path out,
  rect_i64 r -> rect_clip_t r path = Ok out ->
  forall piece v, In piece (untag out) -> In v piece ->
    (In v path /\ in_rect r v) \/ In v (rect_as_path r)
    \/ exists a b loc ip0 loc', In a path /\ In b path /\ GetIntersection (RPath r) a b loc ip0 = (true, loc', v).
Proof. exact rect_clip_vertices_untagged. Qed.
Print Assumptions C08_vertices_untagged.

(* with C08_intersection_names_side and C08_isect_on_rect: for |coordinates| <= 2^25 every vertex of the result lies in the
   rectangle grown by one unit -- in_rect for input vertices and corners, near a side for intersection points *)

(* the loops `do { AddCorner(prev, cw); } while (prev != loc)` and `do { start_locs_.push_back(prev); .. } while (prev != loc)`:
   they end (the model's fuel of 8 steps suffices) whenever the target location is a side, which it is whenever it comes out of a
   successful GetIntersection; with target Inside the loop cannot end (the model reports ErrFuel, the code does not terminate).
   PARTIAL: that the target is never Inside in the "remaining outside" branch (GetIntersection never fails for an edge that ends
   strictly inside) needs the exact sign of the binary64 cross products and is not proved. *)
Theorem C08_corner_loops_terminate_partial :
  (forall r a b cw rs, a <> Inside -> b <> Inside -> exists rs', corner_loop r loop_fuel a b cw rs = Ok rs')
  /\ (forall a b cw sl, b <> Inside -> exists sl', startloc_loop loop_fuel a b cw sl = Ok sl')
  /\ (forall r p p2 loc ip l' q, t_get_intersection r p p2 loc ip = (true, l', q) -> l' <> Inside)
  /\ (forall r fuel a cw rs, exists e, corner_loop r fuel a Inside cw rs = Err e).
Proof.
  exact (conj corner_loop_total (conj startloc_loop_total (conj t_get_intersection_side corner_loop_inside_diverges))).
Qed.
Print Assumptions C08_corner_loops_terminate_partial.

(* "For each input polygon separately": several paths in one call (and one call after another on the same object -- Execute
   clears op_container_, results_, edges_, start_locs_ after every path) give the concatenation, in input order, of what each path
   gives alone.  Statement about the model; the check ties RectClip(rect, {p1..pk}) and two Execute calls on one RectClip64 object
   to the per-path results of the implementation itself and of this model. *)
Theorem C08_paths_app :
  forall r ps qs,
  (forall a b, rect_clip_paths r ps = Ok a -> rect_clip_paths r qs = Ok b -> rect_clip_paths r (ps ++ qs) = Ok (a ++ b))
  /\ (forall c, rect_clip_paths r (ps ++ qs) = Ok c ->
        exists a b, rect_clip_paths r ps = Ok a /\ rect_clip_paths r qs = Ok b /\ c = a ++ b).
Proof. exact rect_clip_paths_app. Qed.
Print Assumptions C08_paths_app.

Theorem C08_paths_single :
  forall r p o, rect_clip_t r p = Ok o -> rect_clip_paths r [p] = Ok (rect_clip r p).
Proof. exact rect_clip_paths_single. Qed.
Print Assumptions C08_paths_single.

(* ================================================================ (C) the sample checker *)

(* the multiplication-free shortcut of the distance test is exact *)
Theorem C08_far_test_exact :
  forall T es q, 0 <= T -> far_fast T es q = farther_from T 1 es q.
Proof. exact far_fast_eq. Qed.
Print Assumptions C08_far_test_exact.

(* An accepting verdict means the property at EVERY SAMPLE POINT handed to the checker (doubled coordinates; it is not lifted to
   the points of the plane that were not sampled):  for q in pts farther than 2 units from the input path
   (farther_from 4 1 on the doubled path: exact squared distance > 16),
     strictly inside the rectangle: simple input (classify = 0): sum of the output winding numbers = input winding number, and no
       output path winds around q against the input's orientation; non-simple input without an edge along a side (classify = 1):
       same parity;
     outside the rectangle: output winding number 0 (simple) / even (non-simple);
   every output vertex within rect + 1 and, unless it is an input vertex, within 1 unit (Euclidean) of the rectangle's boundary;
   a polygon with all vertices in the closed rectangle is returned unchanged; a polygon that misses the rectangle vanishes. *)
Theorem C08_sample_check_sound :
  forall r p out pts,
  verdict_ok (chk r p out pts) = true ->
  (forall q, In q pts -> farther_from 4 1 (cyc_edges (dbl_path p)) q = true ->
     (strictly_inside2 r q = true ->
        match classify r p with
        | 0 => wn_paths (dbl_paths out) q = wn (dbl_path p) q
               /\ (forall o, In o (dbl_paths out) -> wn o q = 0 \/ Z.sgn (wn o q) = Z.sgn (area2 (dbl_path p)))
        | 1 => Z.even (wn_paths (dbl_paths out) q - wn (dbl_path p) q) = true
        | _ => True
        end)
     /\ (outside2 r q = true ->
        match classify r p with
        | 0 => wn_paths (dbl_paths out) q = 0
        | _ => Z.even (wn_paths (dbl_paths out) q) = true
        end))
  /\ (forall o v, In o out -> In v o -> within_b_spec r 1 v /\ (~ In v p -> near_boundary r v))
  /\ ((forall v, In v p -> within_b_spec r 0 v) -> out = [p])
  /\ (misses_rect r p = true -> out = []).
Proof. exact chk_sound. Qed.
Print Assumptions C08_sample_check_sound.

(* ================================================================ the whole, as far as it is proved *)
(* PARTIAL: everything the theorems above give about one call RectClip(r, {path}) of the model.  Missing with respect to the
   property: the winding-number / orientation / nothing-outside clauses for all points (validated at sample points by the verified
   checker above on every generated case), and the within-one-unit clauses for the points tagged SI beyond |coordinates| 2^25
   (proved up to there by C08_isect_on_rect + C08_intersection_names_side, validated beyond). *)
Theorem C08_rectclip_partial :
  forall r path out,
  rect_is_empty r = false -> rect_i64 r -> (forall v, In v path -> pt_i64 v) ->
  rect_clip_t r path = Ok out ->
  (* every vertex of the result has one of the three provenances *)
  (forall piece v s, In piece out -> In (v, s) piece ->
     match s with
     | SV i => nth_error path i = Some v /\ in_rect r v
     | SC k => nth_error (rect_as_path r) k = Some v
     | SI i => exists a b, cseg_at path i a b /\ exists loc ip0 loc',
                 GetIntersection (RPath r) b a loc ip0 = (true, loc', v) \/ GetIntersection (RPath r) a b loc ip0 = (true, loc', v)
     | SX _ => False
     end)
  (* input vertices and corners are inside the rectangle exactly *)
  /\ (forall piece v s, In piece out -> In (v, s) piece -> match s with SV _ | SC _ => in_rect r v | _ => True end)
  (* entirely inside: unchanged; entirely beyond one side: vanishes *)
  /\ ((3 <= length path)%nat -> (forall v, In v path -> in_rect r v) -> untag out = [path])
  /\ (((forall v, In v path -> px v < r_left r) \/ (forall v, In v path -> r_right r < px v)
       \/ (forall v, In v path -> py v < r_top r) \/ (forall v, In v path -> r_bottom r < py v)) -> out = []).
Proof. exact rect_clip_partial. Qed.
Print Assumptions C08_rectclip_partial.
