(* C02 — property theorems (statements only; proofs live in proofs/RectCheck.v, definitions in model/RectCheck.v).

   What is proved: the exact checker [rect_check] that the validation runs on every enumerated/generated case is sound
   with respect to the Coq specification [spec_closed]: one finite evaluation (one sample per cell of the compressed
   grid, the unbounded cells included) implies the property at EVERY rational point off the grid lines, and the
   specification commutes with integer scaling and lattice translation.
   What is NOT proved: that Clipper2's engine produces an output accepted by [rect_check]; that is validated by
   exhaustive small-scope enumeration and generated cases (checks/C02.py). *)
From Clip Require Import base.Geom base.Winding base.Region model.RectCheck proofs.RectCheck.
Local Open Scope Z_scope.

(* For a rectilinear closed path whose vertex coordinates lie in GX x GY, the winding number is the same at any two
   points that lie on the same side of every grid value, i.e. in the same open cell. *)
Theorem wn_cell_const : forall (GX GY : list Z) (p : path) (q q' : pt),
  rectilinear p -> on_grid GX GY p ->
  same_side GX (px q) (px q') -> same_side GY (py q) (py q') ->
  wn p q = wn p q'.
Proof. exact proofs.RectCheck.wn_cell_const. Qed.
Print Assumptions wn_cell_const.

(* ... in particular when both points are strictly between the same consecutive X values and the same consecutive
   Y values. *)
Theorem wn_cell_const_gap : forall (GX GY : list Z) (p : path) (q q' : pt) (xlo xhi ylo yhi : Z),
  rectilinear p -> on_grid GX GY p ->
  in_gap GX xlo xhi (px q) -> in_gap GX xlo xhi (px q') ->
  in_gap GY ylo yhi (py q) -> in_gap GY ylo yhi (py q') ->
  wn p q = wn p q'.
Proof. exact proofs.RectCheck.wn_cell_const_gap. Qed.
Print Assumptions wn_cell_const_gap.

(* Soundness of the checker.  X, Y are the sorted distinct input coordinates.  For every k > 0 and every point q
   expressed at scale k (so q/k ranges over all rational points of the plane) that is not on a grid line, the net
   winding of the solution at q is exactly 1 if the specified set operation selects q and 0 otherwise; the doubled
   area of the solution is the summed doubled area of the selected cells; every solution vertex takes its x from an
   input vertex's x and its y from an input vertex's y; every solution edge is axis-parallel. *)
Theorem C02_rect_check_sound : forall (S C out : paths) (ct : clip_type) (fr : fill_rule),
  rectilinear_all (S ++ C) ->
  rect_check S C out ct fr = true ->
  let X := xs_of (S ++ C) in
  let Y := ys_of (S ++ C) in
  rectilinear_all out
  /\ (forall k q, 0 < k -> off_grid (map (Z.mul k) X) (map (Z.mul k) Y) q ->
        wn_paths (scale_paths k out) q = b2z (spec_closed ct fr (scale_paths k S) (scale_paths k C) q))
  /\ area2_paths out = selected_cell_area2 ct fr S C
  /\ Forall (fun v => In (px v) X /\ In (py v) Y) (vertices out).
Proof. exact rect_check_sound. Qed.
Print Assumptions C02_rect_check_sound.

(* "covers precisely the unit cells the set operation selects": every open unit cell of the integer lattice,
   sampled at its centre (i + 1/2, j + 1/2) = (2i+1, 2j+1) in doubled coordinates (by C02_rect_check_sound the value
   is the same at every other point of the cell). *)
Theorem C02_unit_cells : forall (S C out : paths) (ct : clip_type) (fr : fill_rule),
  rectilinear_all (S ++ C) -> rect_check S C out ct fr = true ->
  forall i j, wn_paths (dbl out) (2 * i + 1, 2 * j + 1)
              = b2z (spec_closed ct fr (dbl S) (dbl C) (2 * i + 1, 2 * j + 1)).
Proof. exact rect_check_unit_cells. Qed.
Print Assumptions C02_unit_cells.

(* The specification commutes with integer scaling (k > 0) and lattice translation: checking a small lattice case
   scaled by k and translated by d is checking the same region. *)
Theorem C02_spec_scale : forall (ct : clip_type) (fr : fill_rule) (S C : paths) (k : Z) (d q : pt), 0 < k ->
  spec_closed ct fr (translate_paths d (scale_paths k S)) (translate_paths d (scale_paths k C)) (padd (pscale k q) d)
  = spec_closed ct fr S C q.
Proof. exact spec_scale_translate. Qed.
Print Assumptions C02_spec_scale.
