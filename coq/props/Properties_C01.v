(* C01 — property theorems (statements only; proofs live in proofs/ and model/). *)
From Clip Require Import base.Geom base.Winding base.Region base.Dist model.RegionCheck.
Local Open Scope Z_scope.

(* The sampled checker the oracle runs is sound w.r.t. the Coq specification: an empty list of failures
   means every sample point outside the tolerance band has exactly the specified net winding. *)
Theorem C01_sample_check_sound : forall ct fr rev S C tn td pts out,
  check_prep ct fr rev (prep S C tn td pts) out = [] ->
  forall q, In q pts -> far_from tn td (edges_closed (S ++ C)) q = true ->
  wn_paths out q = expected ct fr rev (wn_paths S q) (wn_paths C q).
Proof. exact check_prep_sound. Qed.
Print Assumptions C01_sample_check_sound.
