(* C01 — property theorems (statements only; proofs live in proofs/ and model/). *)
From Coq Require Import ZArith List.
From Clip Require Import base.Geom base.Winding base.Region base.Dist base.CSem model.RegionCheck.
From Clip Require Import gen.Gen_core gen.Gen_engine model.Sweep1D proofs.Sweep1D_main proofs.Sweep1D_gen.
From Clip Require model.Rings proofs.Rings proofs.RingsWf.
Import ListNotations.
Local Open Scope Z_scope.

(* The sampled checker the oracle runs is sound w.r.t. the Coq specification: an empty list of failures
   means every sample point outside the tolerance band has exactly the specified net winding. *)
Theorem C01_sample_check_sound : forall ct fr rev S C tn td pts out,
  check_prep ct fr rev (prep S C tn td pts) out = [] ->
  forall q, In q pts -> far_from tn td (edges_closed (S ++ C)) q = true ->
  wn_paths out q = expected ct fr rev (wn_paths S q) (wn_paths C q).
Proof. exact check_prep_sound. Qed.
Print Assumptions C01_sample_check_sound.

(* ------------------------------------------------------------------------------------------------------------
   The decision logic of the sweep, for ALL event histories and all 16 fill rule x clip type combinations.
   Model: model/Sweep1D.v (AEL = list of edges with wind_dx, wind_cnt, wind_cnt2, hot side; events = insertion of a
   local minimum, intersection of two adjacent edges, removal of a maxima pair, open-path ends; `step` mirrors
   InsertLocalMinimaIntoAEL/SetWindCountFor*PathEdge/IsContributing*/IntersectEdges/AddLocalMinPoly's side
   assignment/AddLocalMaxPoly's failure test).  Tie to the code: the contribution tables are the ones cpp2v
   regenerates from clipper.engine.cpp on every run (Sweep1D_gen); set_wind_*, update_counts, select_action and the
   side assignment are compared exactly with the real functions on synthetic AELs (checks/C01.py kernel_tie), and the
   decidable invariant inv_b is evaluated on AEL snapshots of real runs.
   NOT proved (validated by the sampled specification comparison): that the event sequence the engine executes is
   the true arrangement of the input (TopX / intersection rounding / horizontals), that AddOutPt/JoinOutrecPaths
   assemble exactly the hot edges into rings, and that CleanCollinear/FixSelfIntersects move the boundary by < 2 units.
   ------------------------------------------------------------------------------------------------------------ *)

(* the invariant: every closed edge carries the winding number farther from zero of its own type, the other type's
   winding number, and is hot on the side (Front = region to its right is inside) the specified region dictates;
   every open edge is hot exactly where open paths are kept *)
Theorem C01_step_preserves : forall ct fr a ev,
  ct <> NoClip -> inv_b ct fr a = true -> wf_event a ev = true ->
  exists a', step ct fr a ev = Some a' /\ inv_b ct fr a' = true.
Proof. exact step_preserves. Qed.
Print Assumptions C01_step_preserves.

(* ... hence in every state reachable by any well-formed event history, and the engine never clears succeeded_ *)
Theorem C01_reachable : forall ct fr evs,
  ct <> NoClip -> wf_trace ct fr [] evs = true ->
  exists a, run ct fr [] evs = Some a /\ inv_b ct fr a = true.
Proof. exact reachable_inv. Qed.
Print Assumptions C01_reachable.

(* in such a state the edges the TRANSLATED IsContributingClosed selects are exactly the boundary of the region
   {q | in_result ct fr (wS q) (wC q)}, and exactly those are hot *)
Theorem C01_contributing_is_boundary : forall ct fr pre e post,
  inv_b ct fr (pre ++ e :: post) = true -> eopen e = false ->
  IsContributingClosed (ct_code ct) (fr_code fr) (to_active e) =
    xorb (in_result ct fr (Wsum Subj pre) (Wsum Clp pre))
         (in_result ct fr (Wsum Subj pre + contrib Subj e) (Wsum Clp pre + contrib Clp e))
  /\ is_hot e = IsContributingClosed (ct_code ct) (fr_code fr) (to_active e).
Proof. exact translated_contributing_is_boundary. Qed.
Print Assumptions C01_contributing_is_boundary.

(* "covers exactly those points, each once", on every scanline of every reachable state: walking right from
   -infinity, contours entered (Front) minus contours left (Back) after i edges = 1 inside the specified region, 0 outside *)
Theorem C01_net_winding : forall ct fr a i,
  inv_b ct fr a = true ->
  zsum (map side_val (firstn i a)) =
  b2z (in_result ct fr (Wsum Subj (firstn i a)) (Wsum Clp (firstn i a))).
Proof. exact net_winding. Qed.
Print Assumptions C01_net_winding.

(* partial: decision logic only (see the comment above for what is validated instead of proved) *)
Definition C01_region_partial := (C01_reachable, C01_net_winding, C01_contributing_is_boundary).

(* the premises are satisfiable: a subject and a clip polygon crossing twice *)
Example C01_nonvacuous :
  let evs := [EInsert 0 Subj (-1) false; EInsert 1 Clp (-1) false; ESwap 2 false; ESwap 1 true; ERemove 0] in
  wf_trace Intersection NonZero [] evs = true /\
  exists a, run Intersection NonZero [] evs = Some a /\ inv_b Intersection NonZero a = true /\ length a = 2%nat.
Proof. exact inv_nonvacuous. Qed.

(* ------------------------------------------------------------------------------------------------------------
   Ring assembly (gap G2 of the comment above, in part).  Model: model/Rings.v -- NewOutRec/AddLocalMinPoly, AddOutPt,
   AddLocalMaxPoly, JoinOutrecPaths, SwapOutrecs as pure functions on (OutRec list, Active -> OutRec map); an OutRec's
   circular OutPt list is the list of its points from op_back to op_front.  Tie: exact correspondence with the real
   functions on synthetic Actives for random valid operation sequences under ASan+UBSan (checks/C01.py ring_tie).
   ------------------------------------------------------------------------------------------------------------ *)
Module R := Clip.model.Rings.
Module RP := Clip.proofs.Rings.

(* AddOutPt changes exactly the edge's own ring, at exactly one end (front edge: after op_front, else before op_back),
   by at most the given point (a point equal to that end is not repeated) *)
Theorem C01_ring_extend : forall s e p s', R.add_out_pt s e p = Some s' ->
  exists i o D, R.eo s e = Some i /\ nth_error (R.recs s) i = Some o /\ R.pts o = Some D /\
    R.eo s' = R.eo s /\
    R.recs s' = R.set_nth (R.recs s) i (R.mkO (Some (R.push (R.is_edge (R.fe o) e) D p)) (R.fe o) (R.be o)).
Proof. exact RP.add_out_pt_spec. Qed.
Print Assumptions C01_ring_extend.

(* JoinOutrecPaths(ea, eb) splices eb's ring end to end onto ea's (after it when ea is the front edge, before it
   otherwise), empties eb's OutRec and touches no other ring *)
Theorem C01_ring_join : forall s ea eb s', R.join s ea eb = Some s' ->
  exists ia ib oa ob Da Db,
    R.eo s ea = Some ia /\ R.eo s eb = Some ib /\ nth_error (R.recs s) ia = Some oa /\ nth_error (R.recs s) ib = Some ob /\
    R.pts oa = Some Da /\ R.pts ob = Some Db /\
    R.recs s' = R.set_nth (R.set_nth (R.recs s) ia
                (if R.is_edge (R.fe oa) ea then R.mkO (Some (Da ++ Db)) (R.fe ob) (R.be oa) else R.mkO (Some (Db ++ Da)) (R.fe oa) (R.be ob)))
              ib (R.mkO None None None).
Proof. exact RP.join_spec. Qed.
Print Assumptions C01_ring_join.

(* over ANY sequence of these operations that the engine can execute (no null dereference, succeeded_ not cleared):
   no solution point is invented, none is lost, none is duplicated beyond the points handed over *)
Theorem C01_ring_points : forall ops s s', R.run s ops = Some s' ->
  (forall q, In q (R.all_pts s') -> In q (R.all_pts s) \/ In q (flat_map RP.op_point ops)) /\
  (forall q, In q (R.all_pts s) -> In q (R.all_pts s')) /\
  (length (R.all_pts s') <= length (R.all_pts s) + length (flat_map RP.op_point ops))%nat.
Proof. exact RP.run_points. Qed.
Print Assumptions C01_ring_points.

(* the coupling invariant between Actives and OutRecs (RW.wf: a ring with points is non-empty and either closed or
   coupled to two DIFFERENT edges -- its front and its back edge -- that point back to it; an emptied OutRec has no
   edges; every hot edge is the front or back edge of the OutRec it points to) holds in EVERY state reachable by
   operation sequences in which AddLocalMinPoly is only applied to cold edges *)
Module RW := Clip.proofs.RingsWf.

Theorem C01_ring_coupling_invariant : forall ops s,
  RW.valid_trace R.init ops -> R.run R.init ops = Some s -> RW.wf s.
Proof. exact RW.reachable_wf. Qed.
Print Assumptions C01_ring_coupling_invariant.

(* AddLocalMaxPoly makes both edges cold and keeps the invariant, whether it closes a ring or joins two *)
Theorem C01_ring_local_max : forall s e1 e2 p s',
  RW.wf s -> e1 <> e2 -> R.add_local_max_poly s e1 e2 p = Some s' ->
  RW.wf s' /\ R.eo s' e1 = None /\ R.eo s' e2 = None.
Proof. exact RW.add_local_max_poly_wf. Qed.
Print Assumptions C01_ring_local_max.

(* ... and under the invariant the primitives dereference no null pointer where the engine uses them: AddOutPt on a
   hot edge; AddLocalMaxPoly on two different hot edges lying on opposite sides (the case the Sweep1D invariant
   guarantees at every maxima pair, C11_never_fails_partial) *)
Theorem C01_ring_defined : forall s,
  RW.wf s ->
  (forall e i p, R.eo s e = Some i -> exists s', R.add_out_pt s e p = Some s') /\
  (forall e1 e2 i1 i2 o1 o2 p, e1 <> e2 -> R.eo s e1 = Some i1 -> R.eo s e2 = Some i2 ->
     nth_error (R.recs s) i1 = Some o1 -> nth_error (R.recs s) i2 = Some o2 ->
     R.is_edge (R.fe o1) e1 <> R.is_edge (R.fe o2) e2 ->
     exists s', R.add_local_max_poly s e1 e2 p = Some s').
Proof.
  intros s W. split.
  - intros e i p H. exact (RW.add_out_pt_defined s e i W H p).
  - intros. eapply RW.add_local_max_poly_defined; eassumption.
Qed.
Print Assumptions C01_ring_defined.

(* ... so when the sweep ends (no Active is hot any more) every OutRec holding points is a closed non-empty ring:
   over no operation sequence is a contour left open *)
Theorem C01_ring_all_closed : forall ops s,
  RW.valid_trace R.init ops -> R.run R.init ops = Some s -> (forall e, R.eo s e = None) ->
  forall i o, nth_error (R.recs s) i = Some o ->
  match R.pts o with
  | Some D => D <> nil /\ R.fe o = None /\ R.be o = None
  | None => R.fe o = None /\ R.be o = None
  end.
Proof. intros ops s V H. exact (RW.all_rings_closed s (RW.reachable_wf ops s V H)). Qed.
Print Assumptions C01_ring_all_closed.
