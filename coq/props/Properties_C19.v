(* placeholder while the proofs are being written *)
From Clip Require Import base.Geom model.Minkowski.
Theorem C19_empty_tmp : forall pth s c, minkowski [] pth s c = MOk [].
Proof. reflexivity. Qed.
Print Assumptions C19_empty_tmp.
