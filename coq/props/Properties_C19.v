(* C19 -- Minkowski sum and difference are the swept pattern.

   All theorems are about model/Minkowski.v, the complete executable model of detail::Minkowski
   (clipper.minkowski.h 20-72) and of the Area<int64_t>/IsPositive it calls, tied to the C++ by exact equality
   of the quads (same order, same orientation) on every generated case (checks/C19.py).

     [minkowski pat pth isSum isClosed]   the model; [MOk quads] or an error (out-of-bounds read / fuel)
     [para_quads isSum closed pat pth]    the property's parallelograms
                                          [ [a+b; a'+b; a'+b'; a+b'] | (a,a') <- path_edges closed pth, (b,b') <- cyc_edges_last pat ]
                                          (with - instead of + for the difference), in the code's order
     [path_edges closed pth]              consecutive path points, preceded by the closing pair (last,first) iff closed
     [cyc_edges_last pat]                 (p_{n-1},p_0),(p_0,p_1),...: the cyclic pattern edges, closing edge first
     [orient4 q]                          q, or [rev q] when the binary64 Area of q is negative

   PROVED for all inputs: the quads are exactly these parallelograms up to per-quad reversal; no error.
   PROVED for |coordinates| <= 2^24: the reversal test is exact, every emitted quad has exact area >= 0
   (and this fails at 2^27: thin quads, witness below).
   NOT PROVED ([C19_minkowski_partial]): that detail::Union -- Clipper64 with FillRule::NonZero -- of these quads
   is their union within 2 units.  That step is validated by the sampled checker [check_minkowski], extracted from
   Coq and sound by [C19_checker_sound]: if it reports no failure then at every sample point farther than the
   tolerance from every parallelogram edge the result's net winding is 1 inside some parallelogram and 0 outside all. *)
From Clip Require Import base.Geom base.FloatModel base.Winding base.Dist model.Minkowski proofs.Minkowski.
From Coq Require Import ZArith List Permutation.
Import ListNotations.
Local Open Scope Z_scope.

(* the list of quads the model builds equals, up to per-quad reversal, the specification's list, in the code's order *)
Theorem C19_quads_spec :
  forall pat pth isSum isClosed,
  exists quads, minkowski pat pth isSum isClosed = MOk quads
    /\ quads = map orient4 (para_quads isSum isClosed pat pth)
    /\ Forall2 (fun q s => q = s \/ q = rev s) quads (para_quads isSum isClosed pat pth)
    /\ length quads = (length (path_edges isClosed pth) * length (cyc_edges_last pat))%nat.
Proof. exact minkowski_quads_spec. Qed.
Print Assumptions C19_quads_spec.

(* the path edges are the pairs of consecutive path points, plus the closing pair iff closed *)
Theorem C19_path_edges :
  forall isClosed pth e d,
  In e (path_edges isClosed pth) ->
  (exists i, nth_error pth i = Some (fst e) /\ nth_error pth (S i) = Some (snd e))
  \/ (isClosed = true /\ pth <> [] /\ e = (last pth d, hd d pth)).
Proof. exact path_edges_consecutive. Qed.
Print Assumptions C19_path_edges.

(* the pattern edges in the code's order are the cyclic edges of base/Geom.v (rotated by one) *)
Theorem C19_pattern_edges_cyclic : forall pat, Permutation (cyc_edges_last pat) (cyc_edges pat).
Proof. exact cyc_edges_last_perm. Qed.
Print Assumptions C19_pattern_edges_cyclic.

(* every specified quad is the parallelogram spanned by a path edge a->a' and a pattern edge b->b':
   corners a(+|-)b, a'(+|-)b, a'(+|-)b', a(+|-)b'; opposite sides equal a'-a and +-(b'-b); twice its area is the
   cross product of the two edge vectors *)
Theorem C19_quad_is_parallelogram :
  forall isSum isClosed pat pth q,
  In q (para_quads isSum isClosed pat pth) ->
  exists a a' b b',
    In (a, a') (path_edges isClosed pth) /\ In (b, b') (cyc_edges_last pat) /\
    q = [mop isSum a b; mop isSum a' b; mop isSum a' b'; mop isSum a b'] /\
    psub (mop isSum a' b) (mop isSum a b) = psub a' a /\ psub (mop isSum a' b') (mop isSum a b') = psub a' a /\
    psub (mop isSum a b') (mop isSum a b) = pdir isSum (b, b') /\ psub (mop isSum a' b') (mop isSum a' b) = pdir isSum (b, b') /\
    area2 q = 2 * vcross (psub a' a) (pdir isSum (b, b')).
Proof. exact para_quads_parallelogram. Qed.
Print Assumptions C19_quad_is_parallelogram.

(* binary64 Area is exact for |coordinates| <= 2^24: the orientation test is the exact one ... *)
Theorem C19_orientation_exact :
  forall isSum isClosed pat pth P,
  coords_le (2 ^ 24) pat -> coords_le (2 ^ 24) pth -> In P (para_quads isSum isClosed pat pth) ->
  orient4 P = if 0 <=? area2 P then P else rev P.
Proof. exact orient4_exact. Qed.
Print Assumptions C19_orientation_exact.

(* ... and every emitted quad has non-negative exact area *)
Theorem C19_quads_positive :
  forall pat pth isSum isClosed quads,
  coords_le (2 ^ 24) pat -> coords_le (2 ^ 24) pth ->
  minkowski pat pth isSum isClosed = MOk quads -> forall q, In q quads -> 0 <= area2 q.
Proof. exact minkowski_quads_positive. Qed.
Print Assumptions C19_quads_positive.

(* the statement without a coordinate bound is false of the faithful model (witness within 2^27; replayed on the
   real code by checks/C19.py): a thin quad of exact twice-area -2 whose binary64 Area is >= 0 *)
Theorem C19_quads_positive_unbounded_refuted :
  exists pat pth quads q,
    coords_le (2 ^ 27) pat /\ coords_le (2 ^ 27) pth /\
    minkowski pat pth true false = MOk quads /\ In q quads /\ area2 q < 0.
Proof. exact quads_positive_fails_beyond. Qed.
Print Assumptions C19_quads_positive_unbounded_refuted.

(* empty pattern or path: no quads (and the specification has no parallelogram) *)
Theorem C19_empty :
  forall pat pth isSum isClosed, pat = [] \/ pth = [] ->
  minkowski pat pth isSum isClosed = MOk [] /\ para_quads isSum isClosed pat pth = [].
Proof. exact minkowski_empty. Qed.
Print Assumptions C19_empty.

(* the bounds-checked, fuelled model never fails: no tmp[g][h] read is out of range, both loops terminate *)
Theorem C19_accesses_in_bounds :
  forall pat pth isSum isClosed, exists quads, minkowski pat pth isSum isClosed = MOk quads.
Proof. exact minkowski_no_error. Qed.
Print Assumptions C19_accesses_in_bounds.

(* no int64 operation of the run overflows for |coordinates| <= 2^60 (the property's bound is 2^40) *)
Theorem C19_no_overflow :
  forall pat pth isSum isClosed,
  coords_le (2 ^ 60) pat -> coords_le (2 ^ 60) pth -> minkowski_ub_free pat pth isSum isClosed = true.
Proof. exact minkowski_ub_free_bound. Qed.
Print Assumptions C19_no_overflow.

(* soundness of the extracted sample checker: result paths outk, sample points ptsk and the tolerance tn/td are
   given in coordinates scaled by k (k = 2: half-integer sample points; k = 2 * 2^j: the dyadic coordinates of a
   PathD result, exactly); the parallelograms are scaled by k inside *)
Theorem C19_checker_sound :
  forall pat pth isSum isClosed k tn td outk ptsk ev,
  check_minkowski pat pth isSum isClosed k tn td outk ptsk = MOk ev -> mink_fails ev = [] ->
  forall q, In q ptsk ->
  far_from tn td (edges_closed (scalek k (map orient4 (para_quads isSum isClosed pat pth)))) q = true ->
  (wn_paths outk q <> 0 <-> in_some (scalek k (para_quads isSum isClosed pat pth)) q = true)
  /\ (in_some (scalek k (para_quads isSum isClosed pat pth)) q = true -> wn_paths outk q = 1).
Proof. exact check_minkowski_sound. Qed.
Print Assumptions C19_checker_sound.

(* the cross-product membership test of the checker in the winding-number vocabulary of base/Winding.v: a point
   it accepts has winding number +1 or -1 around one of the (k-scaled) parallelograms.  (The converse -- non-zero
   winding implies membership of the closed parallelogram -- is cross-checked at run time on every far sample point.) *)
Theorem C19_membership_is_winding :
  forall k isSum isClosed pat pth q,
  in_some (scalek k (para_quads isSum isClosed pat pth)) q = true ->
  exists P, In P (para_quads isSum isClosed pat pth) /\
            (wn (map (pscale k) P) q = 1 \/ wn (map (pscale k) P) q = -1).
Proof. exact in_some_wn_some. Qed.
Print Assumptions C19_membership_is_winding.

(* What is proved about MinkowskiSum/MinkowskiDiff as a whole.  PARTIAL: the missing link is
   "detail::Union(quads, NonZero) is the NonZero union of the quads within 2 units" (Clipper64::Execute on massively
   degenerate input: shared edges and vertices) -- validated through [C19_checker_sound] by sampling, not proved. *)
Theorem C19_minkowski_partial :
  forall pat pth isSum isClosed,
  exists quads,
    minkowski pat pth isSum isClosed = MOk quads
    /\ Forall2 (fun q s => q = s \/ q = rev s) quads (para_quads isSum isClosed pat pth)
    /\ (forall k ptk, in_some (scalek k quads) ptk = in_some (scalek k (para_quads isSum isClosed pat pth)) ptk)
    /\ (pat = [] \/ pth = [] -> quads = [])
    /\ (forall k tn td outk ptsk ev,
          check_minkowski pat pth isSum isClosed k tn td outk ptsk = MOk ev -> mink_fails ev = [] ->
          forall q, In q ptsk -> far_from tn td (edges_closed (scalek k quads)) q = true ->
          (wn_paths outk q <> 0 <-> in_some (scalek k (para_quads isSum isClosed pat pth)) q = true)
          /\ (in_some (scalek k (para_quads isSum isClosed pat pth)) q = true -> wn_paths outk q = 1)).
Proof. exact minkowski_partial. Qed.
Print Assumptions C19_minkowski_partial.
