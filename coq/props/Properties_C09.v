(* C09 -- RectClipLines returns exactly the parts of each polyline inside the rectangle.
   Theorems are proved in proofs/RectLines*.v over the hand model model/RectLines.v (placeholder: being filled in). *)
From Clip Require Import base.Geom model.RectLeaf model.RectLines.
Local Open Scope Z_scope.

Theorem C09_model_example :
  rect_clip_lines (mkRect 0 0 10 10) [(-5, 5); (5, 5); (15, 5)] = [[(0, 5); (5, 5); (10, 5)]].
Proof. exact lines_ex1. Qed.
Print Assumptions C09_model_example.
