(* C09 -- RectClipLines returns exactly the parts of each polyline inside the rectangle.

   All theorems are about the complete hand model model/RectLines.v of RectClipLines64 (Execute / ExecuteInternal /
   GetPath + RectClip64::Add / GetNextLocation + GetIntersection), which is tied to the C++ by exact output
   equality on every generated case (checks/C09.py).  Unless a theorem mentions [rect_clip_lines] /
   [rect_clip_lines_t] it holds for EVERY segment intersection function [gsi] (so independently of binary64
   behaviour); [rect_clip_lines_t = rect_clip_lines_g get_segment_intersection] is the model with the binary64
   GetSegmentIntersection.  Output points carry a ghost tag: SV i = copy of input vertex i, SI i = point returned
   (result true) by GetIntersection on the input segment path[i-1]..path[i].  (SX i tags the stale ip2 that the code
   before /repo commit 4911de9 emitted; the current code and its model never produce it -- the theorems show it.)
   Not proved (validated by the Coq-extracted specification oracle instead): the 1.5-unit on-polyline clause and
   the total-length clause, which depend on the accuracy of the binary64 intersection point. *)
From Clip Require Import base.Geom base.FloatModel model.RectLeaf model.RectLines proofs.RectLines proofs.RectFloat proofs.RectLinesPaths.
From Coq Require Import ZArith List Sorted.
Local Open Scope Z_scope.

(* provenance: every output vertex is an input vertex lying in the closed rectangle, or was computed by
   GetIntersection from two consecutive input vertices *)
Theorem C09_on_polyline_provenance :
  forall gsi r path out piece v s,
  rect_clip_lines_g gsi r path = Ok out -> In piece out -> In (v, s) piece ->
  match s with
  | SV i => nth_error path i = Some v /\ in_rect r v
  | SI i => exists a b, seg_at path i a b /\ (gi_result gsi r b a v \/ gi_result gsi r a b v)
  | SX _ => False
  | SC _ => False
  end.
Proof. exact lines_provenance_pointwise. Qed.
Print Assumptions C09_on_polyline_provenance.

(* containment: slack 0 for copied vertices, slack 1 for computed points, for every intersection function that
   returns (with result true, for a side of the rectangle) only points within one unit of the rectangle.
   Partial only in that this hypothesis on gsi is not yet discharged for the binary64 GetSegmentIntersection
   (for |coordinates| <= 2^25 its cross products are exact, see below; the accuracy of the final division is validated) *)
Theorem C09_inside_partial :
  forall gsi r path out piece v s,
  (forall x y a b ip q, is_side r a b -> gsi x y a b ip = (true, q) -> within r 1 q) ->
  rect_clip_lines_g gsi r path = Ok out -> In piece out -> In (v, s) piece ->
  match s with SV _ => within r 0 v | SI _ => within r 1 v | SX _ => False | SC _ => False end.
Proof. exact lines_inside_pointwise. Qed.
Print Assumptions C09_inside_partial.

Theorem C09_inside_untagged_partial :
  forall gsi r path out piece v,
  (forall x y a b ip q, is_side r a b -> gsi x y a b ip = (true, q) -> within r 1 q) ->
  rect_clip_lines_g gsi r path = Ok out -> In piece (untag out) -> In v piece -> within r 1 v.
Proof. exact lines_inside_untagged. Qed.
Print Assumptions C09_inside_untagged_partial.

(* order and direction: along the concatenated output the position on the input polyline
   (vertex i -> 2i+1, point on the segment ending at vertex i -> 2i) never decreases *)
Theorem C09_order :
  forall gsi r path out,
  rect_clip_lines_g gsi r path = Ok out ->
  StronglySorted le (map (fun tv : tpt => pos (snd tv)) (concat out)).
Proof. exact lines_order. Qed.
Print Assumptions C09_order.

(* identity: a path (>= 2 points) all of whose vertices lie in the closed non-empty rectangle is returned as one
   piece with consecutive duplicate points collapsed (Add drops them); nothing is returned if fewer than two
   distinct consecutive points remain *)
Theorem C09_all_inside_identity :
  forall gsi r path,
  rect_is_empty r = false -> (2 <= length path)%nat -> (forall v, In v path -> in_rect r v) ->
  exists out, rect_clip_lines_g gsi r path = Ok out /\
              untag out = if (2 <=? length (dedup path))%nat then [dedup path] else [].
Proof. exact lines_identity. Qed.
Print Assumptions C09_all_inside_identity.

Theorem C09_all_inside_identity_nodup :
  forall gsi r path,
  rect_is_empty r = false -> (2 <= length path)%nat -> (forall v, In v path -> in_rect r v) -> no_consec_dup path ->
  exists out, rect_clip_lines_g gsi r path = Ok out /\ untag out = [path].
Proof. exact lines_identity_nodup. Qed.
Print Assumptions C09_all_inside_identity_nodup.

(* paths of fewer than two points give no output *)
Theorem C09_short_paths :
  forall gsi r path, (length path < 2)%nat -> rect_clip_lines_g gsi r path = Ok [].
Proof. exact lines_short. Qed.
Print Assumptions C09_short_paths.

(* several polylines in one call (RectClipLines64::Execute clears results_/op_container_/start_locs_ per path):
   the result is the concatenation, in input order, of what each polyline gives alone ... *)
Theorem C09_paths_stateless :
  forall r ps, rect_clip_lines_paths r ps = Ok (concat (map (rect_clip_lines r) ps)).
Proof. exact lines_paths_stateless. Qed.
Print Assumptions C09_paths_stateless.

Theorem C09_paths_app :
  forall r ps qs a b, rect_clip_lines_paths r ps = Ok a -> rect_clip_lines_paths r qs = Ok b ->
    rect_clip_lines_paths r (ps ++ qs) = Ok (a ++ b).
Proof. exact lines_paths_app. Qed.
Print Assumptions C09_paths_app.

(* ... and a path of fewer than two points anywhere in the call changes nothing for the other polylines *)
Theorem C09_paths_short_skipped :
  forall r ps q qs, (length q < 2)%nat ->
    rect_clip_lines_paths r (ps ++ q :: qs) = rect_clip_lines_paths r (ps ++ qs).
Proof. exact lines_paths_short_skipped. Qed.
Print Assumptions C09_paths_short_skipped.

(* safety: the bounds-checked, fuelled model never reports an out-of-bounds access (path[i], path[i-1]) and never
   runs out of fuel; the fuel of the main loop is 2*len+2 iterations *)
Theorem C09_terminates_in_bounds :
  forall gsi r path, exists out, rect_clip_lines_g gsi r path = Ok out.
Proof. exact lines_no_error. Qed.
Print Assumptions C09_terminates_in_bounds.

Theorem C09_model_total :
  forall r p, exists out, rect_clip_lines_t r p = Ok out /\ rect_clip_lines r p = untag out.
Proof. exact rect_clip_lines_total. Qed.
Print Assumptions C09_model_total.

(* binary64 facts for |coordinates| <= 2^25 (small_pt): the cross products inside GetSegmentIntersection are exact,
   i.e. numerically equal (==) to the conversion of the exact integer cross product ... *)
Theorem C09_crossF_exact_small :
  forall p1 p2 p3, small_pt p1 -> small_pt p2 -> small_pt p3 ->
  PrimFloat.eqb (crossF p1 p2 p3) (Z2F (cross p1 p2 p3)) = true.
Proof. exact crossF_exact. Qed.
Print Assumptions C09_crossF_exact_small.

(* ... hence its sign tests are the exact ones *)
Theorem C09_cross_sign_exact_small :
  forall p1 p2 p3, small_pt p1 -> small_pt p2 -> small_pt p3 ->
  feq0 (crossF p1 p2 p3) = (cross p1 p2 p3 =? 0) /\ fgt0 (crossF p1 p2 p3) = (0 <? cross p1 p2 p3)
  /\ flt0 (crossF p1 p2 p3) = (cross p1 p2 p3 <? 0).
Proof. exact crossF_sign_exact. Qed.
Print Assumptions C09_cross_sign_exact_small.
