(* C07 -- open-path offsetting produces the stroke of the requested width and caps.
   Models: model/OffsetPlan.v (which routine, end type, delta every path of a call gets), model/OffsetGeom.v (binary64
   model of OffsetOpenPath / OffsetOpenJoined / caps / single points and their index schedule, tied bit for bit to
   DoGroupOffset by checks/C07.py), proofs/OffsetReal.v (the real-valued cap formulas).
   NOT proved (level: partial): that the clean-up union of the raw curves is the stroke region -- validated by
   checks/C07.py against the exact stroke specification proofs/OffsetSpec.v (c07_class).  The join constructions are
   those of C06 (Properties_C06.v). *)
From Coq Require Import ZArith List Bool Floats Reals.
From Clip Require Import base.Geom base.FloatModel model.OffsetPlan model.OffsetGeom
  proofs.OffsetReal proofs.OffsetPlanProofs proofs.OffsetGeomProofs.
Import ListNotations.
#[local] Set Warnings "-inexact-float".

(* Every path of a call is offset by the routine and with the end type that ITS OWN group and its own length select
   (two-point Joined path: open path with square/round ends; otherwise the group's end type), and open groups use
   group_delta_ = |delta| -- whatever paths and groups were added before it.
   (Refuted for the code before offset-endtype-leak.patch: witness in the header of model/OffsetPlan.v.) *)
Theorem C07_plan_local : forall (gs : list group) (delta : float) (e : pentry),
  In e (plan gs delta) ->
  exists g, nth_error gs (pe_group e) = Some g /\
    pe_action e = own_action g delta (pe_len e) /\
    (pe_len e <> 1%nat -> pe_end e = end_of g (pe_len e)) /\
    (g_end g <> EPolygon -> pe_delta e = fabs delta).
Proof. exact plan_local. Qed.
Print Assumptions C07_plan_local.

(* +delta and -delta give the same plan for open paths (and take the same early-return decision) *)
Theorem C07_sign_symmetric : forall (gs : list group) (delta : float),
  all_open gs = true ->
  plan_open gs delta = plan_open gs (fneg delta) /\ insignificant (fneg delta) = insignificant delta.
Proof. exact sign_symmetric. Qed.
Print Assumptions C07_sign_symmetric.

(* the in-place reversal of OffsetOpenPath: norms'[i] = -norms[i-1] (1 <= i <= highI), norms'[0] = norms'[highI] *)
Theorem C07_normals_reversed : forall (ns ns' : list ptd) (highI : Z),
  (1 <= highI)%Z -> reversed_norms ns highI = Some ns' ->
  length ns' = length ns /\
  (forall i, (1 <= i <= highI)%Z -> getn ns' i = option_map negd (getn ns (i - 1))) /\
  getn ns' 0 = getn ns' highI /\
  (forall i, (highI < i)%Z -> getn ns' i = getn ns i).
Proof. exact normals_reversed. Qed.
Print Assumptions C07_normals_reversed.

(* ... which are the normals of the reversed path, as the backward pass indexes them (for any antisymmetric normal
   function, as GetUnitNormal is up to the sign of zero) *)
Theorem C07_normals_reversed_path : forall (N : pt -> pt -> ptd),
  (forall a b, N b a = negd (N a b)) ->
  forall (p : path) (ns' : list ptd),
  (2 <= length p)%nat ->
  let highI := (Z.of_nat (length p) - 1)%Z in
  reversed_norms (normalsN N p) highI = Some ns' ->
  forall j, (1 <= j <= highI)%Z -> getn ns' j = getn (normalsN N (rev p)) (highI - j).
Proof. exact normals_reversed_path. Qed.
Print Assumptions C07_normals_reversed_path.

(* butt cap: p -+ d n: at distance d, on the line through p perpendicular to the path direction (flat cut at p) *)
Theorem C07_butt_cap : forall (n : vec) (d sgn : R),
  is_unit n -> sgn = 1%R \/ sgn = (-1)%R ->
  let c := vscale (sgn * d) n in
  norm2 c = (d * d)%R /\ vdot c (vy n, (- vx n)%R) = 0%R.
Proof. exact butt_cap. Qed.
Print Assumptions C07_butt_cap.

(* square cap: corners d beyond p along the path direction and d to either side (distance d sqrt 2) *)
Theorem C07_square_cap : forall (n : vec) (d sgn : R),
  is_unit n -> sgn = 1%R \/ sgn = (-1)%R ->
  let v := (vy n, (- vx n)%R) in
  let c := vadd (vscale d v) (vscale (sgn * d) n) in
  vdot c v = d /\ vdot c n = (sgn * d)%R /\ norm2 c = (2 * (d * d))%R.
Proof. exact square_cap. Qed.
Print Assumptions C07_square_cap.

(* the intersection DoSquare computes for j = k is that corner *)
Theorem C07_square_cap_intersection : forall (n x : vec) (d : R),
  is_unit n ->
  let v := (vy n, (- vx n)%R) in
  vdot x v = d -> vdot x n = d -> x = vadd (vscale d v) (vscale d n).
Proof. exact square_cap_intersection. Qed.
Print Assumptions C07_square_cap_intersection.

(* round cap: every emitted point lies on the circle of radius d around the end point *)
Theorem C07_round_cap : forall (c s d : R) (n : vec) (i : nat),
  (c * c + s * s = 1)%R -> is_unit n -> norm2 (rot_iter c s i (vscale (- d) n)) = (d * d)%R.
Proof. exact round_cap. Qed.
Print Assumptions C07_round_cap.

(* OffsetOpenPath reads path[i] / norms[i] only inside [0, len) for paths of at least two points ... *)
Theorem C07_accesses_in_bounds : forall len : Z, (2 <= len)%Z -> forallb (in_bounds len) (open_path_accesses len) = true.
Proof. exact open_accesses_in_bounds. Qed.
Print Assumptions C07_accesses_in_bounds.

(* ... and not for an empty path (DESIGN 9.4, robustness, owned by C10): the first access is path[0] *)
Theorem C07_accesses_in_bounds_refuted :
  exists len : Z, (0 <= len)%Z /\ forallb (in_bounds len) (open_path_accesses len) = false /\ In (APath, 0%Z) (open_path_accesses len).
Proof. exact open_accesses_in_bounds_refuted. Qed.
Print Assumptions C07_accesses_in_bounds_refuted.

Theorem C07_joined_accesses_in_bounds : forall len : Z, (1 <= len)%Z -> forallb (in_bounds len) (open_joined_accesses len) = true.
Proof. exact joined_accesses_in_bounds. Qed.
Print Assumptions C07_joined_accesses_in_bounds.

Theorem C07_joined_accesses_in_bounds_refuted : forallb (in_bounds 0) (open_joined_accesses 0) = false.
Proof. exact joined_accesses_in_bounds_refuted. Qed.
Print Assumptions C07_joined_accesses_in_bounds_refuted.

(* single points: the square of half-side ceil|delta| (every join type but Round) ... *)
Theorem C07_single_point_square : forall sin_f cos_f c jt v,
  jt <> JRound ->
  let d := F2Z_ceil (PrimFloat.abs (c_gd c)) in
  single_point sin_f cos_f c jt v = [ (px v - d, py v - d); (px v + d, py v - d); (px v + d, py v + d); (px v - d, py v + d) ]%Z.
Proof. exact single_point_square. Qed.
Print Assumptions C07_single_point_square.

(* ... or Ellipse with radius |delta| and ceil(steps_per_rad_ 2 PI) steps (Round), *)
Theorem C07_single_point_circle : forall sin_f cos_f c v,
  single_point sin_f cos_f c JRound v =
  ellipse sin_f cos_f v (PrimFloat.abs (c_gd c)) (PrimFloat.abs (c_gd c))
          (if fgt (c_spr c) 0%float then F2Z_ceil (c_spr c * 2 * PI)%float else 0%Z).
Proof. exact single_point_circle. Qed.
Print Assumptions C07_single_point_circle.

(* whose points all lie on the circle of radius r *)
Theorem C07_single_point_on_circle : forall (co si r : R) (i : nat),
  (co * co + si * si = 1)%R -> norm2 (vscale r (rot_iter co si i (1%R, 0%R))) = (r * r)%R.
Proof. exact ellipse_points_on_circle. Qed.
Print Assumptions C07_single_point_on_circle.
