(* C13 — property theorems (statements only; proofs live in proofs/). *)
From Coq Require Import ZArith List Permutation.
From Clip Require Import base.Geom base.Winding base.Region base.CSem.
From Clip Require Import gen.Gen_core gen.Gen_engine model.LocMin model.Sweep1D.
From Clip Require Import proofs.SpecAlgebra proofs.LocMin proofs.LocMinSort proofs.Sweep1D_gen proofs.C13_tables.
Import ListNotations.
Local Open Scope Z_scope.

(* ---------------------------------------------------------------- the specification (what "the result" means) *)

(* set algebra, pointwise on the Coq-defined region: Xor = Union minus Intersection; Difference and Intersection
   partition the subject region *)
Theorem C13_spec_algebra : forall fr S C q,
  spec_closed Xor fr S C q = spec_closed Union fr S C q && negb (spec_closed Intersection fr S C q)
  /\ xorb (spec_closed Difference fr S C q) (spec_closed Intersection fr S C q) = inside fr (wn_paths S q)
  /\ spec_closed Difference fr S C q && spec_closed Intersection fr S C q = false.
Proof. intros. unfold spec_closed. split; [apply spec_xor|apply spec_partition]. Qed.
Print Assumptions C13_spec_algebra.

(* the specified region does not depend on the representation of the input: path order, start vertex,
   duplicate / closing vertices, subject<->clip (Intersection, Union, Xor), global reversal with the fill-rule
   exchange; and it is equivariant under translation, integer scaling, transpose and mirrors (the latter
   exchanging Positive and Negative) *)
Theorem C13_spec_invariance : forall ct fr S C q,
  (forall S' C', Permutation S S' -> Permutation C C' -> spec_closed ct fr S' C' q = spec_closed ct fr S C q)
  /\ (forall S' C', Forall2 same_ring S S' -> Forall2 same_ring C C' -> spec_closed ct fr S' C' q = spec_closed ct fr S C q)
  /\ (ct = Intersection \/ ct = Union \/ ct = Xor -> spec_closed ct fr C S q = spec_closed ct fr S C q)
  /\ spec_closed ct (flip_fr fr) (map (@rev pt) S) (map (@rev pt) C) q = spec_closed ct fr S C q
  /\ (forall m, pmap_ok m -> (pmap_flips m = true -> on_paths (S ++ C) q = false) ->
        spec_closed ct (pmap_fr m fr) (map_paths m S) (map_paths m C) (apply_pmap m q) = spec_closed ct fr S C q).
Proof. exact spec_invariance. Qed.
Print Assumptions C13_spec_invariance.

(* ---------------------------------------------------------------- input normalisation in the engine *)
(* model/LocMin.v is the hand model of AddPaths_ (closed paths): strip consecutive duplicates and the closing
   vertex, flag local minima/maxima, list the minima; tied to the code by exact correspondence with
   vertex_lists_/minima_list_ read through private access (checks/C13.py). *)

(* starting a closed path at another vertex gives the same flagged ring (read from another vertex) and the same
   set of local minima *)
Theorem C13_locmin_rotate : forall p k, clean p ->
  exists r ms r' ms',
    add_path p = Ring r ms /\ add_path (rotl k p) = Ring r' ms'
    /\ r' = rotl k r
    /\ map (fun i => nth i r ((0, 0), fl_empty)) ms = min_vertices r
    /\ map (fun i => nth i r' ((0, 0), fl_empty)) ms' = min_vertices r'
    /\ Permutation (min_vertices r') (min_vertices r).
Proof. exact locmin_rotate. Qed.
Print Assumptions C13_locmin_rotate.

(* inserting repeated vertices (m: how many copies at each position) and c closing vertices changes nothing *)
Theorem C13_locmin_dups : forall m c p, clean p -> add_path (insert_dups m c p) = add_path p.
Proof. exact locmin_dups. Qed.
Print Assumptions C13_locmin_dups.

(* what the sweep assumes of the flagged ring: minima and maxima alternate around it, equally many *)
Theorem C13_locmin_alternate : forall p, clean p ->
  exists r ms, add_path p = Ring r ms /\ alternate_cyclically (map (fun v => kind_of (snd v)) r).
Proof. exact locmin_alternate. Qed.
Print Assumptions C13_locmin_alternate.

(* the comparator the model sorts with is the LocMinSorter regenerated from the source *)
Theorem C13_sorter_is_translated : forall a b, locmin_before a b = LocMinSorter_call a b.
Proof. exact locmin_sorter_is_translated. Qed.

(* with distinct minima points (general position) every sort of every ordering of the minima is the same list:
   the sorted minima list does not depend on the order in which paths were added *)
Theorem C13_sort_perm : forall (A : Type) (key : A -> pt) (l l' : list A),
  Permutation l l' -> NoDup (map key l) ->
  stable_sort (before key) l = stable_sort (before key) l'.
Proof. exact @sort_perm. Qed.
Print Assumptions C13_sort_perm.

(* ---------------------------------------------------------------- the contribution table (translated) *)
(* subject and clip are treated alike by Intersection, Union and Xor *)
Theorem C13_table_symmetric : forall ct fr e,
  ct = Intersection \/ ct = Union \/ ct = Xor ->
  IsContributingClosed (ct_code ct) (fr_code fr) (swap_type e) = IsContributingClosed (ct_code ct) (fr_code fr) e.
Proof. exact table_symmetric. Qed.
Print Assumptions C13_table_symmetric.

(* reversing all paths (all winding counts negated) with Positive <-> Negative exchanged selects the same edges *)
Theorem C13_table_reverse : forall ct fr e,
  IsContributingClosed (ct_code ct) (fr_code (flip fr)) (negate e) = IsContributingClosed (ct_code ct) (fr_code fr) e
  /\ IsContributingOpen (ct_code ct) (fr_code (flip fr)) (negate e) = IsContributingOpen (ct_code ct) (fr_code fr) e.
Proof. intros. split; [apply table_reverse|apply open_table_reverse]. Qed.
Print Assumptions C13_table_reverse.

(* partial: NOT proved is that the engine's output *paths* (not only the specified region, the normalised input
   and the selected edges) are identical under these changes of representation -- that needs "the sweep is a
   function of the flagged rings and the sorted minima only", an argument about all of clipper.engine.cpp; it is
   validated by exact metamorphic comparison (checks/C13.py). *)
Definition C13_representation_partial :=
  (C13_spec_invariance, C13_locmin_rotate, C13_locmin_dups, C13_sort_perm, C13_table_symmetric, C13_table_reverse).
