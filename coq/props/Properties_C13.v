From Clip Require Import base.Geom base.Winding base.Region proofs.SpecAlgebra.
Local Open Scope Z_scope.

Theorem C13_spec_algebra : forall fr S C q,
  spec_closed Xor fr S C q = spec_closed Union fr S C q && negb (spec_closed Intersection fr S C q)
  /\ xorb (spec_closed Difference fr S C q) (spec_closed Intersection fr S C q) = inside fr (wn_paths S q)
  /\ spec_closed Difference fr S C q && spec_closed Intersection fr S C q = false.
Proof. intros. unfold spec_closed. split; [apply spec_xor|apply spec_partition]. Qed.
Print Assumptions C13_spec_algebra.
