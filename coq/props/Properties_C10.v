(* C10 -- no input can crash, hang or corrupt memory: property theorems (statements only; proofs live in proofs/).

   Memory safety of C++ cannot be stated without a C++ semantics.  What is stated here, for ALL inputs: models whose
   every array access is bounds-checked and whose every loop is fuelled never fail a check and never run out of fuel.
   The models are hand models of the loops that exist in the code (model/Inversions.v, model/VertexAlloc.v, and the
   models of C07, C09, C17, C20 re-used below), tied to the code by exact output correspondence under ASan+UBSan
   (checks/C10.py and the checks of those properties), or definitions regenerated from the source (coq/gen).
   Everything else of the property -- the rest of the public surface, the allocation-failure clause, USINGZ builds,
   the runtime -- is VALIDATED by sanitizer runs and fault injection in checks/C10.py, not proved. *)
From Coq Require Import ZArith List Bool Floats Sorted Permutation.
From Clip Require Import base.Geom base.FloatModel base.CSem.
From Clip Require Import model.Inversions proofs.Inversions.
From Clip Require model.VertexAlloc proofs.VertexAlloc.
From Clip Require gen.Gen_core gen.Gen_engine proofs.NoOverflow.
From Clip Require model.PathUtils proofs.PathUtilsBase proofs.PathUtilsInst proofs.SafetyC10.
From Clip Require model.RectLeaf model.RectLines proofs.RectLines.
From Clip Require model.Export proofs.Export.
From Clip Require model.OffsetGeom proofs.OffsetGeomProofs.
From Clip Require model.Owner proofs.Owner.
From Clip Require model.Minkowski proofs.Minkowski.
Import ListNotations.
Local Open Scope Z_scope.

(* ================================================================== (a) the intersection machinery of the sweep *)

(* a list that is not sorted by its key has an inversion at two CONSECUTIVE positions *)
Theorem C10_adjacent_inversion :
  forall (A : Type) (key : A -> Z) (l : list A),
    ~ StronglySorted (key_le key) l ->
    exists (i : nat) (a b : A), nth_error l i = Some a /\ nth_error l (S i) = Some b /\ key b < key a.
Proof. exact @adjacent_inversion_index. Qed.
Print Assumptions C10_adjacent_inversion.

(* BuildIntersectList (bottom-up merge sort over the SEL, elt = (identity, curr_x)): never out of fuel; the IntersectNodes
   it emits are exactly the inversion pairs of the curr_x sequence, once for each pair of positions; the SEL is left
   sorted, and stably so *)
Theorem C10_build_intersect_list :
  forall l : list elt,
    exists (s : list elt) (ns : list node),
      build_intersect_list l = Some (s, ns) /\
      Permutation ns (inv_pairs ex l) /\
      Permutation s l /\
      StronglySorted (key_le ex) s /\
      (forall k : Z, filter (fun e : elt => ex e =? k) s = filter (fun e : elt => ex e =? k) l).
Proof. exact build_intersect_list_spec. Qed.
Print Assumptions C10_build_intersect_list.

(* ProcessIntersectList: `while (!EdgesAdjacentInAEL( *node_iter2)) ++node_iter2;` has no end test.  In the model the scan
   returns ScanOverrun when it reaches the end of the vector and SwapPositionsInAEL returns SwapPrecond when its edges
   are not adjacent with e1 on the left.  Whatever order std::sort leaves the nodes in (every permutation ns'), on the
   nodes recorded by BuildIntersectList for the AEL they were recorded from: neither error nor OutOfFuel occurs, every
   scan stops at an index below the number of remaining nodes, and the AEL ends stably sorted by curr_x. *)
Theorem C10_intersect_scan_safe :
  forall l : list elt,
    NoDup (ids l) ->
    exists (s : list elt) (ns : list node),
      build_intersect_list l = Some (s, ns) /\
      (forall ns' : list inode,
        Permutation ns' (node_ids ns) ->
        exists r : presult,
          process_intersect_list (ids l) ns' = inl r /\
          Forall (fun jn : nat * nat => (fst jn < snd jn)%nat) (p_scans r) /\
          Permutation (p_ael r) (ids l) /\
          StronglySorted (key_le (xof l)) (p_ael r) /\
          (forall k : Z, filter (fun i : nat => xof l i =? k) (p_ael r) = filter (fun i : nat => xof l i =? k) (ids l))).
Proof. exact intersections_safe. Qed.
Print Assumptions C10_intersect_scan_safe.

(* the same step by step, for any key function: the processed order is a schedule of adjacent swaps (left edge first) *)
Theorem C10_process_schedule :
  forall (x : nat -> Z) (n : nat) (ael : list nat) (ns : list (nat * nat)),
    length ns = n -> NoDup ael -> Permutation ns (inv_pairs x ael) ->
    exists r : presult,
      process n ael ns = inl r /\
      Permutation (p_order r) ns /\
      check_schedule ael (p_order r) = Some (p_ael r) /\
      Forall (fun jn : nat * nat => (fst jn < snd jn)%nat) (p_scans r) /\
      length (p_scans r) = n /\
      Permutation (p_ael r) ael /\
      inv_pairs x (p_ael r) = [] /\
      (forall k : Z, filter (fun e : nat => x e =? k) (p_ael r) = filter (fun e : nat => x e =? k) ael).
Proof. exact process_safe. Qed.
Print Assumptions C10_process_schedule.

(* the hypothesis "the nodes are the inversions" is needed: on another node set the model's scan does run off the end *)
Theorem C10_intersect_scan_overrun_refuted :
  process_intersect_list [0; 1; 2]%nat [(0, 2)]%nat = inr ScanOverrun.
Proof. exact process_overrun_ex. Qed.
Print Assumptions C10_intersect_scan_overrun_refuted.

(* ================================================================== (h) AddPaths_: one Vertex array for all paths *)

(* for every list of paths (empty lists, empty / one-point / all-duplicate paths included) and both values of is_open, no
   read or write of a Vertex slot leaves `new Vertex[total_vertex_count]` (add_paths_alloc returns None on such an
   access); the slots handed out never exceed the slots allocated; every next/prev left in the array points into it *)
Theorem C10_addpaths_fits :
  forall (is_open : bool) (ps : list (list pt)),
    exists (a : VertexAlloc.arr) (v : nat),
      VertexAlloc.add_paths_alloc is_open ps = Some (a, v) /\
      length a = VertexAlloc.total_count ps /\ (v <= VertexAlloc.total_count ps)%nat /\
      Forall (proofs.VertexAlloc.slot_ok (VertexAlloc.total_count ps)) a.
Proof. exact proofs.VertexAlloc.addpaths_fits. Qed.
Print Assumptions C10_addpaths_fits.

(* not vacuous: with one slot fewer than points the bounds check fires *)
Theorem C10_addpaths_short_array_fails :
  VertexAlloc.add_all false (repeat VertexAlloc.slot0 2) 0 [[(0, 0); (4, 0); (4, 4)]] = None.
Proof. exact proofs.VertexAlloc.addpaths_short_fails. Qed.
Print Assumptions C10_addpaths_short_array_fails.

(* ================================================================== (j) signed arithmetic up to 2^29 *)

(* For the scalar kernels translated from the source on every run (Gen_core / Gen_engine): the checked re-statement
   K_chk -- every signed int64 + - * and std::abs of the C++ body fails when its result leaves [-2^63, 2^63), __int128
   products when they leave [-2^127, 2^127) -- succeeds when all coordinates are within 2^29 in absolute value, and
   returns the value of the translated function (so the checked operations are the ones the translated body performs).
   Not covered: conversions double -> int64 (TopX only in the _partial form below, GetSegmentIntersectPt,
   GetClosestPointOnSegment), and loops (Area, the sweep itself): those are validated by UBSan runs only. *)
Theorem C10_no_overflow_2p29 :
  forall p1 p2 p3 : pt, NoOverflow.small p1 -> NoOverflow.small p2 -> NoOverflow.small p3 ->
    (exists r, NoOverflow.MidPoint_chk p1 p2 = Some r /\ r = Gen_core.MidPoint p1 p2) /\
    (exists r, NoOverflow.CrossProductSign_int128_chk p1 p2 p3 = Some r /\ r = Gen_core.CrossProductSign_int128 p1 p2 p3) /\
    (exists r, NoOverflow.CrossProductSign_portable_chk p1 p2 p3 = Some r /\ r = Gen_core.CrossProductSign_portable p1 p2 p3) /\
    (exists r, NoOverflow.IsCollinear_chk p1 p2 p3 = Some r /\ r = Gen_core.IsCollinear p1 p2 p3) /\
    (exists r, NoOverflow.CrossProduct_chk p1 p2 p3 = Some r /\ r = Gen_core.CrossProduct p1 p2 p3) /\
    (exists r, NoOverflow.DotProduct_chk p1 p2 p3 = Some r /\ r = Gen_core.DotProduct p1 p2 p3) /\
    (exists r, NoOverflow.PerpendicDistFromLineSqrd_chk p1 p2 p3 = Some r /\ r = Gen_core.PerpendicDistFromLineSqrd p1 p2 p3) /\
    (exists r, NoOverflow.GetDx_chk p1 p2 = Some r /\ r = Gen_engine.GetDx p1 p2) /\
    (exists r, NoOverflow.PtsReallyClose_chk p1 p2 = Some r /\ r = Gen_engine.PtsReallyClose p1 p2).
Proof. exact NoOverflow.no_overflow_2p29. Qed.
Print Assumptions C10_no_overflow_2p29.

(* small p  :=  |x|, |y| <= 536870912 = 2^29 *)
Theorem C10_small_is_2p29 : 536870912 = 2 ^ 29 /\ NoOverflow.small (536870912, -536870912).
Proof. exact (conj NoOverflow.small_bound NoOverflow.small_sat). Qed.
Print Assumptions C10_small_is_2p29.

(* TopX: the int64 subtraction and addition are in range PROVIDED the converted product is within 2^62 (hypothesis; the
   range of static_cast<int64_t>(nearbyint(dx * (currentY - bot.y))) is not proved) *)
Theorem C10_no_overflow_topx_partial :
  forall (ae : Active) (y : Z) (conv : float -> Z),
    NoOverflow.small (bot ae) -> NoOverflow.small (top ae) -> Z.abs y <= 536870912 ->
    (forall x, Z.abs (conv x) <= 4611686018427387904) ->
    exists r, NoOverflow.TopX_chk ae y conv = Some r.
Proof. exact NoOverflow.TopX_chk_total_partial. Qed.
Print Assumptions C10_no_overflow_topx_partial.

Theorem C10_topx_chk_is_topx :
  forall (ae : Active) (y r : Z), NoOverflow.TopX_chk ae y F2I64_rne = Some r -> r = Gen_engine.TopX ae y.
Proof. exact NoOverflow.TopX_chk_sound. Qed.
Print Assumptions C10_topx_chk_is_topx.

(* the checks are not vacuous: at 2^62 a coordinate difference leaves int64 *)
Theorem C10_overflow_at_2p62_refuted :
  NoOverflow.CrossProduct_chk (-4611686018427387904, 0) (4611686018427387904, 0) (0, 1) = None.
Proof. exact NoOverflow.chk_not_vacuous. Qed.
Print Assumptions C10_overflow_at_2p62_refuted.

(* ================================================================== (d) path utilities (models and proofs of C20) *)

(* SimplifyPath's GetNext/GetPrior (`while (flags[current]) ++current` with no bound) on the bounds-checked, fuelled
   model: never out of bounds, never out of fuel, for every path, epsilon (NaN and infinities included) and closedness *)
Theorem C10_simplify_safe :
  forall (p : path) (eps : float) (c : bool), exists r : path, PathUtils.simplify_path p eps c = PathUtils.Ok r.
Proof. exact PathUtilsInst.simplify_path_safe. Qed.
Print Assumptions C10_simplify_safe.

Theorem C10_trim_collinear_safe :
  forall (p : path) (o : bool), exists r : path, PathUtils.trim_collinear p o = PathUtils.Ok r /\ PathUtilsBase.sublist r p.
Proof. exact PathUtilsInst.trim_total_subseq. Qed.
Print Assumptions C10_trim_collinear_safe.

(* RamerDouglasPeucker: safe for every epsilon whose square is >= 0, i.e. every epsilon except NaN.  For NaN the code
   recursed without bound before /repo 75ed759 (`max_d <= NaN` is false, idx stays 0, RDP(path, 0, end) calls itself with
   the same arguments: stack overflow, checks/C10.py key rdp.nan-epsilon.unbounded-recursion); the model of the repaired
   exit test belongs to C20. *)
Theorem C10_rdp_safe_partial :
  forall (p : path) (eps : float),
    (0 <=? PathUtils.fsqr eps)%float = true -> exists r : path, PathUtils.rdp_path p eps = PathUtils.Ok r.
Proof. exact SafetyC10.rdp_safe_nonnan. Qed.
Print Assumptions C10_rdp_safe_partial.

(* ================================================================== (e) RectClipLines (model and proofs of C09) *)

(* the bounds-checked, fuelled model of RectClipLines64::ExecuteInternal / GetNextLocation never reads out of bounds and
   never runs out of fuel, whatever GetSegmentIntersection returns *)
Theorem C10_rectcliplines_terminates_in_bounds :
  forall (gsi : pt -> pt -> pt -> pt -> pt -> bool * pt) (r : RectLeaf.rect) (p : list pt),
    exists out : list (list RectLines.tpt), RectLines.rect_clip_lines_g gsi r p = RectLines.Ok out.
Proof. exact proofs.RectLines.lines_no_error. Qed.
Print Assumptions C10_rectcliplines_terminates_in_bounds.

(* ================================================================== (i) export arrays (model and proofs of C17) *)

(* CreateCPathsFromPathsT: every write is inside the allocation of GetPathCountAndCPathsArrayLen elements and the cursor
   ends exactly at its end *)
Theorem C10_export_writes_in_bounds :
  forall (E : Type) (ofc : Z -> E) (ezero : E) (D : nat) (ps : Export.cpaths E), Forall (Forall (Export.dims E D)) ps ->
    Export.enc_paths_buf E ofc ezero D ps = Some (Export.enc_paths E ofc ezero D ps, length (Export.enc_paths E ofc ezero D ps)).
Proof. exact proofs.Export.enc_paths_buf_ok. Qed.
Print Assumptions C10_export_writes_in_bounds.

(* ConvertCPathsToPathsT on an encoder output: every bounds-checked read succeeds *)
Theorem C10_export_reads_in_bounds :
  forall (E : Type) (ofc : Z -> E) (toc : E -> option Z) (ezero : E) (cmax : Z),
    (forall n, 0 <= n < cmax -> toc (ofc n) = Some n) ->
    forall (D : nat) (ps : Export.cpaths E), (0 < D)%nat -> Forall (Forall (Export.dims E D)) ps ->
      Z.of_nat (length (Export.enc_paths E ofc ezero D ps)) < cmax ->
      Export.dec_paths E toc D (Export.enc_paths E ofc ezero D ps) <> None.
Proof. exact proofs.Export.dec_enc_paths_in_bounds. Qed.
Print Assumptions C10_export_reads_in_bounds.

(* ================================================================== (g) offset index schedules (model and proofs of C07) *)

(* OffsetPolygon reads path[i] / norms[i] inside [0, len) for every len >= 0 (an empty path: no access at all) *)
Theorem C10_offset_polygon_accesses_in_bounds :
  forall len : Z, 0 <= len -> forallb (OffsetGeom.in_bounds len) (OffsetGeom.polygon_accesses len) = true.
Proof. exact OffsetGeomProofs.polygon_accesses_in_bounds. Qed.
Print Assumptions C10_offset_polygon_accesses_in_bounds.

(* OffsetOpenPath (Butt/Square/Round ends): in bounds for paths of at least two points (one-point paths take the
   single-point branch of DoGroupOffset) ... *)
Theorem C10_offset_open_accesses_in_bounds :
  forall len : Z, 2 <= len -> forallb (OffsetGeom.in_bounds len) (OffsetGeom.open_path_accesses len) = true.
Proof. exact OffsetGeomProofs.open_accesses_in_bounds. Qed.
Print Assumptions C10_offset_open_accesses_in_bounds.

Theorem C10_offset_joined_accesses_in_bounds :
  forall len : Z, 1 <= len -> forallb (OffsetGeom.in_bounds len) (OffsetGeom.open_joined_accesses len) = true.
Proof. exact OffsetGeomProofs.joined_accesses_in_bounds. Qed.
Print Assumptions C10_offset_joined_accesses_in_bounds.

(* ... and NOT for an EMPTY path: the first access is path[0] of an empty vector.  DoGroupOffset passed empty paths on to
   these routines before /repo e710a8d (DESIGN section 9 item 4; checks/C10.py key offset.empty-path.open-end-type); it now
   skips them, so only the hypotheses above can occur. *)
Theorem C10_offset_open_empty_path_refuted :
  forallb (OffsetGeom.in_bounds 0) (OffsetGeom.open_path_accesses 0) = false /\
  In (OffsetGeom.APath, 0) (OffsetGeom.open_path_accesses 0).
Proof. exact SafetyC10.offset_open_empty_out_of_bounds. Qed.
Print Assumptions C10_offset_open_empty_path_refuted.

Theorem C10_offset_joined_empty_path_refuted :
  forallb (OffsetGeom.in_bounds 0) (OffsetGeom.open_joined_accesses 0) = false.
Proof. exact SafetyC10.offset_joined_empty_out_of_bounds. Qed.
Print Assumptions C10_offset_joined_empty_path_refuted.

(* ================================================================== (c) owner-chain loops (model and proofs of C04) *)

(* GetRealOutRec / IsValidOwner / SetOwner walk `owner` pointers with no bound.  In the model (fuel = number of OutRecs + 1)
   none of them runs out of fuel on an acyclic, in-range owner map ... *)
Theorem C10_owner_loops_terminate :
  forall m : Owner.omap, Owner.acyclic m -> (forall i o, Owner.owner_of m i = Some o -> (o < length m)%nat) ->
  forall i j : nat,
    (exists r, Owner.get_real (Owner.fuel_of m) m (Some i) = Some r) /\
    (exists b, Owner.is_valid_owner (Owner.fuel_of m) m i j = Some b) /\
    (i <> j -> (j < length m)%nat -> exists m', Owner.set_owner (Owner.fuel_of m) m i j = Some m').
Proof. exact proofs.Owner.owner_loops_terminate. Qed.
Print Assumptions C10_owner_loops_terminate.

(* ... and every sequence of the engine's owner operations whose call-site conditions hold keeps the map such a forest *)
Theorem C10_owner_forest :
  forall ops, proofs.Owner.run_ok [] ops ->
    exists m, Owner.run_ops [] ops = Some m /\ Owner.acyclic m /\
      (forall i o, Owner.owner_of m i = Some o -> (o < length m)%nat).
Proof. exact proofs.Owner.owner_forest. Qed.
Print Assumptions C10_owner_forest.

(* ================================================================== detail::Minkowski (model and proofs of C19) *)

(* the index arithmetic of detail::Minkowski (`tmp[g][h]`, h carried across iterations) and of Area: the bounds-checked,
   fuelled model never reports MOob / MFuel, for every pattern and path (empty ones included) *)
Theorem C10_minkowski_in_bounds :
  forall (pat pth : path) (s c : bool), exists quads, Minkowski.minkowski pat pth s c = Minkowski.MOk quads.
Proof. exact proofs.Minkowski.minkowski_no_error. Qed.
Print Assumptions C10_minkowski_in_bounds.
