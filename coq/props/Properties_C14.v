(* C14 -- independent objects can be used from different threads.
   Model: model/Threads.v (the isolation premise is built into the step type); regenerated: gen/Gen_globals.v,
   gen/Gen_fields.v (shared_writes).  The theorems about schedules hold for *every* interleaving; that the library
   satisfies the premise is decided on the regenerated tables and observed with ThreadSanitizer (checks/C14.py). *)
From Coq Require Import List Bool String NArith.
From Clip Require Import gen.Gen_globals gen.Gen_fields model.Threads proofs.Threads proofs.Threads_tables.
Import ListNotations.

(* any complete interleaving leaves every thread with the private store it reaches alone *)
Theorem C14_isolated_serial :
  forall (P R : Type) (step : nat -> R -> P -> option P) (r : R) (s0 : nat -> P) (sched threads : list nat),
    complete P R step r sched s0 threads ->
    forall t, In t threads ->
      (exists fuel, alone_done P R step r s0 t fuel) /\
      forall fuel, alone_done P R step r s0 t fuel ->
        final_private P (run P R step r sched s0) t = run_alone P R step r s0 t fuel.
Proof. exact isolated_serial. Qed.
Print Assumptions C14_isolated_serial.

(* two accesses of an execution that touch the same location, one of them writing, belong to the same thread *)
Theorem C14_no_race :
  forall (P R : Type) (step : nat -> R -> P -> option P) (loc : Type) (footprint : nat -> R -> P -> list (access loc))
         (r : R) (sched : list nat) (s0 : nat -> P) (i j : nat) (e1 e2 : nat * access loc),
    nth_error (trace P R step loc footprint r sched s0) i = Some e1 ->
    nth_error (trace P R step loc footprint r sched s0) j = Some e2 ->
    conflicting loc e1 e2 -> same_thread loc e1 e2.
Proof. exact no_race. Qed.
Print Assumptions C14_no_race.

(* premise (a): every object with static storage duration that clang sees in the three translation units and all
   headers (both with and without USINGZ) is const/constexpr, or never written, or thread_local, or one of the two
   export-layer callback slots written only by their setters; and no text escaped the scan *)
Theorem C14_globals_immutable : forallb immutable Gen_globals.table = true.
Proof. exact globals_immutable. Qed.
Print Assumptions C14_globals_immutable.

(* premise (b): no member of Vertex, LocalMinima or ReuseableDataContainer64 is written by a function reachable from
   Execute; Vertex members (flags included) are written only by AddPaths_ and the AddLocMin functions *)
Theorem C14_vertex_writers :
  forallb shared_write_ok Gen_fields.shared_writes = true /\ vertex_members_listed = true.
Proof. exact shared_writes_ok. Qed.
Print Assumptions C14_vertex_writers.
