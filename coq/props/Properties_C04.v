(* C04 -- property theorems (statements only; proofs live in proofs/Owner.v). *)
From Clip Require Import model.Owner proofs.Owner model.TreeCheck proofs.TreeContains.
From Coq Require Import List Bool Arith ZArith.
Import ListNotations.

(* PolyPath::IsHole() is "Level even and non-zero"; a polygon at 0-based depth d below the root has Level d+1,
   so holes are exactly the polygons at odd depth. *)
Theorem C04_level_hole : forall d, is_hole_of_level (S d) = Nat.odd d.
Proof. intros d. unfold is_hole_of_level. cbn [Nat.eqb negb andb]. rewrite Nat.even_succ. reflexivity. Qed.
Print Assumptions C04_level_hole.

(* For every history of owner edits (SetOwner with its compression and cycle-avoidance loops, owner = nullptr,
   owner = GetRealOutRec(owner), pts = nullptr, new OutRecs owned by an OutRec or by its owner, the IsValidOwner-guarded
   assignment, the climbing step, split-list edits) in which SetOwner is called with two different existing OutRecs and
   new owners exist (run_ok: what every call site guarantees), no loop of the model runs out of fuel (= no loop of the
   code fails to terminate), the owner graph is a forest, and no owner index dangles. *)
Theorem C04_owner_forest : forall ops, run_ok [] ops ->
  exists m, run_ops [] ops = Some m /\ acyclic m /\ (forall i o, owner_of m i = Some o -> o < length m).
Proof. exact owner_forest. Qed.
Print Assumptions C04_owner_forest.

(* ... and in such a state GetRealOutRec, IsValidOwner and SetOwner terminate within the fuel of the executable model,
   so a HANG answer of the extracted model is a genuine non-termination. *)
Theorem C04_owner_loops_terminate : forall m, acyclic m -> (forall i o, owner_of m i = Some o -> o < length m) ->
  forall i j,
    (exists r, get_real (fuel_of m) m (Some i) = Some r) /\
    (exists b, is_valid_owner (fuel_of m) m i j = Some b) /\
    (i <> j -> j < length m -> exists m', set_owner (fuel_of m) m i j = Some m').
Proof. exact owner_loops_terminate. Qed.
Print Assumptions C04_owner_loops_terminate.

(* The call-site guarantee is necessary: SetOwner(x, x) makes x its own owner (replayed on the real SetOwner by the check). *)
Theorem C04_owner_forest_refuted_without_wf : exists ops m, run_ops [] ops = Some m /\ ~ acyclic m.
Proof. exact owner_forest_refuted_without_wf. Qed.
Print Assumptions C04_owner_forest_refuted_without_wf.

(* Whatever the ownership state and whatever the answers of the geometric tests, every parent that BuildTree64's owner
   search (RecursiveCheckOwners + CheckSplitOwner, in each of its shapes guard_pointless/own_first/mark_chain) gives to a
   polygon passed the code's own containment tests for exactly that pair: Path1InsidePath2(child, parent) and
   parent.bounds.Contains(child.bounds).  (That Path1InsidePath2 agrees with true containment, and that the accepted
   parent is the innermost container, is NOT proved -- that is what the exact checker tree_check validates.) *)
Theorem C04_tree_parent_inside :
  forall (inside bcontains : nat -> nat -> bool) (bempty is_open : nat -> bool) (guard_pointless own_first mark_chain : bool)
         fuel m m' t i p,
    build_tree inside bcontains bempty is_open guard_pointless own_first mark_chain fuel m = Some (Some (m', t)) ->
    parent_of t i = Some (Some p) -> inside i p = true /\ bcontains p i = true.
Proof. exact tree_parent_inside. Qed.
Print Assumptions C04_tree_parent_inside.

(* CheckSplitOwner as it is in the snapshot (recursive_split marker, unprotected "#942" descent into the split list of a
   split without points) terminates in every state whose owner graph is a forest and in which no chain of point-less
   OutRecs through split lists returns to itself (rk decreases along such chains) -- whatever the geometric tests answer. *)
Theorem C04_check_split_terminates : forall inside bcontains (rk : nat -> nat) m i spl,
  acyclic m -> (forall a o, owner_of m a = Some o -> o < length m) ->
  (forall s s2, pts_of m s = false -> In s2 (splits_of m s) -> pts_of m s2 = false -> rk s2 < rk s) ->
  exists fuel r, check_split_owner inside bcontains false fuel m i spl = Some r.
Proof. exact check_split_terminates. Qed.
Print Assumptions C04_check_split_terminates.

(* Without the hypothesis on point-less OutRecs the statement is false: an OutRec without points whose split list contains
   itself sends CheckSplitOwner into an unbounded recursion.  The sweep DOES produce such states (MoveSplits copies a split
   list that contains the receiving OutRec, which later loses its points), and Execute(..., PolyTree64&) overflows the stack
   on them: triage/demos/C04-stack-overflow.cpp.  The check replays the witness on the real CheckSplitOwner. *)
Theorem C04_check_split_terminates_refuted_pointless_cycle : forall inside bcontains,
  exists m i spl, forall fuel, check_split_owner inside bcontains false fuel m i spl = None.
Proof. exact check_split_refuted_pointless_cycle. Qed.
Print Assumptions C04_check_split_terminates_refuted_pointless_cycle.

(* With the repair (the descent into the split list of a point-less split is protected by the same marker) CheckSplitOwner
   terminates in every state whose owner graph is a forest, without any hypothesis on the split lists. *)
Theorem C04_check_split_guarded_terminates : forall inside bcontains m i spl,
  acyclic m -> (forall a o, owner_of m a = Some o -> o < length m) ->
  exists fuel r, check_split_owner inside bcontains true fuel m i spl = Some r.
Proof. exact check_split_guarded_terminates. Qed.
Print Assumptions C04_check_split_guarded_terminates.

(* CheckPolytreeFullyContainsChildren (clipper.h; model TreeCheck.fully_contains: the counter walk of
   details::PolyPath64ContainsChildren over every parent/child pair below the top level, PointInPolygon through its
   exact specification) answers true on every tree of polygons (>= 3 vertices each) in which the exact checker finds no
   child outside its parent (clause 32 of tree_check).  The converse is false (one vertex outside is tolerated:
   TreeContains.fully_contains_weaker_than_clause_32); the check compares the real function with the extracted model on
   library-built and hand-built trees. *)
Theorem C04_fully_contains_of_tree_check : forall rv nodes closed opened topen,
  (forall i, ~ In (code_child_outside, i) (tree_check rv nodes closed opened topen)) ->
  (forall n, In n nodes -> (3 <= length (tn_path n))%nat) ->
  fully_contains nodes = true.
Proof. exact fully_contains_of_tree_check. Qed.
Print Assumptions C04_fully_contains_of_tree_check.
