(* C04 -- property theorems (statements only; proofs live in proofs/). *)
From Clip Require Import model.Owner.
From Coq Require Import List Bool Arith.
Import ListNotations.

(* PolyPath::IsHole() is "Level even and non-zero"; a polygon at 0-based depth d below the root has Level d+1,
   so holes are exactly the polygons at odd depth. *)
Theorem C04_level_hole : forall d, is_hole_of_level (S d) = Nat.odd d.
Proof. intros d. unfold is_hole_of_level. cbn [Nat.eqb negb andb]. rewrite Nat.even_succ. reflexivity. Qed.
Print Assumptions C04_level_hole.
