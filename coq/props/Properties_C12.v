(* C12 -- results depend only on the current inputs, not on an object's history.
   Models: model/ObjectSM.v (Clipper64 state machine with the sort cache, RectClip64 per-path loop, member policy);
   regenerated: gen/Gen_fields.v.  The offset plan (which delta / end type each path of a ClipperOffset gets) is
   model/OffsetPlan.v, owned by the offset checks; here offset history dependence is decided by validation. *)
From Coq Require Import ZArith List Bool String Permutation Sorted.
From Clip Require Import base.Region gen.Gen_fields model.ObjectSM proofs.ObjectSM proofs.ObjectSM_fields.
Import ListNotations.

(* For every history of AddSubject/AddOpenSubject/AddClip/AddReuseableData/option setters/Execute/Clear on one object,
   whatever the sweep does with what it is given -- including a dirty scratch state -- the call returns what the
   sweep returns on the stably sorted minima of the paths added since the last Clear, with the current options and a
   clean scratch state.  (No bound on the history; the engine is a parameter, the sweep itself is not modelled.) *)
Theorem C12_refines :
  forall (scratch : Type) (empty_scratch : scratch) (result : Type)
         (engine_raw : scratch -> list locmin -> bool -> opts -> clip_type -> fill_rule -> exec_kind -> result * scratch)
         (h : list op) (ct : clip_type) (fr : fill_rule) (k : exec_kind),
    c_last _ _ (run_sm scratch empty_scratch result engine_raw (h ++ [Execute ct fr k]))
    = Some (engine scratch empty_scratch result engine_raw
                   (ssort lm_lt (minima (abs h))) (has_open (abs h)) (a_opts (abs h)) ct fr k).
Proof. exact refines. Qed.
Print Assumptions C12_refines.

(* ... hence equal to what a freshly constructed object returns when it is given the same options and paths *)
Theorem C12_fresh_equiv :
  forall (scratch : Type) (empty_scratch : scratch) (result : Type)
         (engine_raw : scratch -> list locmin -> bool -> opts -> clip_type -> fill_rule -> exec_kind -> result * scratch)
         (h : list op) (ct : clip_type) (fr : fill_rule) (k : exec_kind),
    c_last _ _ (run_sm scratch empty_scratch result engine_raw (h ++ [Execute ct fr k]))
    = c_last _ _ (run_sm scratch empty_scratch result engine_raw (fresh_history (abs h) ct fr k)).
Proof. exact fresh_equiv. Qed.
Print Assumptions C12_fresh_equiv.

(* Re-sorting a sorted prefix plus newly added minima = sorting everything once (LocMinSorter, stable) *)
Theorem C12_sort_incremental :
  forall l l' : list locmin, ssort lm_lt (ssort lm_lt l ++ l') = ssort lm_lt (l ++ l').
Proof. exact sort_incremental. Qed.
Print Assumptions C12_sort_incremental.

(* the insertion specification is a stable sort for LocMinSorter: permutation, ordered, equivalent elements keep
   their relative order -- the three properties that determine std::stable_sort's result uniquely *)
Theorem C12_ssort_is_stable_sort :
  forall l : list locmin,
    Permutation (ssort lm_lt l) l
    /\ StronglySorted (fun a b => lm_lt b a = false) (ssort lm_lt l)
    /\ forall a, filter (eqv lm_lt a) (ssort lm_lt l) = filter (eqv lm_lt a) l.
Proof. exact ssort_lm_is_stable_sort. Qed.
Print Assumptions C12_ssort_is_stable_sort.

(* every data member of ClipperBase, Clipper64, ClipperD, ClipperOffset, RectClip64, RectClipLines64 that clang sees
   in the current source is classified, and the writes its classification rests on are still in the code *)
Theorem C12_fields_covered : forallb field_ok Gen_fields.table = true.
Proof. exact fields_covered. Qed.
Print Assumptions C12_fields_covered.

(* RectClip64::Execute: the per-path loop with its clean-up treats every path as if it were the only one ... *)
Theorem C12_rect_stateless :
  forall (path out scratch : Type) (empty : scratch) (skip : path -> option (list out))
         (clip : scratch -> path -> list out * scratch) (ps qs : list path),
    rect_execute path out scratch empty skip clip (ps ++ qs)
    = rect_execute path out scratch empty skip clip ps ++ rect_execute path out scratch empty skip clip qs.
Proof. exact rect_stateless. Qed.
Print Assumptions C12_rect_stateless.

(* ... and any sequence of calls on one object equals the same calls on fresh objects *)
Theorem C12_rect_object_reuse :
  forall (path out scratch : Type) (empty : scratch) (skip : path -> option (list out))
         (clip : scratch -> path -> list out * scratch) (calls : list (list path)),
    rect_calls path out scratch empty skip clip empty calls
    = map (rect_execute path out scratch empty skip clip) calls.
Proof. exact rect_object_reuse. Qed.
Print Assumptions C12_rect_object_reuse.
