(* C12 -- results depend only on the current inputs, not on an object's history.
   Models: model/ObjectSM.v (Clipper64 state machine with the sort cache, RectClip64 per-path loop, member policy);
   regenerated: gen/Gen_fields.v.  The offset plan (which routine / delta / end type / arc steps each path of a
   ClipperOffset gets, which fill rule the call uses) is model/OffsetPlan.v, tied to the code by the observer
   correspondence of checks/C06.py and C07.py; its order-independence theorems are at the end of this file, the
   geometry behind the plan is validated (far-apart paths and groups against each alone) by checks/C12.py. *)
From Coq Require Import ZArith List Bool String Permutation Sorted Floats.
From Clip Require Import base.Region gen.Gen_fields model.ObjectSM proofs.ObjectSM proofs.ObjectSM_fields.
From Clip Require Import model.OffsetPlan proofs.OffsetPlanProofs.
Import ListNotations.

(* For every history of AddSubject/AddOpenSubject/AddClip/AddReuseableData/option setters/Execute/Clear on one object,
   whatever the sweep does with what it is given -- including a dirty scratch state -- the call returns what the
   sweep returns on the stably sorted minima of the paths added since the last Clear, with the current options and a
   clean scratch state.  (No bound on the history; the engine is a parameter, the sweep itself is not modelled.) *)
Theorem C12_refines :
  forall (scratch : Type) (empty_scratch : scratch) (result : Type)
         (engine_raw : scratch -> list locmin -> bool -> opts -> clip_type -> fill_rule -> exec_kind -> result * scratch)
         (h : list op) (ct : clip_type) (fr : fill_rule) (k : exec_kind),
    c_last _ _ (run_sm scratch empty_scratch result engine_raw (h ++ [Execute ct fr k]))
    = Some (engine scratch empty_scratch result engine_raw
                   (ssort lm_lt (minima (abs h))) (has_open (abs h)) (a_opts (abs h)) ct fr k).
Proof. exact refines. Qed.
Print Assumptions C12_refines.

(* ... hence equal to what a freshly constructed object returns when it is given the same options and paths *)
Theorem C12_fresh_equiv :
  forall (scratch : Type) (empty_scratch : scratch) (result : Type)
         (engine_raw : scratch -> list locmin -> bool -> opts -> clip_type -> fill_rule -> exec_kind -> result * scratch)
         (h : list op) (ct : clip_type) (fr : fill_rule) (k : exec_kind),
    c_last _ _ (run_sm scratch empty_scratch result engine_raw (h ++ [Execute ct fr k]))
    = c_last _ _ (run_sm scratch empty_scratch result engine_raw (fresh_history (abs h) ct fr k)).
Proof. exact fresh_equiv. Qed.
Print Assumptions C12_fresh_equiv.

(* Re-sorting a sorted prefix plus newly added minima = sorting everything once (LocMinSorter, stable) *)
Theorem C12_sort_incremental :
  forall l l' : list locmin, ssort lm_lt (ssort lm_lt l ++ l') = ssort lm_lt (l ++ l').
Proof. exact sort_incremental. Qed.
Print Assumptions C12_sort_incremental.

(* the insertion specification is a stable sort for LocMinSorter: permutation, ordered, equivalent elements keep
   their relative order -- the three properties that determine std::stable_sort's result uniquely *)
Theorem C12_ssort_is_stable_sort :
  forall l : list locmin,
    Permutation (ssort lm_lt l) l
    /\ StronglySorted (fun a b => lm_lt b a = false) (ssort lm_lt l)
    /\ forall a, filter (eqv lm_lt a) (ssort lm_lt l) = filter (eqv lm_lt a) l.
Proof. exact ssort_lm_is_stable_sort. Qed.
Print Assumptions C12_ssort_is_stable_sort.

(* every data member of ClipperBase, Clipper64, ClipperD, ClipperOffset, RectClip64, RectClipLines64 that clang sees
   in the current source is classified, and the writes its classification rests on are still in the code *)
Theorem C12_fields_covered : forallb field_ok Gen_fields.table = true.
Proof. exact fields_covered. Qed.
Print Assumptions C12_fields_covered.

(* RectClip64::Execute: the per-path loop with its clean-up treats every path as if it were the only one ... *)
Theorem C12_rect_stateless :
  forall (path out scratch : Type) (empty : scratch) (skip : path -> option (list out))
         (clip : scratch -> path -> list out * scratch) (ps qs : list path),
    rect_execute path out scratch empty skip clip (ps ++ qs)
    = rect_execute path out scratch empty skip clip ps ++ rect_execute path out scratch empty skip clip qs.
Proof. exact rect_stateless. Qed.
Print Assumptions C12_rect_stateless.

(* ... and any sequence of calls on one object equals the same calls on fresh objects *)
Theorem C12_rect_object_reuse :
  forall (path out scratch : Type) (empty : scratch) (skip : path -> option (list out))
         (clip : scratch -> path -> list out * scratch) (calls : list (list path)),
    rect_calls path out scratch empty skip clip empty calls
    = map (rect_execute path out scratch empty skip clip) calls.
Proof. exact rect_object_reuse. Qed.
Print Assumptions C12_rect_object_reuse.

(* ClipperOffset, one call: what a path is offset with -- its length, group_delta_, join type, the routine
   (polygon / joined / open path / point), the end type (for the open-path routine) and the arc step constants (for
   groups with a round join or end) -- listed path by path for group number i, is a function of that group and of the
   delta passed to Execute alone ... *)
Theorem C12_plan_group_views : forall (gs : list group) (delta : float) (i : nat) (g : group),
  nth_error gs i = Some g ->
  map (view g) (entries_of i (plan gs delta)) = map (own_view g delta) (g_lens g).
Proof. exact plan_group_views. Qed.
Print Assumptions C12_plan_group_views.

(* ... hence the same whatever groups were added before or after it, and in whatever order (prefix- and permutation-
   insensitive).  (Refuted for the code before offset-endtype-leak.patch and offset-delta-abs-leak.patch: witnesses in
   the header of model/OffsetPlan.v.) *)
Theorem C12_plan_order_independent : forall (gs gs' : list group) (delta : float) (i j : nat) (g : group),
  nth_error gs i = Some g -> nth_error gs' j = Some g ->
  map (view g) (entries_of i (plan gs delta)) = map (view g) (entries_of j (plan gs' delta)).
Proof. exact plan_order_independent. Qed.
Print Assumptions C12_plan_order_independent.

(* within a group: reordering its paths (the group keeping join, end type and the orientation its lowest path gives
   it) only reorders what the paths are offset with *)
Theorem C12_plan_path_order_independent : forall (gs gs' : list group) (delta : float) (i j : nat) (g g' : group),
  nth_error gs i = Some g -> nth_error gs' j = Some g' ->
  same_fields g g' -> Permutation (g_lens g) (g_lens g') ->
  Permutation (map (view g) (entries_of i (plan gs delta))) (map (view g) (entries_of j (plan gs' delta))).
Proof. exact plan_path_order_independent. Qed.
Print Assumptions C12_plan_path_order_independent.

(* the fill rule of the clean-up union and the reversal flag: independent of the order of the groups when the oriented
   Polygon groups (those with a lowest path) agree ... *)
Theorem C12_fill_rule_consistent : forall (rev : bool) (gs : list group) (delta : float) (r : bool),
  (forall g, In g gs -> oriented g = true -> g_reversed g = r) ->
  (exists g, In g gs /\ oriented g = true) ->
  x_fill_negative (execute_plan rev gs delta) = r /\ x_reverse_solution (execute_plan rev gs delta) = xorb rev r.
Proof. exact orientation_preserved. Qed.
Print Assumptions C12_fill_rule_consistent.

(* ... and NOT in general: with Polygon groups of opposite orientation the first one decides (known finding
   offset.group-orientation.first-polygon-group-decides; witness replayed on the real code by checks/C12.py,
   demo /verif/triage/demos/offset-group-orientation.cpp) *)
Theorem C12_fill_rule_order_independent_refuted :
  exists gs gs' delta,
    Permutation gs gs' /\ insignificant delta = false /\
    x_fill_negative (execute_plan false gs delta) <> x_fill_negative (execute_plan false gs' delta).
Proof. exact fill_rule_order_dependent_refuted. Qed.
Print Assumptions C12_fill_rule_order_independent_refuted.
