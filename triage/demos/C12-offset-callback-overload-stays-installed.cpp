// C12 observation (NOT judged by the check, reported to the integrator for a decision):
// ClipperOffset::Execute(DeltaCallback64 cb, Paths64& paths) stores cb in deltaCallback64_ and calls Execute(1.0, paths); it never
// removes it.  A later Execute(delta, paths) on the same object therefore ignores delta at every vertex and uses the callback
// of the EARLIER call, while a fresh object given the same paths and options offsets by delta.  Whether this breaks C12
// ("a ClipperOffset object gives the same result as a freshly constructed one given the same paths and options: executing
// repeatedly ... never changes an outcome") depends on whether the callback handed to one Execute call counts as an option
// of the object (SetDeltaCallback is a public setter and the overload is documented as its shorthand in the C# port) or as
// an argument of that one call.  checks/C06.py, C07.py and C12.py compare the later Execute with a fresh object on which
// SetDeltaCallback(cb) was called (equal on the unchanged tree) and only count how often it differs from a fresh object
// without callback (coverage.execute_delta_after_callback_overload_uses_the_callback).
// Build: g++ -std=c++17 -O1 -I$REPO/CPP/Clipper2Lib/include C12-offset-callback-overload-stays-installed.cpp \
//        $REPO/CPP/Clipper2Lib/src/clipper.engine.cpp $REPO/CPP/Clipper2Lib/src/clipper.offset.cpp \
//        $REPO/CPP/Clipper2Lib/src/clipper.rectclip.cpp -o /tmp/offset-callback-overload
// Public API only.  Returns 1 when the later Execute(delta) differs from a fresh object without callback.
#include <cstdio>
#include "clipper2/clipper.h"
using namespace Clipper2Lib;

int main()
{
  const Path64 sq = { {0, 0}, {100, 0}, {100, 100}, {0, 100} };
  DeltaCallback64 cb = [](const Path64&, const PathD&, size_t, size_t) { return 3.0; };
  Paths64 first, later, fresh, fresh_cb;
  ClipperOffset used;
  used.AddPath(sq, JoinType::Miter, EndType::Polygon);
  used.Execute(cb, first);          // offsets by 3 (area 106 * 106)
  used.Execute(20.0, later);        // asked for 20
  { ClipperOffset co; co.AddPath(sq, JoinType::Miter, EndType::Polygon); co.Execute(20.0, fresh); }
  { ClipperOffset co; co.AddPath(sq, JoinType::Miter, EndType::Polygon); co.SetDeltaCallback(cb); co.Execute(20.0, fresh_cb); }
  printf("Execute(cb) on the object:                     area %.0f\n", Area(first));
  printf("Execute(20) afterwards on the same object:     area %.0f\n", Area(later));
  printf("Execute(20) on a fresh object:                 area %.0f\n", Area(fresh));
  printf("Execute(20) on a fresh object + SetDeltaCallback: area %.0f\n", Area(fresh_cb));
  return later == fresh ? 0 : 1;
}
