// C04 demo: an ISLAND that a horizontal join split off the outer polygon, and that lies inside a HOLE which was split
// off the same outer polygon, ends up at the top level of the PolyTree64: a top-level polygon that lies inside its
// sibling (the outer polygon) -- it should be the child of the hole.  ProcessHorzJoins gives the split-off ring the
// owner of its origin (or2->owner = or1->owner = nullptr), the hole is only reachable through or1->splits, and
// RecursiveCheckOwners never looks at the split list of the OutRec a ring was split from.
// Found by gen/splitmerge.py (VERIF_SEED=2).  Same family as C04-split-origin.cpp (there: a hole at the top level).
// Build: g++ -std=c++17 -O1 -I/repo/CPP/Clipper2Lib/include /verif/triage/demos/C04-split-sibling-island.cpp \
//          /repo/CPP/Clipper2Lib/src/clipper.engine.cpp -o /tmp/c04-split-sibling-island
// Only public API is used.  Returns 1 when the property fails.
#include <cstdio>
#include "clipper2/clipper.h"
using namespace Clipper2Lib;

static int bad = 0;

static void Walk(const PolyPath64& n, int depth)
{
  for (size_t i = 0; i < n.Count(); ++i)
  {
    const PolyPath64* c = n[i];
    printf("%*s%s level=%d area=%g :", depth * 2 + 2, "", c->IsHole() ? "hole " : "outer", (int)c->Level(), Area(c->Polygon()));
    for (const Point64& p : c->Polygon()) printf(" (%lld,%lld)", (long long)p.x, (long long)p.y);
    printf("\n");
    // "siblings are disjoint": no vertex of a polygon lies strictly inside one of its siblings
    for (size_t j = 0; j < n.Count(); ++j)
      if (j != i)
        for (const Point64& p : c->Polygon())
          if (PointInPolygon(p, n[j]->Polygon()) == PointInPolygonResult::IsInside)
          {
            printf("%*s  ^^ PROPERTY FAILS: vertex (%lld,%lld) lies strictly inside sibling %d\n", depth * 2 + 2, "",
                   (long long)p.x, (long long)p.y, (int)j);
            ++bad;
            break;
          }
    Walk(*c, depth + 1);
  }
}

int main()
{
  // axis-parallel polygons on the lattice of multiples of 4: an "n" shape standing in the gap of a two-pronged comb,
  // a bar under the comb, a block hanging from the bar that closes the comb.  Union, EvenOdd.
  Paths64 subject = {
    MakePath({ 28,-40, 48,-40, 48,-24, 44,-24, 44,-36, 32,-36, 32,-24, 28,-24 }),
    MakePath({ 0,-24, 72,-24, 72,-20, 0,-20 }),
    MakePath({ 0,-48, 28,-48, 28,-28, 52,-28, 52,-48, 64,-48, 64,-24, 0,-24 }),
    MakePath({ 36,-48, 44,-48, 44,-36, 36,-36 }),
    MakePath({ 0,-52, 56,-52, 56,-48, 0,-48 }) };
  Clipper64 c;
  c.AddSubject(subject);
  PolyTree64 tree; Paths64 open;
  bool ok = c.Execute(ClipType::Union, FillRule::EvenOdd, tree, open);
  printf("Union/EvenOdd: Execute -> %d, tree:\n", (int)ok);
  Walk(tree, 0);
  printf("CheckPolytreeFullyContainsChildren -> %d (the misplaced island is a child of the root: not looked at)\n",
         (int)CheckPolytreeFullyContainsChildren(tree));
  printf("demanded: the island (44,-40)(48,-40)(48,-28)(44,-28)(44,-36) is the child of the 20-vertex hole that surrounds it\n");
  printf("%s\n", bad ? "FAIL" : "PASS");
  return bad ? 1 : 0;
}
