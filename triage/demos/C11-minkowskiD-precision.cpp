// C11 demo: MinkowskiSum/MinkowskiDiff(PathD, ..., decimalPlaces) never call CheckPrecisionRange and never look at
// the error code: a precision outside +-8 is used as it is (scale 10^12), in both build configurations.
// Property C11: "A decimal precision outside +-8 ... [is] reported through an exception (or, with exceptions
// disabled, through the error code together with an empty result) ... never silently accepted."
//
//   g++ -std=c++17 -O1 -I/repo/CPP/Clipper2Lib/include /verif/triage/demos/C11-minkowskiD-precision.cpp \
//       /repo/CPP/Clipper2Lib/src/clipper.engine.cpp /repo/CPP/Clipper2Lib/src/clipper.offset.cpp \
//       /repo/CPP/Clipper2Lib/src/clipper.rectclip.cpp -o /tmp/c11-mink && /tmp/c11-mink        (and with -fno-exceptions)
// Exit status: number of silently accepted calls.
#include <cstdio>
#include "clipper2/clipper.h"
using namespace Clipper2Lib;

static PathD P(std::initializer_list<double> v) {
  PathD r; for (auto i = v.begin(); i != v.end(); i += 2) r.push_back(PointD(*i, *(i + 1))); return r; }
static size_t count(const PathsD& ps) { size_t n = 0; for (auto& p : ps) n += p.size(); return n; }

static int failures = 0;
template <class F> static void expect_reported(const char* what, F f) {
  size_t npts = 0;
#if defined(__cpp_exceptions)
  try { npts = f(); }
  catch (const Clipper2Exception& e) { std::printf("ok      %-40s threw \"%s\"\n", what, e.what()); return; }
  std::printf("SILENT  %-40s no exception, %zu points returned (demanded: exception)\n", what, npts); ++failures;
#else
  npts = f();
  if (npts == 0) { std::printf("ok      %-40s empty result\n", what); return; }
  std::printf("SILENT  %-40s %zu points returned (demanded: an empty result; the function has no error code)\n", what, npts); ++failures;
#endif
}

int main() {
  PathD tri = P({ 0, 0, 1, 0, 0, 1 }), sq = P({ 0, 0, 10, 0, 10, 10, 0, 10 });
  expect_reported("MinkowskiSum(tri, sq, closed, 12)",  [&] { return count(MinkowskiSum(tri, sq, true, 12)); });
  expect_reported("MinkowskiDiff(tri, sq, closed, 9)",  [&] { return count(MinkowskiDiff(tri, sq, true, 9)); });
  expect_reported("MinkowskiSum(big tri, big sq, closed, -9)", [&] {
    return count(MinkowskiSum(P({ 0, 0, 2e9, 0, 0, 2e9 }), P({ 0, 0, 1e10, 0, 1e10, 1e10, 0, 1e10 }), true, -9)); });
  expect_reported("TrimCollinear(sq, 12) [control]",    [&] { return TrimCollinear(sq, 12).size(); });
  std::printf("%d silent acceptance(s)\n", failures);
  return failures;
}
