// C16 demo (key inflateD.delta0-returns-unrounded-input): InflatePaths(PathsD, delta = 0, ..., precision) returns its
// input untouched, whereas the integer operation on the scaled input, InflatePaths(Paths64, 0, ...), returns the scaled
// and rounded input, so that the property demands round(input * 10^precision) / 10^precision.
// Build: g++ -std=c++17 -O1 -I/repo/CPP/Clipper2Lib/include /verif/triage/demos/C16-inflate-delta0.cpp \
//          /repo/CPP/Clipper2Lib/src/clipper.engine.cpp /repo/CPP/Clipper2Lib/src/clipper.offset.cpp -o /tmp/c16-delta0
// Only the public API is used.  Returns 1 when the property (D result == descaled 64-bit result) fails.
#include <cstdio>
#include <cmath>
#include "clipper2/clipper.h"
using namespace Clipper2Lib;

static void show(const char* name, const PathsD& ps)
{
  printf("%s: %zu path(s)", name, ps.size());
  for (const PathD& p : ps) { printf(" ["); for (const PointD& q : p) printf(" (%.17g,%.17g)", q.x, q.y); printf(" ]"); }
  printf("\n");
}

static int one(const PathsD& in, double delta, JoinType jt, EndType et, int precision)
{
  PathsD got = InflatePaths(in, delta, jt, et, 2.0, precision, 0.0);
  // what the property demands: the integer operation on round(input * scale) with delta * scale, divided by the scale
  const double scale = std::pow(10, precision);
  int ec = 0;
  Paths64 scaled = ScalePaths<int64_t, double>(in, scale, ec);
  Paths64 res64 = InflatePaths(scaled, delta * scale, jt, et, 2.0, 0.0 * scale);
  PathsD want = ScalePaths<double, int64_t>(res64, 1 / scale, ec);
  printf("InflatePaths(PathsD) delta=%g precision=%d endtype=%d\n", delta, precision, (int)et);
  show("  input                          ", in);
  show("  InflatePaths(PathsD)           ", got);
  show("  descale(InflatePaths(Paths64)) ", want);
  bool same = got == want;
  printf("  -> %s\n", same ? "equal" : "DIFFERENT (property C16 violated)");
  return same ? 0 : 1;
}

int main()
{
  int bad = 0;
  PathsD sq{ PathD{ {0.123456, 0.0}, {10.005, 0.004}, {10.0, 9.996}, {0.0, 10.0} } };
  bad += one(sq, 0.0, JoinType::Miter, EndType::Polygon, 2);     // closed polygon, off-grid vertices
  PathsD line{ PathD{ {0.123456, 0.5}, {7.777777, 3.333333} } };
  bad += one(line, 0.0, JoinType::Round, EndType::Butt, 2);      // open path
  // control: a non-zero delta goes through the scaled path and agrees
  bad += one(sq, 1.0, JoinType::Miter, EndType::Polygon, 2);
  // control: input already on the grid
  PathsD grid{ PathD{ {0.25, 0.0}, {10.0, 0.0}, {10.0, 9.75}, {0.0, 10.0} } };
  bad += one(grid, 0.0, JoinType::Miter, EndType::Polygon, 2);
  printf("%d failing case(s)\n", bad);
  return bad ? 1 : 0;
}
