// C05 / key open.cut-displaced@shallow-crossing: an open subject crosses a clip edge at a shallow angle (7 degrees) and three
// vertices of an unrelated closed subject put scanlines (y = -33, -35, -42) right above the crossing (exact crossing at
// (-53.29,-32.30)).  At y = -33 and y = -35 both edges round to the same x, the swap is only seen in the scanbeam
// [-35,-42], the computed intersection lies outside that scanbeam and is clamped to its boundary: the cut is placed at
// (-52,-35), 3.006 units along the subject from the exact cut.  The property allows 3 units per cut (length), with no
// exception for shallow crossings.  The whole input is in general position (every vertex and crossing >= 3 units from every
// other edge).
//
//   clip (-28,-84)(-119,102)(-19,91); closed subject (88,-33)(202,-42)(205,-35); open subject (-90,69)-(-15,-138); Union/EvenOdd
//
// build: g++ -std=c++17 -O1 -I<repo>/CPP/Clipper2Lib/include triage/demos/C05-cut-displaced-shallow-crossing.cpp \
//            <repo>/CPP/Clipper2Lib/src/clipper.engine.cpp <repo>/CPP/Clipper2Lib/src/clipper.offset.cpp \
//            <repo>/CPP/Clipper2Lib/src/clipper.rectclip.cpp -o C05-cut-displaced
// exit status: 0 = |solution length - exact kept length| <= 3 (one cut), 1 = not.
#include "clipper2/clipper.h"
#include <iostream>
#include <cmath>
using namespace Clipper2Lib;
int main() {
  Paths64 C{MakePath({-28,-84, -119,102, -19,91})}, S{MakePath({88,-33, 202,-42, 205,-35})}, O{MakePath({-90,69, -15,-138})};
  Clipper64 c; c.AddSubject(S); c.AddOpenSubject(O); c.AddClip(C);
  Paths64 closed, open; c.Execute(ClipType::Union, FillRule::EvenOdd, closed, open);
  double len = 0;
  for (auto& p : open) { std::cout << "open piece:"; for (auto& v : p) std::cout << " (" << v.x << "," << v.y << ")"; std::cout << "\n";
    for (size_t i = 0; i + 1 < p.size(); ++i) len += std::hypot(double(p[i+1].x - p[i].x), double(p[i+1].y - p[i].y)); }
  // exact: the segment a + t (b - a) leaves the clip triangle through the edge (-28,-84)-(-119,102) at
  // t = f0/(f0 - f1), f = cross product with that edge; f0 = cross(c,d,a), f1 = cross(c,d,b)
  auto cross = [](double cx, double cy, double dx, double dy, double px, double py) { return (dx - cx) * (py - cy) - (dy - cy) * (px - cx); };
  double f0 = cross(-28,-84,-119,102,-90,69), f1 = cross(-28,-84,-119,102,-15,-138), t = f0 / (f0 - f1);
  double L = std::hypot(75.0, 207.0), exact = (1 - t) * L;
  std::cout << "exact cut at parameter " << t << " = (" << -90 + 75 * t << "," << 69 - 207 * t << "); kept (outside the triangle) length " << exact << "\n";
  std::cout << "solution length " << len << "; difference " << std::fabs(len - exact) << "; demanded: at most 3 (one cut)\n";
  return std::fabs(len - exact) <= 3.0 ? 0 : 1;
}
