// C20 demo (key simplify.open-ends-lost): SimplifyPath on an OPEN path with epsilon >= sqrt(DBL_MAX) ~ 1.34e154.
// SimplifyPath protects the two ends of an open path only by giving them the pseudo distance MAX_DBL
// (clipper.h:655-656) and testing `distSqr[curr] > epsSqr`.  With epsSqr = epsilon*epsilon >= MAX_DBL (= +inf for
// epsilon = 1e200) the test fails for the ends as well, so end vertices are flagged for removal like any other vertex.
// Property C20: "... SimplifyPath ... return a subsequence of the input vertices in order and keep the end points of
// open paths", quantifier "all paths ... and all epsilon >= 0".
// Build: g++ -std=c++17 -O1 -I/repo/CPP/Clipper2Lib/include /verif/triage/demos/C20-simplify-open-huge-eps.cpp -o /tmp/c20-simp-eps
// Returns 1 when the property fails.
#include <cstdio>
#include "clipper2/clipper.h"
using namespace Clipper2Lib;

static void show(const char* name, const Path64& p)
{
  printf("%s:", name);
  for (const Point64& q : p) printf(" (%lld,%lld)", (long long)q.x, (long long)q.y);
  printf("\n");
}

static int one(const Path64& in, double eps)
{
  Path64 out = SimplifyPath(in, eps, false);
  show("input (open)", in);
  printf("epsilon %g\n", eps);
  show("output      ", out);
  if (out.empty() || !(out.front() == in.front()) || !(out.back() == in.back()))
  {
    printf("  FAIL keep-ends: the property demands a result that starts at (%lld,%lld) and ends at (%lld,%lld)\n",
      (long long)in.front().x, (long long)in.front().y, (long long)in.back().x, (long long)in.back().y);
    return 1;
  }
  printf("  ok\n");
  return 0;
}

int main()
{
  int bad = 0;
  Path64 zig{ {0,0}, {1,5}, {2,-5}, {3,0}, {3,0} };
  bad |= one(zig, 1e200);                      // epsilon^2 = +inf
  bad |= one(zig, 1.3407807929942597e154);     // smallest double whose square is >= DBL_MAX (rounds to DBL_MAX)
  // the replay of ./check C20
  bad |= one(Path64{ {-4389249,-2517357}, {-5437825,-1468781}, {-6486401,-420205}, {-3340673,628371}, {-3340673,628371} },
             0x1.4e718d7d7625ap+664);
  int ctl = one(zig, 1.3e154);                 // control: epsilon^2 < DBL_MAX keeps the ends
  if (ctl) printf("control case failed as well\n");
  printf(bad ? "PROPERTY VIOLATED\n" : "property holds on these inputs\n");
  return (bad || ctl) ? 1 : 0;
}
