// C16 demo (key clipperD.open-3pt-near-coincident-dropped): ClipperD::Execute drops an *open* solution path that has
// exactly three vertices two of which are less than 2 scaled units apart in x and y; Clipper64::Execute on the
// scaled, rounded input keeps it.  Cause: BuildPathD (clipper.engine.cpp:3096) applies the closed-path
// "very small triangle" filter without the `!isOpen &&` guard that BuildPath64 (line 2926) has.
// Build: g++ -std=c++17 -O1 -I/repo/CPP/Clipper2Lib/include /verif/triage/demos/C16-open-path-dropped.cpp \
//          /repo/CPP/Clipper2Lib/src/clipper.engine.cpp -o /tmp/c16-open
// Only the public API is used.  Returns 1 when the property (D result == descaled 64-bit result) fails.
#include <cstdio>
#include <cmath>
#include "clipper2/clipper.h"
using namespace Clipper2Lib;

static void show(const char* name, const PathsD& ps)
{
  printf("%s: %zu path(s)", name, ps.size());
  for (const PathD& p : ps) { printf(" ["); for (const PointD& q : p) printf(" (%.10g,%.10g)", q.x, q.y); printf(" ]"); }
  printf("\n");
}

static int one(int precision, const PathsD& openSubj, const PathsD& clip, ClipType ct, bool tree)
{
  // the floating-point operation
  ClipperD cd(precision);
  cd.AddOpenSubject(openSubj); cd.AddClip(clip);
  PathsD closedD, openD; PolyTreeD treeD;
  if (tree) cd.Execute(ct, FillRule::NonZero, treeD, openD); else cd.Execute(ct, FillRule::NonZero, closedD, openD);

  // what the property demands: the integer operation on round(input * scale), divided by the scale
  // documented scale of ClipperD: the smallest power of two above 10^precision
  double scale = 1; while (scale <= std::pow(10.0, precision)) scale *= 2;
  int ec = 0;
  Clipper64 c64;
  c64.AddOpenSubject(ScalePaths<int64_t, double>(openSubj, scale, ec));
  c64.AddClip(ScalePaths<int64_t, double>(clip, scale, ec));
  Paths64 closed64, open64; PolyTree64 tree64;
  if (tree) c64.Execute(ct, FillRule::NonZero, tree64, open64); else c64.Execute(ct, FillRule::NonZero, closed64, open64);
  PathsD want = ScalePaths<double, int64_t>(open64, 1 / scale, ec);

  printf("precision %d (scale %g), %s, %s result\n", precision, scale, ct == ClipType::Intersection ? "Intersection" : "Union",
    tree ? "PolyTreeD" : "PathsD");
  show("  open subject            ", openSubj);
  show("  ClipperD open solution  ", openD);
  show("  descaled Clipper64 open ", want);
  bool same = openD.size() == want.size();
  for (size_t i = 0; same && i < want.size(); ++i) same = openD[i] == want[i];
  printf("  -> %s\n", same ? "equal" : "DIFFERENT (property C16 violated)");
  return same ? 0 : 1;
}

int main()
{
  int bad = 0;
  PathsD clip{ PathD{ {-100, -100}, {100, -100}, {100, 100}, {-100, 100} } };
  // three vertices, the last two 0.01 apart: at precision 2 (scale 128) they are (1280,0) and (1281,1)
  PathsD o1{ PathD{ {0, 0}, {10, 0}, {10.01, 0.01} } };
  bad += one(2, o1, clip, ClipType::Intersection, false);
  bad += one(2, o1, clip, ClipType::Intersection, true);
  bad += one(2, o1, PathsD(), ClipType::Union, false);
  // control: the same polyline with a fourth vertex, or with the short segment longer than 2 units, is kept
  PathsD o2{ PathD{ {0, 0}, {10, 0}, {10.01, 0.01}, {20, 5} } };
  bad += one(2, o2, clip, ClipType::Intersection, false);
  PathsD o3{ PathD{ {0, 0}, {10, 0}, {10.02, 0.02} } };
  bad += one(2, o3, clip, ClipType::Intersection, false);
  printf("%d failing case(s)\n", bad);
  return bad ? 1 : 0;
}
