// C04 demo 5: Clipper64::Execute(..., PolyTree64&) never returns: CheckSplitOwner recurses without bound (stack overflow,
// SIGSEGV) because an OutRec without points has a split list that contains the OutRec itself.  The Paths64 overload of the
// same call returns normally, so "executing into a PolyTree yields the same paths" fails in the strongest way.
// Build: g++ -std=c++17 -O1 -I/repo/CPP/Clipper2Lib/include /verif/triage/demos/C04-stack-overflow.cpp \
//          /repo/CPP/Clipper2Lib/src/clipper.engine.cpp -o /tmp/c04-overflow
// Only public API is used.  Returns 1 when the property fails (the SIGSEGV is caught on an alternate stack).
#include <csignal>
#include <cstdio>
#include <cstdlib>
#include <unistd.h>
#include "clipper2/clipper.h"
using namespace Clipper2Lib;

static void OnSegv(int)
{
  const char msg[] = "PROPERTY FAILS: SIGSEGV inside Execute(Xor, EvenOdd, PolyTree64&) -- stack overflow in CheckSplitOwner\nFAIL\n";
  ssize_t r = write(1, msg, sizeof msg - 1); (void)r;
  _exit(1);
}

int main()
{
  static char altstack[1 << 16];
  stack_t ss; ss.ss_sp = altstack; ss.ss_size = sizeof altstack; ss.ss_flags = 0;
  sigaltstack(&ss, nullptr);
  struct sigaction sa; sa.sa_handler = OnSegv; sigemptyset(&sa.sa_mask); sa.sa_flags = SA_ONSTACK;
  sigaction(SIGSEGV, &sa, nullptr);

  // eight rectangles on the lattice of even numbers
  Paths64 subject = { MakePath({ 2,4, 8,4, 8,8, 2,8 }), MakePath({ 4,0, 8,0, 8,6, 4,6 }), MakePath({ 0,6, 6,6, 6,8, 0,8 }),
                      MakePath({ 4,6, 8,6, 8,8, 4,8 }), MakePath({ 6,6, 8,6, 8,8, 6,8 }) };
  Paths64 clip = { MakePath({ 0,0, 6,0, 6,8, 0,8 }), MakePath({ 2,8, 6,8, 6,2, 2,2 }), MakePath({ 4,8, 6,8, 6,6, 4,6 }) };
  {
    Clipper64 c; c.AddSubject(subject); c.AddClip(clip);
    Paths64 closed, open;
    bool ok = c.Execute(ClipType::Xor, FillRule::EvenOdd, closed, open);
    printf("Paths64 overload : Execute -> %d, %zu closed paths, area %g\n", (int)ok, closed.size(), Area(closed));
  }
  {
    Clipper64 c; c.AddSubject(subject); c.AddClip(clip);
    PolyTree64 tree; Paths64 open;
    printf("PolyTree64 overload: calling Execute ...\n"); fflush(stdout);
    bool ok = c.Execute(ClipType::Xor, FillRule::EvenOdd, tree, open);
    printf("PolyTree64 overload: Execute -> %d, %zu polygons, area %g\n", (int)ok, PolyTreeToPaths64(tree).size(), tree.Area());
  }
  printf("demanded: the PolyTree64 overload returns the same paths as the Paths64 overload\nPASS\n");
  return 0;
}
