// C11 demo: the C export layer.  InflatePathsD / InflatePathD / RectClipD / RectClipLinesD convert their double input
// with ConvertCPathsDToPaths64 / ConvertCPathDToPath64WithScale / ScaleRect, none of which has a range test, and they
// have no way to report anything but a nullptr; BooleanOpD / BooleanOp_PolyTreeD go through ClipperD (ScalePaths: range
// test) but never look at ClipperD::ErrorCode(), so in a -fno-exceptions build they return 0 (success) after dropping
// the offending operand.
// Property C11: "coordinates that would leave the integer range after scaling ... are reported through an exception (or,
// with exceptions disabled, through the error code together with an empty result) ... never silently accepted."
//
//   g++ -std=c++17 -O1 -I/repo/CPP/Clipper2Lib/include /verif/triage/demos/C11-export-range.cpp \
//       /repo/CPP/Clipper2Lib/src/clipper.engine.cpp /repo/CPP/Clipper2Lib/src/clipper.offset.cpp \
//       /repo/CPP/Clipper2Lib/src/clipper.rectclip.cpp -o /tmp/c11-export && /tmp/c11-export       (and with -fno-exceptions)
// Exit status: number of silently accepted calls.
#include <cstdio>
#include <cmath>
#include "clipper2/clipper.h"
#include "clipper2/clipper.export.h"
using namespace Clipper2Lib;

static PathD P(std::initializer_list<double> v) {
  PathD r; for (auto i = v.begin(); i != v.end(); i += 2) r.push_back(PointD(*i, *(i + 1))); return r; }
static size_t count(CPathsD c) { if (!c) return 0; size_t n = 0; for (auto& p : ConvertCPathsToPathsT<double>(c)) n += p.size(); return n; }

static int failures = 0;
// f returns: -1 rejected (negative return code / nullptr before doing anything), else the number of points produced
template <class F> static void expect_reported(const char* key, const char* what, F f) {
  long got = 0;
#if defined(__cpp_exceptions)
  try { got = f(); }
  catch (const Clipper2Exception& e) { std::printf("ok      %-44s %-40s threw \"%s\"\n", key, what, e.what()); return; }
#else
  got = f();
#endif
  if (got < 0) { std::printf("ok      %-44s %-40s rejected\n", key, what); return; }
  std::printf("SILENT  %-44s %-40s accepted: success / non-null result with %ld points\n", key, what, got); ++failures;
}

int main() {
  const double just_over = std::ldexp(1.0, 61) + 4096.0;   // MAX_COORD = 2^61 - 1
  PathD big = P({ 0, 0, just_over, 0, 10, 10, 0, 10 }), sq = P({ 0, 0, 10, 0, 10, 10, 0, 10 }), cl = P({ 5, 5, 15, 5, 15, 15, 5, 15 });
  CPathsD cbig = CreateCPathsDFromPathsD(PathsD{ big }), csq = CreateCPathsDFromPathsD(PathsD{ sq }), ccl = CreateCPathsDFromPathsD(PathsD{ cl });
  double cpath_big[2 + 8] = { 4, 0, 0, 0, just_over, 0, 10, 10, 0, 10 };
  CPathsD cbigline = CreateCPathsDFromPathsD(PathsD{ P({ 0, 5, just_over, 5, 10, 6 }) });
  CRectD ok_rect{ 2, 2, 8, 8 }, big_rect{ 2, 2, just_over, 8 };

  expect_reported("exportD.range-unchecked", "InflatePathsD(2^61+4096, delta 2, p=0)", [&]() -> long {
    CPathsD r = InflatePathsD(cbig, 2.0, 0, 0, 0, 2.0, 0.0, false); return r ? (long)count(r) : -1; });
  expect_reported("exportD.range-unchecked", "InflatePathD(2^61+4096, delta 2, p=0)", [&]() -> long {
    CPathsD r = InflatePathD(cpath_big, 2.0, 0, 0, 0, 2.0, 0.0, false); return r ? (long)count(r) : -1; });
  expect_reported("exportD.range-unchecked", "RectClipD((2,2,8,8), 2^61+4096, p=0)", [&]() -> long {
    CPathsD r = RectClipD(ok_rect, cbig, 0); return r ? (long)count(r) : -1; });
  expect_reported("exportD.range-unchecked", "RectClipLinesD((2,2,8,8), 2^61+4096, p=0)", [&]() -> long {
    CPathsD r = RectClipLinesD(ok_rect, cbigline, 0); return r ? (long)count(r) : -1; });
  expect_reported("exportD.rect-range-unchecked", "RectClipD((2,2,2^61+4096,8), sq, p=0)", [&]() -> long {
    CPathsD r = RectClipD(big_rect, csq, 0); return r ? (long)count(r) : -1; });
  expect_reported("exportD.rect-range-unchecked", "RectClipLinesD((2,2,2^61+4096,8), sq, p=0)", [&]() -> long {
    CPathsD r = RectClipLinesD(big_rect, csq, 0); return r ? (long)count(r) : -1; });
  expect_reported("exportBooleanOpD.range-nonempty-noexc", "BooleanOpD(Union, NonZero, 2^61+4096, cl, p=0)", [&]() -> long {
    CPathsD sol = nullptr, solo = nullptr;
    int rc = BooleanOpD(2, 1, cbig, nullptr, ccl, sol, solo, 0, true, false); return rc < 0 ? -1 : (long)count(sol); });
  expect_reported("exportBooleanOpD.range-nonempty-noexc", "BooleanOp_PolyTreeD(Union, .., 2^61+4096, cl)", [&]() -> long {
    CPolyTreeD sol = nullptr; CPathsD solo = nullptr;
    int rc = BooleanOp_PolyTreeD(2, 1, cbig, nullptr, ccl, sol, solo, 0, true, false); return rc < 0 ? -1 : (sol ? (long)sol[1] : 0); });
  expect_reported("(control)", "InflatePathsD(sq, delta 2, p=12)", [&]() -> long {
    CPathsD r = InflatePathsD(csq, 2.0, 0, 0, 12, 2.0, 0.0, false); return r ? (long)count(r) : -1; });
  std::printf("%d silent acceptance(s)\n", failures);
  return failures;
}
