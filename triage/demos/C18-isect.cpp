// C18 demo: GetSegmentIntersectPt against the clause "reports parallelism exactly and otherwise returns a point on the
// first segment within one unit per axis of the true crossing (|coordinates| <= 2^40)".
// Public headers only.  Exact arithmetic with __int128 (all intermediate values < 2^125 for |coordinates| <= 2^40).
//   g++ -std=c++17 -O1 -ffp-contract=off -I/repo/CPP/Clipper2Lib/include triage/demos/C18-isect.cpp -o /tmp/c18-isect && /tmp/c18-isect
//   g++ ... -DCLIPPER2_HI_PRECISION=1 ...                                                (the other variant)
// exit status: number of inputs on which the clause fails.
#include <cstdio>
#include <cstdint>
#include "clipper2/clipper.core.h"
using namespace Clipper2Lib;
typedef __int128 i128;

static i128 iabs(i128 v) { return v < 0 ? -v : v; }
static double frac(i128 num, i128 den) { return (double)((long double)num / (long double)den); }

static int check(const char* name, Point64 a, Point64 b, Point64 c, Point64 d) {
  i128 dx1 = b.x - a.x, dy1 = b.y - a.y, dx2 = d.x - c.x, dy2 = d.y - c.y;
  i128 det = dy1 * dx2 - dy2 * dx1;
  i128 tnum = (i128)(a.x - c.x) * dy2 - (i128)(a.y - c.y) * dx2;      // t = tnum/det along a-b
  i128 unum = (i128)(a.x - c.x) * dy1 - (i128)(a.y - c.y) * dx1;      // u = unum/det along c-d
  i128 s = det < 0 ? -1 : 1;
  bool proper = det != 0 && 0 < tnum * s && tnum * s < det * s && 0 < unum * s && unum * s < det * s;
  Point64 ip(7, 9);
  bool ret = GetSegmentIntersectPt(a, b, c, d, ip);
  printf("%s: a=(%lld,%lld) b=(%lld,%lld) c=(%lld,%lld) d=(%lld,%lld)\n", name, (long long)a.x, (long long)a.y, (long long)b.x,
         (long long)b.y, (long long)c.x, (long long)c.y, (long long)d.x, (long long)d.y);
  printf("   exact: det %s 0, segments %s; GetSegmentIntersectPt returned %s", det == 0 ? "==" : "!=",
         proper ? "cross properly" : "do not cross properly", ret ? "true" : "false");
  if (det == 0) { printf("\n   property demands: false\n"); return ret ? 1 : 0; }
  if (!ret) { printf("\n   property demands: true (not parallel)  -> FAILS\n"); return 1; }
  // |ip.x - X| <= 1  <=>  |(ip.x - a.x) det - tnum dx1| <= |det|
  i128 ex = iabs((i128)(ip.x - a.x) * det - tnum * dx1), ey = iabs((i128)(ip.y - a.y) * det - tnum * dy1);
  bool within = ex <= iabs(det) && ey <= iabs(det);
  double X = (double)a.x + frac(tnum * dx1, det), Y = (double)a.y + frac(tnum * dy1, det);
  printf(", ip=(%lld,%lld)\n   exact crossing (%.3f, %.3f); |ip - crossing| per axis = (%.17g, %.17g)\n", (long long)ip.x, (long long)ip.y, X, Y,
         frac(ex, iabs(det)), frac(ey, iabs(det)));
  if (ex > iabs(det)) printf("   x: exceeds one unit by %.3g\n", frac(ex - iabs(det), iabs(det)));
  if (ey > iabs(det)) printf("   y: exceeds one unit by %.3g\n", frac(ey - iabs(det), iabs(det)));
  if (proper && !within) { printf("   property demands: within one unit per axis  -> FAILS\n"); return 1; }
  printf("   clause holds\n");
  return 0;
}

int main() {
  int bad = 0;
#if CLIPPER2_HI_PRECISION
  printf("CLIPPER2_HI_PRECISION build\n");
#else
  printf("default build\n");
#endif
  // |coordinates| < 2^40: properly crossing, reported parallel (both variants)
  bad += check("false-parallel", Point64(-708993549980, -190376432168), Point64(708993549979, 190376432168),
               Point64(-708993545511, -190376430968), Point64(708993594777, 190376444197));
  // |coordinates| < 2^40: properly crossing, result millions of units away (both variants)
  bad += check("inaccurate", Point64(-693827181386, 620970031357), Point64(693827181386, -620970031357),
               Point64(-693827181385, 620970031354), Point64(693827181389, -620970031357));
  // |coordinates| < 2^25: the truncating (default) variant is 1 + 5.8e-15 away in x
  bad += check("trunc-exceeds-1", Point64(-3369935, -9108372), Point64(22437127, 9519943),
               Point64(3620683, -10728030), Point64(3620681, 2603362));
  printf("%d of 3 inputs fail the clause\n", bad);
  return bad;
}
