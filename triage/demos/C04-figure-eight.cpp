// C04 demo 4: the solution contains a ring that crosses itself (a figure of eight: one loop is an outer polygon, the
// other loop is a hole of ANOTHER polygon).  Such a ring cannot be nested correctly: in the PolyTree64 it is a top-level
// polygon one loop of which lies inside its sibling.  (The same ring is returned by the Paths64 overload: the defect is
// in the ring building, C04 only observes its consequence.)
// Build: g++ -std=c++17 -O1 -I/repo/CPP/Clipper2Lib/include /verif/triage/demos/C04-figure-eight.cpp \
//          /repo/CPP/Clipper2Lib/src/clipper.engine.cpp -o /tmp/c04-fig8
// Only public API is used.  Returns 1 when the property fails.
#include <cstdio>
#include "clipper2/clipper.h"
using namespace Clipper2Lib;

static int bad = 0;

static long long Orient(const Point64& a, const Point64& b, const Point64& c)
{ return (long long)((b.x - a.x) * (c.y - a.y) - (b.y - a.y) * (c.x - a.x)); }

static bool ProperlyCross(const Point64& a, const Point64& b, const Point64& c, const Point64& d)
{
  long long o1 = Orient(a, b, c), o2 = Orient(a, b, d), o3 = Orient(c, d, a), o4 = Orient(c, d, b);
  return ((o1 > 0) != (o2 > 0)) && o1 != 0 && o2 != 0 && ((o3 > 0) != (o4 > 0)) && o3 != 0 && o4 != 0;
}

static void Walk(const PolyPath64& n, int depth)
{
  for (size_t i = 0; i < n.Count(); ++i)
  {
    const PolyPath64* c = n[i];
    const Path64& p = c->Polygon();
    printf("%*s%s level=%d area=%g :", depth * 2 + 2, "", c->IsHole() ? "hole " : "outer", (int)c->Level(), Area(p));
    for (const Point64& q : p) printf(" (%lld,%lld)", (long long)q.x, (long long)q.y);
    printf("\n");
    for (size_t a = 0; a < p.size(); ++a)
      for (size_t b = a + 1; b < p.size(); ++b)
        if (ProperlyCross(p[a], p[(a + 1) % p.size()], p[b], p[(b + 1) % p.size()]))
          printf("%*s  (edge %zu and edge %zu of this ring properly cross)\n", depth * 2 + 2, "", a, b);
    for (size_t j = 0; j < n.Count(); ++j)
    {
      if (j == i) continue;
      int in = 0;
      for (const Point64& q : p)
        if (PointInPolygon(q, n[j]->Polygon()) == PointInPolygonResult::IsInside) ++in;
      if (in > 0)
      {
        printf("%*s  ^^ PROPERTY FAILS: %d of its vertices are strictly inside its sibling #%d\n", depth * 2 + 2, "", in, (int)j);
        ++bad;
      }
    }
    Walk(*c, depth + 1);
  }
}

int main()
{
  Paths64 subject = { MakePath({ 2,4, 4,4, 4,0, 2,0 }), MakePath({ 0,8, 8,8, 8,4, 0,4 }), MakePath({ 4,4, 8,4, 8,10, 4,10 }),
                      MakePath({ 4,6, 6,6, 6,10, 4,10 }) };
  Paths64 clip = { MakePath({ 0,4, 8,4, 8,8, 0,8 }), MakePath({ 2,4, 6,4, 6,10, 2,10 }) };
  Clipper64 c;
  c.PreserveCollinear(false);
  c.AddSubject(subject);
  c.AddClip(clip);
  PolyTree64 tree; Paths64 open;
  bool ok = c.Execute(ClipType::Union, FillRule::EvenOdd, tree, open);
  printf("Execute -> %d, tree:\n", (int)ok);
  Walk(tree, 0);
  printf("demanded: every polygon lies outside its siblings (the square 4..6 x 4..6 is a hole of the second polygon and\n"
         "          the rectangle 2..4 x 0..4 a separate outer polygon)\n");
  printf("%s\n", bad ? "FAIL" : "PASS");
  return bad ? 1 : 0;
}
