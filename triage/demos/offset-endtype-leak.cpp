// C07 / C12 demo (key offset.endtype-leak.joined-2pt-then-longer).
// One EndType::Joined group holds a two-point path and, 10000 units away, a three-point path.  C07: "its region does
// not depend ... on which other (distant) paths are offset in the same call"; C12: "paths ... too far apart to interact
// are offset exactly as they would be alone, whatever was added before them".  DoGroupOffset overwrites the member
// end_type_ with Square/Round for the two-point path and never sets it back, so the three-point path that follows is
// stroked as an OPEN path with square caps instead of being joined (ring with a hole).
// Build: g++ -std=c++17 -O1 -I$REPO/CPP/Clipper2Lib/include offset-endtype-leak.cpp $REPO/CPP/Clipper2Lib/src/clipper.engine.cpp \
//        $REPO/CPP/Clipper2Lib/src/clipper.offset.cpp $REPO/CPP/Clipper2Lib/src/clipper.rectclip.cpp -o /tmp/offset-endtype-leak
// (REPO=/repo).  Public API only.  Returns 1 when the property fails.
#include <cstdio>
#include <algorithm>
#include "clipper2/clipper.h"
using namespace Clipper2Lib;

static Paths64 run(const Paths64& ps, JoinType jt)
{
  ClipperOffset co; co.AddPaths(ps, jt, EndType::Joined);
  Paths64 sol; co.Execute(10.0, sol); return sol;
}
static void show(const char* n, const Paths64& ps)
{ printf("%-28s %zu path(s), area %.1f\n", n, ps.size(), Area(ps)); }

int main()
{
  int bad = 0;
  const Path64 two = { {0, 0}, {90, 30} };
  const Path64 three = { {10000, 0}, {10100, 0}, {10060, 80} };
  for (JoinType jt : { JoinType::Square, JoinType::Round, JoinType::Miter, JoinType::Bevel })
  {
    printf("join type %d\n", (int)jt);
    Paths64 a2 = run({ two }, jt), a3 = run({ three }, jt);
    Paths64 t23 = run({ two, three }, jt), t32 = run({ three, two }, jt);
    show("  two-point path alone:", a2); show("  three-point path alone:", a3);
    show("  together, order 2pt,3pt:", t23); show("  together, order 3pt,2pt:", t32);
    Paths64 want = a2; want.insert(want.end(), a3.begin(), a3.end());
    auto norm = [](Paths64 p) { std::sort(p.begin(), p.end(), [](const Path64& x, const Path64& y) {
        return std::lexicographical_compare(x.begin(), x.end(), y.begin(), y.end(),
          [](const Point64& u, const Point64& v) { return u.x != v.x ? u.x < v.x : u.y < v.y; }); }); return p; };
    bool ok1 = norm(t23) == norm(want), ok2 = norm(t32) == norm(want);
    printf("  property demands together == union of the two alone: order 2pt,3pt %s, order 3pt,2pt %s\n",
           ok1 ? "holds" : "FAILS", ok2 ? "holds" : "FAILS");
    if (!ok1 || !ok2) bad = 1;
  }
  return bad;
}
