// C05 / key open.cut-inexact@beyond-2^53: with coordinates beyond 2^53 the cut points of an open subject are computed
// in binary64 and land hundreds of units away from the subject segment; the property demands 1.5 units and states no
// coordinate bound.
//
//   closed subject: triangle (74,98)(125,63)(188,82) * 2^53   (every coordinate is a small multiple of 2^53, i.e. exactly
//   open subject  : segment (214,20)-(136,111) * 2^53          representable in binary64; |coordinates| < 2^61)
//   Union/EvenOdd keeps the two parts of the segment outside the triangle; each has one end at a crossing with a triangle
//   edge.  The exact distance of every solution vertex from the subject segment is computed with __int128.
//
// build: g++ -std=c++17 -O1 -I<repo>/CPP/Clipper2Lib/include triage/demos/C05-cut-inexact-beyond-2p53.cpp \
//            <repo>/CPP/Clipper2Lib/src/clipper.engine.cpp <repo>/CPP/Clipper2Lib/src/clipper.offset.cpp \
//            <repo>/CPP/Clipper2Lib/src/clipper.rectclip.cpp -o C05-cut-inexact      (add -DCLIPPER2_HI_PRECISION=1 for the other build)
// exit status: 0 = every solution vertex within 1.5 of the subject segment, 1 = not.
#include "clipper2/clipper.h"
#include <iostream>
#include <cmath>
using namespace Clipper2Lib;
typedef __int128 i128;

// distance of p from the LINE through a,b (the foot points of all solution vertices are inside the segment here):
// |cross| / |ab| with the cross product exact in 128 bits (|operands| < 2^62, products < 2^124)
static long double dist_line(Point64 p, Point64 a, Point64 b) {
  i128 cr = (i128)(b.x - a.x) * (i128)(p.y - a.y) - (i128)(b.y - a.y) * (i128)(p.x - a.x);
  long double len = std::sqrt((long double)(b.x - a.x) * (long double)(b.x - a.x) + (long double)(b.y - a.y) * (long double)(b.y - a.y));
  return std::fabs((long double)cr) / len;
}
int main() {
  const int64_t K = int64_t(1) << 53;
  Path64 tri{Point64(74 * K, 98 * K), Point64(125 * K, 63 * K), Point64(188 * K, 82 * K)};
  Path64 seg{Point64(214 * K, 20 * K), Point64(136 * K, 111 * K)};
  Clipper64 c; c.AddSubject({tri}); c.AddOpenSubject({seg});
  Paths64 closed, open; c.Execute(ClipType::Union, FillRule::EvenOdd, closed, open);
  long double worst = 0;
  std::cout << "open solution: " << open.size() << " path(s); demanded: every vertex within 1.5 units of the subject segment\n";
  for (auto& p : open) for (auto& v : p) {
    long double d = dist_line(v, seg[0], seg[1]);
    std::cout << "  (" << v.x << "," << v.y << ")  distance from the subject segment " << (double)d << "\n";
    if (d > worst) worst = d;
  }
  std::cout << "worst distance " << (double)worst << " units (binary64 spacing at 2^60 is 256)\n";
  return worst <= 1.5L ? 0 : 1;
}
