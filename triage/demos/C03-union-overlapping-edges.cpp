// C03 demo: "feeding the solution back through Union returns the same set of paths" fails for an axis-parallel input
// with coincident edges.  Union/EvenOdd of three rectangles, two of which have their left side on the line x = 2:
// the solution contains two positively oriented paths that run along x = 2, 4 <= y <= 8 in opposite directions (two
// adjacent filled regions that were not merged); Union of the solution merges them (4 paths -> 3).
//
// build: g++ -std=c++17 -O1 -I/repo/CPP/Clipper2Lib/include -I/repo/CPP/Clipper2Lib/src \
//            /verif/triage/demos/C03-union-overlapping-edges.cpp -o /tmp/c03-union-overlap
// exit status 1 = property violated, 0 = holds.
#include "clipper2/clipper.h"
#include "clipper.engine.cpp"
#include "clipper.offset.cpp"
#include "clipper.rectclip.cpp"
#include <algorithm>
#include <cstdio>
using namespace Clipper2Lib;

static bool ptlt(const Point64& u, const Point64& v) { return u.x != v.x ? u.x < v.x : u.y < v.y; }
static bool pathlt(const Path64& a, const Path64& b) { return std::lexicographical_compare(a.begin(), a.end(), b.begin(), b.end(), ptlt); }
static Path64 canon(Path64 p) {
  Path64 best;
  for (size_t k = 0; k < p.size(); ++k) {
    Path64 r(p.begin() + k, p.end()); r.insert(r.end(), p.begin(), p.begin() + k);
    if (best.empty() || pathlt(r, best)) best = r;
  }
  return best;
}
static std::vector<Path64> canon(const Paths64& ps) {
  std::vector<Path64> r; for (auto& p : ps) r.push_back(canon(p));
  std::sort(r.begin(), r.end(), pathlt); return r;
}
static void show(const char* t, const Paths64& ps) {
  printf("%s: %zu path(s)\n", t, ps.size());
  for (auto& p : ps) { printf("   "); for (auto& v : p) printf("(%lld,%lld) ", (long long)v.x, (long long)v.y); printf("\n"); }
}

int main() {
  Paths64 subj = { MakePath({2,12, 2,4, 8,4, 8,12}), MakePath({0,2, 6,2, 6,14, 0,14}), MakePath({16,0, 16,8, 2,8, 2,0}) };
  Clipper64 c; c.AddSubject(subj);
  Paths64 sol; c.Execute(ClipType::Union, FillRule::EvenOdd, sol);
  show("Union/EvenOdd", sol);
  int bad = 0;
  for (FillRule fr : { FillRule::EvenOdd, FillRule::NonZero }) {
    Clipper64 u; u.AddSubject(sol);
    Paths64 again; u.Execute(ClipType::Union, fr, again);
    show(fr == FillRule::EvenOdd ? "Union/EvenOdd of that solution" : "Union/NonZero of that solution", again);
    bool same = canon(again) == canon(sol);
    printf("   same set of paths: %s (property C03 demands yes)\n", same ? "yes" : "NO");
    if (!same) ++bad;
  }
  return bad ? 1 : 0;
}
