// C20 demo (keys simplify.short-open-path-not-simplified, simplify.short-closed-path-not-simplified):
// SimplifyPath returns every path of fewer than 4 points unchanged (`if (len < 4) return Path<T>(path);`,
// clipper.h:643), also when a vertex lies within epsilon of (even exactly on) the line through its two neighbours.
// The same function does remove such a vertex from any path of 4 or more points, and does reduce closed paths of 4
// points to 2 points.
// Property C20: "SimplifyPath's result has no removable vertex left (each remaining interior vertex is farther than
// epsilon from the line through its neighbours)", quantifier "all paths (empty, 1-4 points, all-collinear, with
// repeated points, spikes, closed and open) and all epsilon >= 0".
// Build: g++ -std=c++17 -O1 -I/repo/CPP/Clipper2Lib/include /verif/triage/demos/C20-simplify-short-path.cpp -o /tmp/c20-simp-short
// Returns 1 when the property fails.
#include <cstdio>
#include <cmath>
#include "clipper2/clipper.h"
using namespace Clipper2Lib;

static void show(const char* name, const Path64& p)
{
  printf("%s:", name);
  for (const Point64& q : p) printf(" (%lld,%lld)", (long long)q.x, (long long)q.y);
  printf("\n");
}

// dist(p, line(a,b)) > eps, exact enough for the tiny inputs used here; a == b: distance to the point
static bool farther(const Point64& p, const Point64& a, const Point64& b, double eps)
{
  long double cx = (long double)(b.x - a.x), cy = (long double)(b.y - a.y);
  long double px = (long double)(p.x - a.x), py = (long double)(p.y - a.y);
  if (cx == 0 && cy == 0) return std::sqrt((double)(px * px + py * py)) > eps;
  long double cr = px * cy - py * cx;
  return cr * cr > (long double)eps * eps * (cx * cx + cy * cy);
}

static int one(const Path64& in, double eps, bool closed)
{
  Path64 out = SimplifyPath(in, eps, closed);
  show(closed ? "input (closed)" : "input (open)  ", in);
  printf("epsilon %g\n", eps);
  show("output        ", out);
  int bad = 0;
  const size_t n = out.size();
  if (n >= 3)   // a result of fewer than 3 vertices has no vertex with two distinct neighbours
    for (size_t i = 0; i < n; ++i)
    {
      if (!closed && (i == 0 || i == n - 1)) continue;       // the ends of an open path are not interior
      const Point64& a = out[(i + n - 1) % n]; const Point64& b = out[(i + 1) % n];
      if (!farther(out[i], a, b, eps))
      {
        printf("  FAIL: remaining vertex %zu (%lld,%lld) is within epsilon of the line through its neighbours (%lld,%lld) (%lld,%lld)\n",
          i, (long long)out[i].x, (long long)out[i].y, (long long)a.x, (long long)a.y, (long long)b.x, (long long)b.y);
        bad = 1;
      }
    }
  if (!bad) printf("  ok\n");
  return bad;
}

int main()
{
  int bad = 0;
  bad |= one(Path64{ {0,0}, {1,0}, {2,0} }, 0.0, false);     // open, middle vertex exactly on the chord
  bad |= one(Path64{ {0,0}, {5,1}, {10,0} }, 2.0, false);    // open, middle vertex 1 < 2 from the chord
  bad |= one(Path64{ {0,0}, {0,0}, {0,0} }, 0.0, false);     // the replay of ./check C20 (three equal points)
  bad |= one(Path64{ {0,0}, {1,0}, {2,0} }, 0.0, true);      // closed, all collinear
  bad |= one(Path64{ {0,0}, {10,0}, {5,1} }, 2.0, true);     // closed sliver triangle, height 1 < 2
  // controls: one more vertex and the very same vertices are removed
  int ctl = 0;
  ctl |= one(Path64{ {0,0}, {1,0}, {2,0}, {3,0} }, 0.0, false);
  ctl |= one(Path64{ {0,0}, {10,0}, {10,1}, {0,1} }, 2.0, true);   // closed 4-point sliver is reduced to 2 points
  if (ctl) printf("control case failed as well\n");
  printf(bad ? "PROPERTY VIOLATED\n" : "property holds on these inputs\n");
  return (bad || ctl) ? 1 : 0;
}
