// C12 demo (key offset.delta-callback.steps-leak-single-point).
// A DeltaCallback64 returning the constant 10 is installed (Execute(cb, paths)); JoinType::Round, EndType::Polygon.
// The single-point path (5000,5000) must become the same polygon whether or not a distant triangle was added to the
// group before it (C12: "paths ... too far apart to interact are offset exactly as they would be alone, whatever was added
// before them and in whatever order").  With a callback DoRound stores steps_per_rad_ for the radius of the vertex it just
// drew; the single-point branch of DoGroupOffset uses whatever steps_per_rad_ holds: alone that is the value for
// |delta| = 1 (Execute(cb) calls Execute(1.0)): 4 steps, a diamond; after the triangle it is the value for radius 10.
// Build: g++ -std=c++17 -O1 -I$REPO/CPP/Clipper2Lib/include offset-callback-steps-leak.cpp $REPO/CPP/Clipper2Lib/src/clipper.engine.cpp \
//        $REPO/CPP/Clipper2Lib/src/clipper.offset.cpp $REPO/CPP/Clipper2Lib/src/clipper.rectclip.cpp -o /tmp/offset-callback-steps-leak
// Public API only.  Returns 1 when the property fails.
#include <cstdio>
#include <cmath>
#include "clipper2/clipper.h"
using namespace Clipper2Lib;

static Paths64 run(const Paths64& ps)
{
  ClipperOffset co; co.AddPaths(ps, JoinType::Round, EndType::Polygon);
  Paths64 sol;
  co.Execute([](const Path64&, const PathD&, size_t, size_t) { return 10.0; }, sol);
  return sol;
}
static bool near_point(const Path64& p) { return !p.empty() && std::llabs(p[0].x - 5000) < 100; }

int main()
{
  const Path64 tri = { {0, 0}, {100, 0}, {50, 80} }, point = { {5000, 5000} };
  Paths64 alone = run({ point }), after = run({ tri, point }), before = run({ point, tri });
  Path64 a, b, c;
  for (auto& p : alone) if (near_point(p)) a = p;
  for (auto& p : after) if (near_point(p)) b = p;
  for (auto& p : before) if (near_point(p)) c = p;
  printf("point alone:                 %zu vertices, area %.0f (a circle of radius 10 has area 314)\n", a.size(), Area(a));
  printf("point added after triangle:  %zu vertices, area %.0f\n", b.size(), Area(b));
  printf("point added before triangle: %zu vertices, area %.0f\n", c.size(), Area(c));
  bool ok = a == b && a == c;
  printf("property demands the three equal: %s\n", ok ? "holds" : "FAILS");
  return ok ? 0 : 1;
}
