// C08 demo: RectClip emits the default-constructed point (0,0) -- far outside the rectangle -- for a triangle that
// does not even touch the rectangle.
// Property C08: "RectClip returns paths that lie inside the rectangle (within one grid unit) ... polygons entirely
// outside vanish ... every new vertex lies on the rectangle boundary (within one unit)".
// Cause: RectClip64::ExecuteInternal (clipper.rectclip.cpp, "passing right through rect") ignores the result of its second
// GetIntersection call and adds ip2 although that call returned false and left ip2 = Point64() untouched.
//
// g++ -std=c++17 -O1 -ffp-contract=off -I/repo/CPP/Clipper2Lib/include C08-stale-ip2.cpp \
//     /repo/CPP/Clipper2Lib/src/clipper.engine.cpp /repo/CPP/Clipper2Lib/src/clipper.offset.cpp \
//     /repo/CPP/Clipper2Lib/src/clipper.rectclip.cpp -o C08-stale-ip2 && ./C08-stale-ip2
#include "clipper2/clipper.h"
#include <cstdio>
using namespace Clipper2Lib;

int main() {
  const Rect64 rect(32769433, 279593455, 32769434, 279593456);     // left, top, right, bottom: a 1 x 1 rectangle
  const Path64 tri = MakePath({109421516, 656086942, -25760342, -7888347, 32769354, 279593454});
  const Paths64 out = RectClip(rect, Paths64{tri});

  // independent evidence that the triangle misses the rectangle: the general clipper finds an empty intersection
  const Paths64 inter = Intersect(Paths64{tri}, Paths64{rect.AsPath()}, FillRule::NonZero);
  std::printf("Intersect(triangle, rectangle) has %zu paths (the triangle misses the rectangle)\n", inter.size());

  std::printf("RectClip returned %zu path(s):\n", out.size());
  int bad = 0;
  for (const Path64& p : out) {
    for (const Point64& v : p) {
      const bool ok = v.x >= rect.left - 1 && v.x <= rect.right + 1 && v.y >= rect.top - 1 && v.y <= rect.bottom + 1;
      std::printf("  (%lld, %lld)%s\n", (long long)v.x, (long long)v.y, ok ? "" : "   <-- more than one unit outside the rectangle");
      if (!ok) ++bad;
    }
  }
  std::printf("property C08 demands: no output at all (the polygon is entirely outside), and in any case every output vertex within\n"
              "[%lld..%lld] x [%lld..%lld]\n", (long long)rect.left - 1, (long long)rect.right + 1, (long long)rect.top - 1, (long long)rect.bottom + 1);
  if (!out.empty() || bad) { std::printf("FAIL: %zu output path(s), %d vertex(es) outside rect + 1\n", out.size(), bad); return 1; }
  std::printf("OK\n");
  return 0;
}
