// C11 demo: RectClip / RectClipLines (PathsD overloads) scale the rectangle with ScaleRect, which has no range test:
// a rectangle coordinate that leaves the integer range after scaling is accepted (beyond int64 the conversion is
// undefined behaviour; on x86-64 every such coordinate becomes INT64_MIN and the rectangle silently turns empty).
// Property C11: "coordinates that would leave the integer range after scaling ... are reported through an exception
// (or, with exceptions disabled, through the error code together with an empty result); never silently accepted."
//
//   g++ -std=c++17 -O1 -I/repo/CPP/Clipper2Lib/include /verif/triage/demos/C11-rectclipD-rect-range.cpp \
//       /repo/CPP/Clipper2Lib/src/clipper.engine.cpp /repo/CPP/Clipper2Lib/src/clipper.offset.cpp \
//       /repo/CPP/Clipper2Lib/src/clipper.rectclip.cpp -o /tmp/c11-rect && /tmp/c11-rect           (and with -fno-exceptions)
// Exit status: number of silently accepted calls.
#include <cstdio>
#include <cmath>
#include "clipper2/clipper.h"
using namespace Clipper2Lib;

static size_t count(const PathsD& ps) { size_t n = 0; for (auto& p : ps) n += p.size(); return n; }

static int failures = 0;
template <class F> static void expect_reported(const char* what, F f) {
  size_t npts = 0;
#if defined(__cpp_exceptions)
  try { npts = f(); }
  catch (const Clipper2Exception& e) { std::printf("ok      %-46s threw \"%s\"\n", what, e.what()); return; }
  std::printf("SILENT  %-46s no exception, %zu points returned (demanded: exception)\n", what, npts); ++failures;
#else
  npts = f();
  if (npts == 0) { std::printf("ok      %-46s empty result\n", what); return; }
  std::printf("SILENT  %-46s %zu points returned (demanded: an empty result; the function has no error code)\n", what, npts); ++failures;
#endif
}

int main() {
  const double just_over = std::ldexp(1.0, 61) + 4096.0;   // MAX_COORD = 2^61 - 1
  PathsD sq = { PathD{ PointD(0, 0), PointD(10, 0), PointD(10, 10), PointD(0, 10) } };
  PathsD ln = { PathD{ PointD(0, 5), PointD(10, 5), PointD(10, 6) } };
  expect_reported("RectClip(RectD(2,2,2^61+4096,8), sq, 0)",      [&] { return count(RectClip(RectD(2, 2, just_over, 8), sq, 0)); });
  expect_reported("RectClip(RectD(-2^61-4096,2,8,8), sq, 0)",     [&] { return count(RectClip(RectD(-just_over, 2, 8, 8), sq, 0)); });
  expect_reported("RectClipLines(RectD(2,2,2^61+4096,8), ln, 0)", [&] { return count(RectClipLines(RectD(2, 2, just_over, 8), ln, 0)); });
  expect_reported("RectClip(RectD(2,2,8,8), {.., 2^61+4096 ..}) [control]", [&] {
    PathsD big = sq; big[0][1].x = just_over; return count(RectClip(RectD(2, 2, 8, 8), big, 0)); });
  // beyond int64: undefined conversion; with exceptions nothing is thrown either
#if defined(__cpp_exceptions)
  expect_reported("RectClip(RectD(2,2,1e300,8), sq, 2)",          [&] { return count(RectClip(RectD(2, 2, 1e300, 8), sq, 2)); });
#endif
  std::printf("%d silent acceptance(s)\n", failures);
  return failures;
}
