// C11 demo: a NaN coordinate passes every range test of the library (GetBounds skips NaN because all comparisons with NaN
// are false, and the test itself is written with < and >), and is then converted with
// static_cast<int64_t>(std::round(NaN)) -- undefined behaviour, INT64_MIN on x86-64, i.e. far outside +-MAX_COORD.
// Property C11: "coordinates that would leave the integer range after scaling ... are reported through an exception
// (or, with exceptions disabled, through the error code together with an empty result); never silently accepted."
//
//   g++ -std=c++17 -O1 -I/repo/CPP/Clipper2Lib/include /verif/triage/demos/C11-nan.cpp \
//       /repo/CPP/Clipper2Lib/src/clipper.engine.cpp /repo/CPP/Clipper2Lib/src/clipper.offset.cpp \
//       /repo/CPP/Clipper2Lib/src/clipper.rectclip.cpp -o /tmp/c11-nan && /tmp/c11-nan       (and with -fno-exceptions)
// Exit status: number of silently accepted calls.
#include <cstdio>
#include <cmath>
#include <cinttypes>
#include "clipper2/clipper.h"
using namespace Clipper2Lib;

static int failures = 0;

int main() {
  const double nan = std::nan("");
  PathsD ps = { PathD{ PointD(0, 0), PointD(nan, 0.0), PointD(10, 10), PointD(0, 10) } };
  int ec = 0;
  bool thrown = false;
  Paths64 r;
#if defined(__cpp_exceptions)
  try { r = ScalePaths<int64_t, double>(ps, 100.0, ec); } catch (const Clipper2Exception& e) { thrown = true; std::printf("ok      ScalePaths threw \"%s\"\n", e.what()); }
#else
  r = ScalePaths<int64_t, double>(ps, 100.0, ec);
#endif
  if (!thrown) {
    size_t n = 0; for (auto& p : r) n += p.size();
    if ((ec & range_error_i) && n == 0) std::printf("ok      ScalePaths<int64_t,double>({.., NaN, ..}, 100): error code %d, empty result\n", ec);
    else {
      std::printf("SILENT  ScalePaths<int64_t,double>({.., NaN, ..}, 100): no exception, error code %d, %zu points, x[1] = %" PRId64
                  " (MAX_COORD = %" PRId64 ")\n", ec, n, n > 1 ? r[0][1].x : 0, MAX_COORD);
      ++failures;
    }
  }
  // the same through a public entry point
  thrown = false;
  PathsD u;
#if defined(__cpp_exceptions)
  try { u = Union(ps, FillRule::NonZero, 2); } catch (const Clipper2Exception& e) { thrown = true; std::printf("ok      Union threw \"%s\"\n", e.what()); }
#else
  u = Union(ps, FillRule::NonZero, 2);
#endif
  if (!thrown) {
    size_t n = 0; for (auto& p : u) n += p.size();
    if (n == 0) std::printf("SILENT  Union(PathsD{.., NaN, ..}, NonZero, 2): no exception; the result happens to be empty\n");
    else std::printf("SILENT  Union(PathsD{.., NaN, ..}, NonZero, 2): no exception; %zu points, first x = %g\n", n, u[0][0].x);
    ++failures;
  }
  std::printf("%d silent acceptance(s)\n", failures);
  return failures;
}
