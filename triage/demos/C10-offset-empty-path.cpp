// C10 demo: an EMPTY path in a ClipperOffset group with an open end type reaches path[0] / norms[0].
// Public API only: InflatePaths({ {} }, 5, jt, et) for et in Joined, Butt, Square, Round (EndType::Polygon is fine).
// build: g++ -std=c++17 -O1 -I/repo/CPP/Clipper2Lib/include C10-offset-empty-path.cpp /repo/CPP/Clipper2Lib/src/clipper.engine.cpp \
//            /repo/CPP/Clipper2Lib/src/clipper.offset.cpp /repo/CPP/Clipper2Lib/src/clipper.rectclip.cpp -o demo
//        (add -fsanitize=address,undefined to see: "runtime error: reference binding to null pointer" in DoBevel/DoSquare/DoRound/OffsetOpenJoined)
// Each call runs in a child process; exit 0 = every call returned an empty result, exit 1 = a child died.
#include "clipper2/clipper.h"
#include <cstdio>
#include <csignal>
#include <sys/wait.h>
#include <unistd.h>
using namespace Clipper2Lib;

static int child(JoinType jt, EndType et, const char* name) {
  std::printf("InflatePaths({{}}, 5, jt=%d, %s): ", (int)jt, name); std::fflush(stdout);
  pid_t p = fork();
  if (p == 0) {
    alarm(20);
    Paths64 in = { Path64() };                       // one path with no points
    Paths64 out = InflatePaths(in, 5.0, jt, et);
    std::printf("returned %zu paths\n", out.size()); std::fflush(stdout);
    _exit(out.empty() ? 0 : 2);
  }
  int st = 0; waitpid(p, &st, 0);
  if (WIFSIGNALED(st)) { std::printf("child killed by signal %d\n", WTERMSIG(st)); return 1; }
  if (WEXITSTATUS(st) != 0) { std::printf("  (exit code %d)\n", WEXITSTATUS(st)); return 1; }
  return 0;
}

int main() {
  int bad = 0;
  bad += child(JoinType::Square, EndType::Polygon, "EndType::Polygon");
  bad += child(JoinType::Bevel, EndType::Joined, "EndType::Joined");
  bad += child(JoinType::Square, EndType::Butt, "EndType::Butt");
  bad += child(JoinType::Miter, EndType::Square, "EndType::Square");
  bad += child(JoinType::Round, EndType::Round, "EndType::Round");
  std::printf("property C10 demands: every call returns (nothing to offset).  got: %d of 5 calls failed\n", bad);
  return bad ? 1 : 0;
}
