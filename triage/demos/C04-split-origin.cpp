// C04 demo 3: a hole that was split off its outer polygon (or absorbed such a split) during the sweep ends up at the
// top level of the PolyTree64: a top-level polygon with NEGATIVE orientation that lies inside its sibling.
// Build: g++ -std=c++17 -O1 -I/repo/CPP/Clipper2Lib/include /verif/triage/demos/C04-split-origin.cpp \
//          /repo/CPP/Clipper2Lib/src/clipper.engine.cpp -o /tmp/c04-split-origin
// Only public API is used.  Returns 1 when the property fails.
#include <cstdio>
#include "clipper2/clipper.h"
using namespace Clipper2Lib;

static int bad = 0;

static void Walk(const PolyPath64& n, int depth)
{
  for (size_t i = 0; i < n.Count(); ++i)
  {
    const PolyPath64* c = n[i];
    double a = Area(c->Polygon());
    printf("%*s%s level=%d area=%g :", depth * 2 + 2, "", c->IsHole() ? "hole " : "outer", (int)c->Level(), a);
    for (const Point64& p : c->Polygon()) printf(" (%lld,%lld)", (long long)p.x, (long long)p.y);
    printf("\n");
    // "depth alternates between outer polygons (positive orientation) and holes (negative orientation)"
    if (c->IsHole() != (a < 0))
    {
      printf("%*s  ^^ PROPERTY FAILS: IsHole()=%d but orientation is %s\n", depth * 2 + 2, "", (int)c->IsHole(), a < 0 ? "negative" : "positive");
      ++bad;
    }
    Walk(*c, depth + 1);
  }
}

static void Run(const char* name, const Paths64& subject, const Paths64& clip, ClipType ct, FillRule fr)
{
  Clipper64 c;
  c.AddSubject(subject);
  c.AddClip(clip);
  PolyTree64 tree; Paths64 open;
  bool ok = c.Execute(ct, fr, tree, open);
  printf("%s: Execute -> %d, tree:\n", name, (int)ok);
  Walk(tree, 0);
}

int main()
{
  // rectangles on the lattice of even numbers (every two distinct x / y values are >= 2 apart)
  Run("A  Xor/Positive",
      { MakePath({ 2,8, 10,8, 10,2, 2,2 }), MakePath({ 6,4, 10,4, 10,10, 6,10 }), MakePath({ 2,6, 10,6, 10,10, 2,10 }),
        MakePath({ 6,2, 8,2, 8,6, 6,6 }) },
      { MakePath({ 0,4, 10,4, 10,10, 0,10 }), MakePath({ 4,6, 10,6, 10,4, 4,4 }) },
      ClipType::Xor, FillRule::Positive);
  Run("B  Xor/EvenOdd",
      { MakePath({ 6,2, 10,2, 10,4, 6,4 }), MakePath({ 8,4, 10,4, 10,6, 8,6 }), MakePath({ 4,4, 8,4, 8,10, 4,10 }),
        MakePath({ 2,2, 10,2, 10,4, 2,4 }), MakePath({ 4,0, 12,0, 12,10, 4,10 }) },
      { MakePath({ 2,12, 10,12, 10,2, 2,2 }) },
      ClipType::Xor, FillRule::EvenOdd);
  printf("demanded: polygons with negative orientation are holes, i.e. children (even level) of the polygon that contains them\n");
  printf("%s\n", bad ? "FAIL" : "PASS");
  return bad ? 1 : 0;
}
