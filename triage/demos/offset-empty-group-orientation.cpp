// C06 / C12 demo (key offset.orientation-lost.empty-polygon-group-first).
// The polygons of the call use the reversed convention (outer rings clockwise = negative area); "orientation of the input
// is preserved" (C06) and "groups ... are offset exactly as they would be alone, whatever was added before them" (C12).
// When the first EndType::Polygon group of the object has no point at all (one empty path), CheckReverseOrientation takes
// is_reversed = false from it, the clean-up union then uses FillRule::Positive on negatively oriented offset curves and the
// whole result disappears.
// Build: g++ -std=c++17 -O1 -I$REPO/CPP/Clipper2Lib/include offset-empty-group-orientation.cpp $REPO/CPP/Clipper2Lib/src/clipper.engine.cpp \
//        $REPO/CPP/Clipper2Lib/src/clipper.offset.cpp $REPO/CPP/Clipper2Lib/src/clipper.rectclip.cpp -o /tmp/offset-empty-group-orientation
// Public API only.  Returns 1 when the property fails.
#include <cstdio>
#include "clipper2/clipper.h"
using namespace Clipper2Lib;

int main()
{
  const Path64 cw = { {0, 100}, {100, 100}, {100, 0}, {0, 0} };     // area -10000
  Paths64 alone, after_empty, before_empty;
  { ClipperOffset co; co.AddPaths({ cw }, JoinType::Miter, EndType::Polygon); co.Execute(10.0, alone); }
  { ClipperOffset co; co.AddPaths({ Path64() }, JoinType::Miter, EndType::Polygon);
    co.AddPaths({ cw }, JoinType::Miter, EndType::Polygon); co.Execute(10.0, after_empty); }
  { ClipperOffset co; co.AddPaths({ cw }, JoinType::Miter, EndType::Polygon);
    co.AddPaths({ Path64() }, JoinType::Miter, EndType::Polygon); co.Execute(10.0, before_empty); }
  printf("clockwise square (area %.0f) alone, delta +10:  %zu path(s), area %.0f (-14400 expected: 120x120, orientation kept)\n",
         Area(cw), alone.size(), Area(alone));
  printf("empty group added BEFORE it:                      %zu path(s), area %.0f\n", after_empty.size(), Area(after_empty));
  printf("empty group added AFTER it:                       %zu path(s), area %.0f\n", before_empty.size(), Area(before_empty));
  bool ok = after_empty == alone && before_empty == alone && Area(alone) == -14400;
  printf("property demands all three equal: %s\n", ok ? "holds" : "FAILS");
  return ok ? 0 : 1;
}
