// C08 demo: for a polygon that misses the rectangle RectClip returns a "path" consisting of a single point (a rectangle corner).
// Property C08: "... polygons entirely outside vanish".
// Cause: (1) at |coordinates| ~ 2^36 the binary64 cross products in GetSegmentIntersection round to 0, so an edge that passes a
// corner at a distance is taken to touch it and corner points are added to the ring; (2) RectClip64::GetPath removes the collinear
// points of that ring and returns whatever is left, also when only one (or two) points remain -- the test `op->next == op->prev`
// is made before the removal only.  RectClip returns such 1- and 2-point paths in other situations as well (they cover nothing).
//
// g++ -std=c++17 -O1 -ffp-contract=off -I/repo/CPP/Clipper2Lib/include C08-outside-degenerate-path.cpp \
//     /repo/CPP/Clipper2Lib/src/clipper.engine.cpp /repo/CPP/Clipper2Lib/src/clipper.offset.cpp \
//     /repo/CPP/Clipper2Lib/src/clipper.rectclip.cpp -o C08-outside-degenerate-path && ./C08-outside-degenerate-path
#include "clipper2/clipper.h"
#include <cstdio>
using namespace Clipper2Lib;

int main() {
  const Rect64 rect(0, 0, 34359738368LL, 2);
  const Path64 poly = MakePath({-24972231630LL, -2737206681LL, 59994031219LL, 1182606235LL, 0LL, -29311918759LL,
                                -6210040596LL, -363543022LL, 71667537363LL, 334312642LL});
  const Paths64 out = RectClip(rect, Paths64{poly});
  // independent evidence that the polygon misses the rectangle: the general clipper finds an empty intersection (either fill rule)
  const size_t n1 = Intersect(Paths64{poly}, Paths64{rect.AsPath()}, FillRule::NonZero).size();
  const size_t n2 = Intersect(Paths64{poly}, Paths64{rect.AsPath()}, FillRule::EvenOdd).size();
  std::printf("Intersect(polygon, rectangle): %zu paths (NonZero), %zu paths (EvenOdd)\n", n1, n2);
  std::printf("RectClip returned %zu path(s):", out.size());
  for (const Path64& p : out) { std::printf(" ["); for (const Point64& v : p) std::printf(" (%lld,%lld)", (long long)v.x, (long long)v.y); std::printf(" ]"); }
  std::printf("\nproperty C08 demands: no output (the polygon is entirely outside the rectangle)\n");
  if (!out.empty()) { std::printf("FAIL\n"); return 1; }
  std::printf("OK\n");
  return 0;
}
