// C04 demo 2: an island that lies inside a hole becomes a child of the OUTER polygon (a "hole" by level, with the
// orientation of an outer polygon and overlapping its sibling hole) instead of a child of the hole that contains it.
// Build: g++ -std=c++17 -O1 -I/repo/CPP/Clipper2Lib/include /verif/triage/demos/C04-island-under-outer.cpp \
//          /repo/CPP/Clipper2Lib/src/clipper.engine.cpp -o /tmp/c04-island2
// Only public API is used.  Returns 1 when the property fails.
#include <cstdio>
#include "clipper2/clipper.h"
using namespace Clipper2Lib;

static int bad = 0;

static void Walk(const PolyPath64& n, int depth)
{
  for (size_t i = 0; i < n.Count(); ++i)
  {
    const PolyPath64* c = n[i];
    double a = Area(c->Polygon());
    printf("%*s%s level=%d area=%g :", depth * 2, "", c->IsHole() ? "hole " : "outer", (int)c->Level(), a);
    for (const Point64& p : c->Polygon()) printf(" (%lld,%lld)", (long long)p.x, (long long)p.y);
    printf("\n");
    // "depth alternates between outer polygons (positive orientation) and holes (negative orientation)"
    if (c->IsHole() != (a < 0))
    {
      printf("%*s  ^^ PROPERTY FAILS: IsHole()=%d but orientation is %s\n", depth * 2, "", (int)c->IsHole(), a < 0 ? "negative" : "positive");
      ++bad;
    }
    // "every polygon in the tree lies ... outside its siblings"
    for (size_t j = 0; j < n.Count(); ++j)
    {
      if (j == i) continue;
      const Path64& sib = n[j]->Polygon();
      int in = 0;
      for (const Point64& p : c->Polygon())
        if (PointInPolygon(p, sib) == PointInPolygonResult::IsInside) ++in;
      if (in > 0)
      {
        printf("%*s  ^^ PROPERTY FAILS: %d of its vertices are strictly inside its sibling #%d\n", depth * 2, "", in, (int)j);
        ++bad;
      }
    }
    Walk(*c, depth + 1);
  }
}

int main()
{
  // rectilinear, every two distinct x / y values are >= 4 apart; one self-touching ring (EvenOdd) + a small square
  Paths64 subject = {
    MakePath({ -72,-76, -72,-72, -60,-72, -60,-92, -72,-92, -72,-76, -80,-76, -80,-88, -92,-88, -92,-76,
               -96,-76, -112,-76, -112,-72, -120,-72, -120,-92, -40,-92, -40,-52, -120,-52, -120,-72, -112,-72,
               -112,-56, -96,-56, -96,-76 }),
    MakePath({ -88,-84, -84,-84, -84,-80, -88,-80 }) };   // lies inside the region [-92,-80]x[-88,-76], which is a hole of the ring
  Clipper64 c;
  c.AddSubject(subject);
  PolyTree64 tree; Paths64 open;
  bool ok = c.Execute(ClipType::Union, FillRule::EvenOdd, tree, open);
  printf("Execute -> %d, tree:\n", (int)ok);
  Walk(tree, 0);
  printf("demanded: the square (-88..-84 x -84..-80) is filled and lies inside the hole (-92..-80 x -88..-76), so it must be\n"
         "          an outer polygon at level 3 below that hole, not a level-2 'hole' of the outer polygon\n");
  printf("%s\n", bad ? "FAIL" : "PASS");
  return bad ? 1 : 0;
}
