// C10 demo (observed by C07's sanitizer run; key offset.empty-path-open-endtype-ub) -- NOT a C07 violation: an empty
// path is outside C07's quantifier.  An EMPTY path in a group whose end type is Joined/Butt/Square/Round makes
// DoGroupOffset call OffsetOpenJoined/OffsetOpenPath, which read norms[0] / path[0] of empty vectors (undefined
// behaviour; with -D_GLIBCXX_ASSERTIONS or UBSan the program aborts).  C10: "without out-of-bounds ... accesses ... or
// undefined behaviour, for every input: ... empty, one- and two-point paths".
// Build: g++ -std=c++17 -O1 -fsanitize=address,undefined -fno-sanitize-recover=all -I$REPO/CPP/Clipper2Lib/include \
//        offset-empty-path-open-group.cpp $REPO/CPP/Clipper2Lib/src/clipper.engine.cpp $REPO/CPP/Clipper2Lib/src/clipper.offset.cpp \
//        $REPO/CPP/Clipper2Lib/src/clipper.rectclip.cpp -o /tmp/offset-empty-path-open-group
// Public API only.  Exits through the sanitizer (non-zero) when the defect is present; returns 1 when the result is wrong.
#include <cstdio>
#include "clipper2/clipper.h"
using namespace Clipper2Lib;

int main()
{
  int bad = 0;
  const Path64 tri = { {0, 0}, {100, 0}, {100, 100} };
  for (EndType et : { EndType::Joined, EndType::Butt, EndType::Square, EndType::Round })
  {
    Paths64 alone, with_empty;
    { ClipperOffset co; co.AddPaths({ tri }, JoinType::Square, et); co.Execute(10.0, alone); }
    { ClipperOffset co; co.AddPaths({ Path64(), tri }, JoinType::Square, et); co.Execute(10.0, with_empty); }
    printf("end type %d: alone %zu path(s) area %.0f; with an empty path in the group %zu path(s) area %.0f\n",
           (int)et, alone.size(), Area(alone), with_empty.size(), Area(with_empty));
    if (alone != with_empty) bad = 1;
  }
  printf("no undefined behaviour reported, results %s\n", bad ? "DIFFER" : "equal");
  return bad;
}
