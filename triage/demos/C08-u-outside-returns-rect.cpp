#include "clipper2/clipper.h"
#include <iostream>
using namespace Clipper2Lib;
int main(){
  Rect64 r(0,0,48,48);
  Path64 p = MakePath({-16,56, -8,56, -8,0, 0,0, 0,56, 48,56, 48,0, 56,0, 56,64, -16,64});
  Paths64 res = RectClip(r, p);
  std::cout << res << " area in=" << Area(p) << "\n";
  Path64 q=p; std::reverse(q.begin(),q.end());
  std::cout << RectClip(r,q) << "\n";
  for (size_t k=0;k<p.size();++k){ Path64 s(p.begin()+k,p.end()); s.insert(s.end(),p.begin(),p.begin()+k); std::cout<<k<<": "<<RectClip(r,s).size()<<" "; }
  std::cout<<"\n";
  return res.empty()?0:1;
}
