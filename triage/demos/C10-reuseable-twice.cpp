// C10 demo: the same ReuseableDataContainer64 added twice to one Clipper64.
// Both additions put LocalMinima that point at the SAME Vertex objects into the clipper; the sweep pairs edges by vertex
// address (GetMaximaPair: e2->vertex_top == e.vertex_top), pairs edges of different copies, and AddLocalMaxPoly
// dereferences a null outrec (IsFront) -- for other inputs the operation allocates without bound.
// build: g++ -std=c++17 -O1 -I/repo/CPP/Clipper2Lib/include C10-reuseable-twice.cpp /repo/CPP/Clipper2Lib/src/clipper.engine.cpp \
//            /repo/CPP/Clipper2Lib/src/clipper.offset.cpp /repo/CPP/Clipper2Lib/src/clipper.rectclip.cpp -o demo
#include "clipper2/clipper.h"
#include <cstdio>
#include <csignal>
#include <sys/resource.h>
#include <sys/wait.h>
#include <unistd.h>
using namespace Clipper2Lib;

static int child(int times) {
  std::printf("AddReuseableData(r) x%d, Execute(Union, Positive): ", times); std::fflush(stdout);
  pid_t p = fork();
  if (p == 0) {
    alarm(20);
    struct rlimit rl; rl.rlim_cur = rl.rlim_max = (rlim_t)2 << 30; setrlimit(RLIMIT_AS, &rl);
    Paths64 set0 = { MakePath({10,10, 90,20, 80,90, 20,70}), MakePath({50,0, 120,60, 40,110}) };
    Paths64 set1 = { MakePath({-10,50, 60,55, 130,40}), MakePath({30,-20, 35,130}), MakePath({0,100, 50,20, 100,100, 150,20}) };
    ReuseableDataContainer64 r;
    r.AddPaths(set0, PathType::Subject, false); r.AddPaths(set1, PathType::Subject, true);
    Clipper64 c;
    for (int i = 0; i < times; ++i) c.AddReuseableData(r);
    Paths64 s, o;
    try { bool ok = c.Execute(ClipType::Union, FillRule::Positive, s, o); std::printf("returned %d, %zu closed, %zu open\n", ok, s.size(), o.size()); }
    catch (const std::exception& e) { std::printf("exception %s\n", e.what()); }
    std::fflush(stdout); _exit(0);
  }
  int st = 0; waitpid(p, &st, 0);
  if (WIFSIGNALED(st)) { std::printf("child killed by signal %d (%s)\n", WTERMSIG(st), WTERMSIG(st) == SIGSEGV ? "SIGSEGV" : WTERMSIG(st) == SIGALRM ? "timeout" : "other"); return 1; }
  return WEXITSTATUS(st);
}

int main() {
  int a = child(1), b = child(2);
  std::printf("property C10 demands: every public operation returns.  got: once %s, twice %s\n", a ? "FAILED" : "returned", b ? "FAILED" : "returned");
  return (a || b) ? 1 : 0;
}
