// C10 demo: unbounded recursion in ClipperBase::CheckSplitOwner (clipper.engine.cpp) -> stack overflow (SIGSEGV).
// Public API only.  Coincident input: the same five paths are added three times as closed subjects, twice as open
// subjects and once as clip (through a ReuseableDataContainer64), plus two more subject polygons and three open paths;
// Execute(Xor, EvenOdd) into a PolyTree64.  The Paths64 overload of Execute on the same input returns normally.
//
// build: g++ -std=c++17 -O1 -I/repo/CPP/Clipper2Lib/include C10-checksplitowner-recursion.cpp \
//            /repo/CPP/Clipper2Lib/src/clipper.engine.cpp /repo/CPP/Clipper2Lib/src/clipper.offset.cpp \
//            /repo/CPP/Clipper2Lib/src/clipper.rectclip.cpp -o demo
// The operation is run in a child process so that the demo itself can report: exit 0 = the property holds (Execute
// returned), exit 1 = the child died (signal) or did not return within 20 s.
#include "clipper2/clipper.h"
#include <cstdio>
#include <csignal>
#include <sys/wait.h>
#include <unistd.h>
using namespace Clipper2Lib;

static int run(bool tree) {
  Paths64 set0 = { MakePath({10,10, 90,20, 80,90, 20,70}), MakePath({50,0, 120,60, 40,110}) };
  Paths64 set1 = { MakePath({-10,50, 60,55, 130,40}), MakePath({30,-20, 35,130}), MakePath({0,100, 50,20, 100,100, 150,20}) };
  Paths64 set2 = { MakePath({0,0, 30,0, 60,0, 60,60, 0,60, 0,0}), MakePath({60,0, 120,0, 120,60, 60,60}),
                   MakePath({30,60, 90,60, 90,100, 30,100}), MakePath({10,10, 50,10}), MakePath({5,5}) };
  ReuseableDataContainer64 r0, r1;
  r0.AddPaths(set0, PathType::Subject, false); r0.AddPaths(set1, PathType::Subject, true);
  r1.AddPaths(set2, PathType::Clip, false);
  Clipper64 c;
  c.AddSubject(set2); c.AddReuseableData(r1); c.AddReuseableData(r0); c.AddOpenSubject(set2);
  c.AddSubject(set2); c.AddOpenSubject(set2); c.AddSubject(set2);
  if (tree) { PolyTree64 t; Paths64 open; c.Execute(ClipType::Xor, FillRule::EvenOdd, t, open); std::printf("  tree: %zu top-level polygons\n", t.Count()); }
  else { Paths64 s, open; c.Execute(ClipType::Xor, FillRule::EvenOdd, s, open); std::printf("  paths: %zu closed, %zu open\n", s.size(), open.size()); }
  std::fflush(stdout);
  return 0;
}

static int child(bool tree) {
  std::fflush(stdout);
  pid_t p = fork();
  if (p == 0) { alarm(20); _exit(run(tree)); }
  int st = 0; waitpid(p, &st, 0);
  if (WIFSIGNALED(st)) { std::printf("  child killed by signal %d (%s)\n", WTERMSIG(st), WTERMSIG(st) == SIGSEGV ? "SIGSEGV" : WTERMSIG(st) == SIGALRM ? "timeout" : "other"); return 1; }
  return WEXITSTATUS(st);
}

int main() {
  std::printf("Execute(Xor, EvenOdd, Paths64):\n"); int a = child(false);
  std::printf("Execute(Xor, EvenOdd, PolyTree64):\n"); int b = child(true);
  std::printf("property C10 demands: both calls return.  got: paths %s, polytree %s\n", a ? "FAILED" : "returned", b ? "FAILED" : "returned");
  return (a || b) ? 1 : 0;
}
