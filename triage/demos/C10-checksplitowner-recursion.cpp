// C10 demo: unbounded recursion in ClipperBase::CheckSplitOwner (clipper.engine.cpp) -> stack overflow (SIGSEGV).
// Public API only.  Coincident input: ONE triangle, added once as clip and six times as subject;
// Execute(Union or Xor, EvenOdd) into a PolyTree64.  The Paths64 overload of Execute on the same input returns normally.
// (First seen through the C12 history `S2 R1 R0 O2 S2 O2 S2 T40`; second input below.)
//
// build: g++ -std=c++17 -O1 -I/repo/CPP/Clipper2Lib/include C10-checksplitowner-recursion.cpp \
//            /repo/CPP/Clipper2Lib/src/clipper.engine.cpp /repo/CPP/Clipper2Lib/src/clipper.offset.cpp \
//            /repo/CPP/Clipper2Lib/src/clipper.rectclip.cpp -o demo
// Each operation is run in a child process so that the demo itself can report: exit 0 = the property holds (every Execute
// returned), exit 1 = a child died (signal) or did not return within 20 s.
#include "clipper2/clipper.h"
#include <cstdio>
#include <csignal>
#include <sys/wait.h>
#include <unistd.h>
using namespace Clipper2Lib;

static int run1(bool tree, ClipType ct) {
  Path64 t = MakePath({20,-20, 30,-20, 20,-10});
  Clipper64 c;
  c.AddClip({t});
  c.AddSubject({t, t, t, t, t, t});
  if (tree) { PolyTree64 pt; c.Execute(ct, FillRule::EvenOdd, pt); std::printf("  returned, %zu top-level polygons\n", pt.Count()); }
  else { Paths64 s; c.Execute(ct, FillRule::EvenOdd, s); std::printf("  returned, %zu paths\n", s.size()); }
  std::fflush(stdout);
  return 0;
}

static int run2(bool tree, ClipType) {   // the C12 history
  Paths64 set0 = { MakePath({10,10, 90,20, 80,90, 20,70}), MakePath({50,0, 120,60, 40,110}) };
  Paths64 set1 = { MakePath({-10,50, 60,55, 130,40}), MakePath({30,-20, 35,130}), MakePath({0,100, 50,20, 100,100, 150,20}) };
  Paths64 set2 = { MakePath({0,0, 30,0, 60,0, 60,60, 0,60, 0,0}), MakePath({60,0, 120,0, 120,60, 60,60}),
                   MakePath({30,60, 90,60, 90,100, 30,100}), MakePath({10,10, 50,10}), MakePath({5,5}) };
  ReuseableDataContainer64 r0, r1;
  r0.AddPaths(set0, PathType::Subject, false); r0.AddPaths(set1, PathType::Subject, true);
  r1.AddPaths(set2, PathType::Clip, false);
  Clipper64 c;
  c.AddSubject(set2); c.AddReuseableData(r1); c.AddReuseableData(r0); c.AddOpenSubject(set2);
  c.AddSubject(set2); c.AddOpenSubject(set2); c.AddSubject(set2);
  if (tree) { PolyTree64 t; Paths64 open; c.Execute(ClipType::Xor, FillRule::EvenOdd, t, open); std::printf("  returned, %zu top-level polygons\n", t.Count()); }
  else { Paths64 s, open; c.Execute(ClipType::Xor, FillRule::EvenOdd, s, open); std::printf("  returned, %zu closed, %zu open\n", s.size(), open.size()); }
  std::fflush(stdout);
  return 0;
}

static int child(const char* what, int (*f)(bool, ClipType), bool tree, ClipType ct) {
  std::printf("%s\n", what); std::fflush(stdout);
  pid_t p = fork();
  if (p == 0) { alarm(20); _exit(f(tree, ct)); }
  int st = 0; waitpid(p, &st, 0);
  if (WIFSIGNALED(st)) { std::printf("  child killed by signal %d (%s)\n", WTERMSIG(st), WTERMSIG(st) == SIGSEGV ? "SIGSEGV" : WTERMSIG(st) == SIGALRM ? "timeout" : "other"); return 1; }
  return WEXITSTATUS(st);
}

int main() {
  int bad = 0;
  bad += child("triangle x1 clip, x6 subject: Execute(Union, EvenOdd, Paths64)", run1, false, ClipType::Union);
  bad += child("triangle x1 clip, x6 subject: Execute(Union, EvenOdd, PolyTree64)", run1, true, ClipType::Union);
  bad += child("triangle x1 clip, x6 subject: Execute(Xor, EvenOdd, PolyTree64)", run1, true, ClipType::Xor);
  bad += child("C12 history: Execute(Xor, EvenOdd, Paths64)", run2, false, ClipType::Xor);
  bad += child("C12 history: Execute(Xor, EvenOdd, PolyTree64)", run2, true, ClipType::Xor);
  std::printf("property C10 demands: every call returns.  got: %d of 5 calls did not return\n", bad);
  return bad ? 1 : 0;
}
