// C03 demo: "every vertex is within 2 units of an input edge" fails for a general-position input whose
// coordinates exceed 2^53 (here multiples of 2^53 up to ~2^60.3, all exactly representable as doubles).
// Union/EvenOdd of one self-crossing quadrilateral; the new vertex is the crossing point of two input edges, which
// GetSegmentIntersectPt computes as  ln1a.x + t*dx1  in double: at 2^60 one ulp is 256 units.
//
// build: g++ -std=c++17 -O1 -I/repo/CPP/Clipper2Lib/include -I/repo/CPP/Clipper2Lib/src \
//            /verif/triage/demos/C03-vertex-far-beyond-2p53.cpp -o /tmp/c03-vertex-far
// (add -DCLIPPER2_HI_PRECISION=1 for the other intersection routine: it fails in the same way)
// exit status 1 = property violated, 0 = holds.
#include "clipper2/clipper.h"
#include "clipper.engine.cpp"
#include "clipper.offset.cpp"
#include "clipper.rectclip.cpp"
#include <cstdio>
#include <cmath>
using namespace Clipper2Lib;
typedef __int128 i128;

// distance from p to segment ab; coordinate differences are exact in int64 (|coord| < 2^62), cross/dot exact in
// 128 bits (|difference| < 2^62 here), only the final division/sqrt is rounded (long double, relative error 2^-63)
static long double dist_pt_seg(const Point64& p, const Point64& a, const Point64& b) {
  i128 dx = b.x - a.x, dy = b.y - a.y, px = p.x - a.x, py = p.y - a.y;
  i128 L = dx * dx + dy * dy, t = px * dx + py * dy;
  if (L == 0 || t <= 0) return sqrtl((long double)(px * px + py * py));
  if (t >= L) { i128 qx = p.x - b.x, qy = p.y - b.y; return sqrtl((long double)(qx * qx + qy * qy)); }
  i128 cr = dx * py - dy * px; if (cr < 0) cr = -cr;
  return (long double)cr / sqrtl((long double)L);
}

int main() {
  const int64_t K = 9007199254740992LL;  // 2^53
  Paths64 subj = { { Point64(-111 * K, 123 * K), Point64(-104 * K, 94 * K), Point64(-108 * K, 158 * K), Point64(-89 * K, 80 * K) } };
  Clipper64 c;
  c.PreserveCollinear(true);
  c.AddSubject(subj);
  Paths64 sol;
  bool ok = c.Execute(ClipType::Union, FillRule::EvenOdd, sol);
  printf("Execute returned %d, %zu solution paths\n", (int)ok, sol.size());
  int bad = 0;
  for (const Path64& p : sol)
    for (const Point64& v : p) {
      long double best = INFINITY;
      for (const Path64& q : subj)
        for (size_t i = 0; i < q.size(); ++i) {
          long double d = dist_pt_seg(v, q[i], q[(i + 1) % q.size()]);
          if (d < best) best = d;
        }
      printf("  vertex (%lld, %lld): distance to the nearest input edge = %.3Lf%s\n", (long long)v.x, (long long)v.y, best,
             best > 2.0L ? "   <-- property demands <= 2" : "");
      if (best > 2.0L) ++bad;
    }
  printf("%d solution vertices farther than 2 units from every input edge (property C03 demands 0)\n", bad);
  return bad ? 1 : 0;
}
