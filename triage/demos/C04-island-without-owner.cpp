// C04 demo: an island that stands inside a hole which a horizontal join split off the outer polygon LATER is a top-level
// polygon of the PolyTree64 (it lies inside its sibling; it should be the child of the hole).  The island's OutRec never
// got an owner (owner == nullptr) and is in no split list, so RecursiveCheckOwners has nothing to search.
// Found by gen/splitmerge.py (VERIF_SEED=4); replay: /verif/triage/cov/C04-seed4-island-without-owner.replay.json
// Build: g++ -std=c++17 -O1 -I/repo/CPP/Clipper2Lib/include /verif/triage/demos/C04-island-without-owner.cpp \
//          /repo/CPP/Clipper2Lib/src/clipper.engine.cpp -o /tmp/c04-island-without-owner
// Only public API is used.  Returns 1 when the property fails.
#include <cstdio>
#include "clipper2/clipper.h"
using namespace Clipper2Lib;

static int bad = 0;

static void Walk(const PolyPath64& n, int depth)
{
  for (size_t i = 0; i < n.Count(); ++i)
  {
    const PolyPath64* c = n[i];
    printf("%*s%s level=%d area=%g :", depth * 2 + 2, "", c->IsHole() ? "hole " : "outer", (int)c->Level(), Area(c->Polygon()));
    for (const Point64& p : c->Polygon()) printf(" (%lld,%lld)", (long long)p.x, (long long)p.y);
    printf("\n");
    // "siblings are disjoint": no edge midpoint (doubled coordinates) of a polygon lies strictly inside one of its siblings
    for (size_t j = 0; j < n.Count(); ++j)
      if (j != i)
      {
        Path64 sib2; for (const Point64& q : n[j]->Polygon()) sib2.push_back(Point64(2 * q.x, 2 * q.y));
        const Path64& poly = c->Polygon();
        for (size_t k = 0; k < poly.size(); ++k)
        {
          const Point64& a = poly[k]; const Point64& b = poly[(k + 1) % poly.size()];
          if (PointInPolygon(Point64(a.x + b.x, a.y + b.y), sib2) == PointInPolygonResult::IsInside)
          {
            printf("%*s  ^^ PROPERTY FAILS: the midpoint of edge (%lld,%lld)-(%lld,%lld) lies strictly inside sibling %d\n", depth * 2 + 2, "",
                   (long long)a.x, (long long)a.y, (long long)b.x, (long long)b.y, (int)j);
            ++bad;
            break;
          }
        }
      }
    Walk(*c, depth + 1);
  }
}

int main()
{
  // seven rectangles with even coordinates; Union, EvenOdd
  Paths64 subject = {
    MakePath({ 22,46, 28,46, 28,36, 22,36 }), MakePath({ -4,34, 38,34, 38,36, -4,36 }), MakePath({ -2,38, 62,38, 62,36, -2,36 }),
    MakePath({ 20,38, 24,38, 24,48, 20,48 }), MakePath({ 54,38, 60,38, 60,48, 54,48 }), MakePath({ -2,50, 34,50, 34,48, -2,48 }),
    MakePath({ 34,50, 60,50, 60,48, 34,48 }) };
  Clipper64 c;
  c.AddSubject(subject);
  PolyTree64 tree; Paths64 open;
  bool ok = c.Execute(ClipType::Union, FillRule::EvenOdd, tree, open);
  printf("Union/EvenOdd: Execute -> %d, tree:\n", (int)ok);
  Walk(tree, 0);
  printf("demanded: the block (28,38)(28,46)(24,46)(24,38) is the child of the hole (22,36)...(28,36) that surrounds it\n");
  printf("%s\n", bad ? "FAIL" : "PASS");
  return bad ? 1 : 0;
}
