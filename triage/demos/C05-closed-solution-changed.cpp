// C05 / key open.closed-solution-changed: adding an open subject that passes within ~2 units of the apex of a closed
// polygon removes the whole tip from the CLOSED solution ("Adding open subjects does not change the region of the closed
// solution").  The closed paths are in general position; the open path crosses both edges of the tip 2-6 units below the
// apex (-924,964).
//
//   closed subject (-970,1084)(-995,911)(-1008,986), clip (-947,1058)(-988,990)(-950,994)(-924,964), Union/EvenOdd
//   open subject   (-924,1069)-(-927,901)
//
// build: g++ -std=c++17 -O1 -I<repo>/CPP/Clipper2Lib/include triage/demos/C05-closed-solution-changed.cpp \
//            <repo>/CPP/Clipper2Lib/src/clipper.engine.cpp <repo>/CPP/Clipper2Lib/src/clipper.offset.cpp \
//            <repo>/CPP/Clipper2Lib/src/clipper.rectclip.cpp -o C05-closed-solution-changed
// exit status: 0 = the closed solution has the same area with and without the open subject, 1 = not.
#include "clipper2/clipper.h"
#include <iostream>
#include <cmath>
using namespace Clipper2Lib;
static void show(const char* n, const Paths64& ps) {
  std::cout << n << ":";
  for (auto& p : ps) { std::cout << " ["; for (auto& v : p) std::cout << "(" << v.x << "," << v.y << ")"; std::cout << "]"; }
  std::cout << "  area " << Area(ps) << "\n";
}
int main() {
  Paths64 S{MakePath({-970,1084, -995,911, -1008,986})}, C{MakePath({-947,1058, -988,990, -950,994, -924,964})};
  Paths64 O{MakePath({-924,1069, -927,901})};
  Paths64 without, with, open;
  { Clipper64 c; c.AddSubject(S); c.AddClip(C); c.Execute(ClipType::Union, FillRule::EvenOdd, without); }
  { Clipper64 c; c.AddSubject(S); c.AddClip(C); c.AddOpenSubject(O); c.Execute(ClipType::Union, FillRule::EvenOdd, with, open); }
  show("closed solution without the open subject", without);
  show("closed solution with the open subject   ", with);
  show("open solution                           ", open);
  std::cout << "demanded: the same closed region (the open subject is a line, it has no area)\n";
  bool ok = std::fabs(Area(without) - Area(with)) < 1.0;
  std::cout << (ok ? "ok\n" : "FAILS: the tip (-950,994)(-924,964)(-947,1058), area 877, is gone\n");
  return ok ? 0 : 1;
}
