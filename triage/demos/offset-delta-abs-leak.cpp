// C12 / C06 demo (key offset.delta-abs-leak.empty-polygon-group).
// A ClipperOffset gets an EndType::Polygon group that consists of one empty path (it contributes nothing) and a second
// Polygon group with a 100x100 square; Execute(-10) must shrink the square to 80x80 whatever was added before it (C12:
// "groups too far apart to interact are offset exactly as they would be alone, whatever was added before them and in
// whatever order"; C06: shrinking yields the points at signed distance <= delta).  DoGroupOffset executes
// `delta_ = std::abs(delta_)` for the group without a lowest path: the MEMBER is changed and every later group inflates.
// Build: g++ -std=c++17 -O1 -I$REPO/CPP/Clipper2Lib/include offset-delta-abs-leak.cpp $REPO/CPP/Clipper2Lib/src/clipper.engine.cpp \
//        $REPO/CPP/Clipper2Lib/src/clipper.offset.cpp $REPO/CPP/Clipper2Lib/src/clipper.rectclip.cpp -o /tmp/offset-delta-abs-leak
// Public API only.  Returns 1 when the property fails.
#include <cstdio>
#include "clipper2/clipper.h"
using namespace Clipper2Lib;

int main()
{
  const Path64 sq = { {0, 0}, {100, 0}, {100, 100}, {0, 100} };
  Paths64 alone, after_empty, before_empty;
  { ClipperOffset co; co.AddPaths({ sq }, JoinType::Miter, EndType::Polygon); co.Execute(-10.0, alone); }
  { ClipperOffset co; co.AddPaths({ Path64() }, JoinType::Miter, EndType::Polygon);
    co.AddPaths({ sq }, JoinType::Miter, EndType::Polygon); co.Execute(-10.0, after_empty); }
  { ClipperOffset co; co.AddPaths({ sq }, JoinType::Miter, EndType::Polygon);
    co.AddPaths({ Path64() }, JoinType::Miter, EndType::Polygon); co.Execute(-10.0, before_empty); }
  printf("square alone, delta -10:                 area %.0f (80x80 = 6400 expected)\n", Area(alone));
  printf("empty group added BEFORE the square:     area %.0f\n", Area(after_empty));
  printf("empty group added AFTER the square:      area %.0f\n", Area(before_empty));
  bool ok = after_empty == alone && before_empty == alone;
  printf("property demands all three equal: %s\n", ok ? "holds" : "FAILS");
  return ok ? 0 : 1;
}
