// C05 / key open.horz-spike: an open subject whose flat top (a run of horizontal segments at a local
// extremum in y) doubles back over the x of the run's last vertex is not cut at the clip region.
//
//   clip    : rectangle x in [40,60], y in [-10,16]
//   subject : open polyline (0,40) (100,10) (0,10) (90,10) (95,40)
//             = sloped segment, horizontal y=10 from x=100 to x=0, horizontal y=10 back from x=0 to x=90, sloped segment.
//             Only the two horizontals meet the rectangle, each in {y=10, 40<=x<=60}.
//   demanded (C05 statement): Intersection = the two pieces (40,10)-(60,10) (one per horizontal);
//                             Difference   = everything except those two pieces, i.e. no solution segment
//                                            passes through (50,10).
//   NOTE: the two horizontals overlap collinearly, i.e. the open polyline is NOT in general position.
//
// build: g++ -std=c++17 -O1 -I<repo>/CPP/Clipper2Lib/include triage/demos/C05-horz-spike.cpp \
//            <repo>/CPP/Clipper2Lib/src/clipper.engine.cpp <repo>/CPP/Clipper2Lib/src/clipper.offset.cpp \
//            <repo>/CPP/Clipper2Lib/src/clipper.rectclip.cpp -o C05-horz-spike
// exit status: 0 = behaves as demanded, 1 = not.
#include "clipper2/clipper.h"
#include <iostream>
using namespace Clipper2Lib;

static void show(const char* name, const Paths64& ps) {
  std::cout << name << ": " << ps.size() << " path(s)";
  for (auto& p : ps) { std::cout << "  ["; for (auto& v : p) std::cout << "(" << v.x << "," << v.y << ")"; std::cout << "]"; }
  std::cout << "\n";
}
// does some solution segment contain the point (x,10) with both ends on y=10 ?
static int covers(const Paths64& ps, int64_t x) {
  int n = 0;
  for (auto& p : ps) for (size_t i = 0; i + 1 < p.size(); ++i)
    if (p[i].y == 10 && p[i + 1].y == 10 && std::min(p[i].x, p[i + 1].x) <= x && x <= std::max(p[i].x, p[i + 1].x)) ++n;
  return n;
}
static bool run(const Path64& subj, const char* label) {
  Paths64 clip{MakePath({40,-10, 60,-10, 60,16, 40,16})};
  bool good = true;
  std::cout << "--- subject " << label << "\n";
  {
    Clipper64 c; c.AddOpenSubject({subj}); c.AddClip(clip);
    Paths64 closed, open; c.Execute(ClipType::Intersection, FillRule::NonZero, closed, open);
    show("Intersection got     ", open);
    std::cout << "Intersection demanded: 2 pieces (40,10)-(60,10)\n";
    bool ok = open.size() == 2 && covers(open, 41) == 2 && covers(open, 59) == 2 && covers(open, 39) == 0 && covers(open, 61) == 0;
    std::cout << (ok ? "  ok\n" : "  FAILS\n"); good = good && ok;
  }
  {
    Clipper64 c; c.AddOpenSubject({subj}); c.AddClip(clip);
    Paths64 closed, open; c.Execute(ClipType::Difference, FillRule::NonZero, closed, open);
    show("Difference   got     ", open);
    std::cout << "Difference   demanded: nothing over y=10, 40<x<60; both horizontals kept outside of it\n";
    bool ok = covers(open, 50) == 0 && covers(open, 39) == 2 && covers(open, 61) == 2 && covers(open, 1) == 2 && covers(open, 95) == 1;
    std::cout << (ok ? "  ok\n" : "  FAILS\n"); good = good && ok;
  }
  return good;
}
int main() {
  bool a = run(MakePath({0,40, 100,10, 0,10, 90,10, 95,40}), "(0,40)(100,10)(0,10)(90,10)(95,40)   [doubles back over x=90]");
  bool b = run(MakePath({95,40, 90,10, 0,10, 100,10, 0,40}), "the same polyline reversed            [control: handled]");
  return (a && b) ? 0 : 1;
}
