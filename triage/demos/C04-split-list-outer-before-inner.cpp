// C04 demo: CheckSplitOwner accepts the FIRST ring of a split list that contains the searched ring, although a later
// entry of the same list lies inside that ring and contains the searched ring too: an island that stands in a hole
// becomes a child of the outer polygon (IsHole() true with positive orientation, beside the hole it stands in).
// State before BuildTree64: OutRec 0 (a small top-level block) has splits [14, 16, 15, 17]; 17 = the big outer polygon,
// 15 = its hole (230,90)..(280,190), 16 = a ring without points whose owner is 17; the island 4 = (240,140)..(260,160)
// has the owner chain 4 -> 2 -> 0.  RecursiveCheckOwners(4) reaches CheckSplitOwner(4, or_0->splits): 14 resolves to 0
// (marked: on the chain), 16 resolves through GetRealOutRec to 17, which contains the island -> accepted; 15 is never tested.
// The repair 239d50c only keeps OutRecs ON the owner chain from being accepted early; 17 is not on it.
// Found by gen/splitmerge.py (VERIF_SEED=5); replay /verif/triage/cov/C04-seed5-owner-accepted-inside-split-search.replay.json
// Build: g++ -std=c++17 -O1 -I/repo/CPP/Clipper2Lib/include /verif/triage/demos/C04-split-list-outer-before-inner.cpp \
//          /repo/CPP/Clipper2Lib/src/clipper.engine.cpp -o /tmp/c04-split-list-order
// Only public API is used.  Returns 1 when the property fails.
#include <cstdio>
#include "clipper2/clipper.h"
using namespace Clipper2Lib;

static int bad = 0;

static void Walk(const PolyPath64& n, int depth)
{
  for (size_t i = 0; i < n.Count(); ++i)
  {
    const PolyPath64* c = n[i];
    double a = Area(c->Polygon());
    printf("%*s%s level=%d area=%g :", depth * 2 + 2, "", c->IsHole() ? "hole " : "outer", (int)c->Level(), a);
    for (const Point64& p : c->Polygon()) printf(" (%lld,%lld)", (long long)p.x, (long long)p.y);
    printf("\n");
    // "depth alternates between outer polygons (positive orientation) and holes (negative orientation)"
    if (c->IsHole() != (a < 0))
    {
      printf("%*s  ^^ PROPERTY FAILS: IsHole()=%d but orientation is %s\n", depth * 2 + 2, "", (int)c->IsHole(), a < 0 ? "negative" : "positive");
      ++bad;
    }
    Walk(*c, depth + 1);
  }
}

int main()
{
  // axis-parallel polygons on the multiples of 10; Xor, EvenOdd
  Paths64 subject = {
    MakePath({ 160,80, 170,80, 170,110, 200,110, 200,80, 210,80, 210,120, 160,120 }),
    MakePath({ 0,70, 240,70, 240,80, 0,80 }),
    MakePath({ 10,80, 340,80, 340,190, 280,190, 280,90, 10,90 }),
    MakePath({ 90,90, 100,90, 100,190, 90,190 }),
    MakePath({ 220,90, 230,90, 230,190, 220,190 }),
    MakePath({ 240,140, 260,140, 260,160, 240,160 }),
    MakePath({ 30,190, 360,190, 360,210, 30,210 }) };
  Paths64 clip = { MakePath({ 20,70, 130,70, 130,80, 20,80 }) };
  Clipper64 c;
  c.AddSubject(subject);
  c.AddClip(clip);
  PolyTree64 tree; Paths64 open;
  bool ok = c.Execute(ClipType::Xor, FillRule::EvenOdd, tree, open);
  printf("Xor/EvenOdd: Execute -> %d, tree:\n", (int)ok);
  Walk(tree, 0);
  printf("demanded: the island (240,140)..(260,160) is the child of the hole (230,90)..(280,190) it stands in\n");
  printf("%s\n", bad ? "FAIL" : "PASS");
  return bad ? 1 : 0;
}
