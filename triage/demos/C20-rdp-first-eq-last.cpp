// C20 demo (key rdp.first-eq-last-drops-end): RamerDouglasPeucker on a path whose last vertex equals its first.
// RDP() (clipper.h:721) runs `while (end > begin && path[begin] == path[end]) flags[end--] = false;`: it un-keeps
// the last vertex (and every trailing vertex equal to the first) and never keeps the vertex the shrunk `end`
// stops at.  The result therefore ends somewhere in the middle of the input, and the tail is dropped although it is
// far from any line through surviving vertices.
// Property C20: "... RamerDouglasPeucker return a subsequence of the input vertices in order and keep the end points
// of open paths"; "RamerDouglasPeucker leaves every removed vertex within epsilon of the line through its two
// surviving neighbours".
// Build: g++ -std=c++17 -O1 -I/repo/CPP/Clipper2Lib/include /verif/triage/demos/C20-rdp-first-eq-last.cpp -o /tmp/c20-rdp
// (header-only part of the library; public API only).  Returns 1 when the property fails.
#include <cstdio>
#include <cmath>
#include "clipper2/clipper.h"
using namespace Clipper2Lib;

static void show(const char* name, const Path64& p)
{
  printf("%s:", name);
  for (const Point64& q : p) printf(" (%lld,%lld)", (long long)q.x, (long long)q.y);
  printf("\n");
}

// exact point-line distance test: dist(p, line(a,b)) <= eps   (a != b), in long double (inputs are tiny)
static bool within(const Point64& p, const Point64& a, const Point64& b, double eps)
{
  long double cx = (long double)(b.x - a.x), cy = (long double)(b.y - a.y);
  long double px = (long double)(p.x - a.x), py = (long double)(p.y - a.y);
  if (cx == 0 && cy == 0) return std::sqrt((double)(px * px + py * py)) <= eps;
  long double cr = px * cy - py * cx;
  return cr * cr <= (long double)eps * eps * (cx * cx + cy * cy);
}

static int one(const Path64& in, double eps)
{
  Path64 out = RamerDouglasPeucker(in, eps);
  show("input ", in);
  printf("epsilon %g\n", eps);
  show("output", out);
  int bad = 0;
  // (1) end points kept (as point values)
  if (out.empty() || !(out.front() == in.front()) || !(out.back() == in.back()))
  {
    printf("  FAIL keep-ends: the property demands a result that starts at (%lld,%lld) and ends at (%lld,%lld)\n",
      (long long)in.front().x, (long long)in.front().y, (long long)in.back().x, (long long)in.back().y);
    bad = 1;
  }
  // (2) every removed vertex within eps of the line through its surviving neighbours.  Which copies of a repeated
  //     point survived is not observable, so the embedding most favourable to the library is used: left-most for
  //     all result vertices but the last, right-most for the last one.
  size_t j = 0; std::vector<size_t> keptIdx;
  for (size_t i = 0; i < in.size() && j + 1 < out.size(); ++i) if (in[i] == out[j]) { keptIdx.push_back(i); ++j; }
  if (!out.empty())
    for (size_t i = in.size(); i-- > 0; )
      if ((keptIdx.empty() || i > keptIdx.back()) && in[i] == out.back()) { keptIdx.push_back(i); ++j; break; }
  if (j != out.size()) { printf("  FAIL not a subsequence\n"); bad = 1; }
  for (size_t i = 0; i < in.size(); ++i)
  {
    if (std::find(keptIdx.begin(), keptIdx.end(), i) != keptIdx.end()) continue;
    long prev = -1, next = -1;
    for (size_t k : keptIdx) { if (k < i) prev = (long)k; if (k > i && next < 0) next = (long)k; }
    if (prev < 0 || next < 0)
    {
      printf("  FAIL bound: removed vertex %zu (%lld,%lld) has no surviving neighbour on one side\n", i, (long long)in[i].x, (long long)in[i].y);
      bad = 1;
    }
    else if (!within(in[i], in[prev], in[next], eps))
    {
      printf("  FAIL bound: removed vertex %zu (%lld,%lld) is farther than epsilon from the line through vertices %ld and %ld\n",
        i, (long long)in[i].x, (long long)in[i].y, prev, next);
      bad = 1;
    }
  }
  if (!bad) printf("  ok\n");
  return bad;
}

int main()
{
  int bad = 0;
  // DESIGN section 9 item 5
  bad |= one(Path64{ {0,0}, {10,10}, {20,0}, {30,10}, {40,0}, {0,0} }, 1.0);
  // two trailing copies of the first vertex
  bad |= one(Path64{ {0,0}, {10,10}, {20,0}, {30,10}, {40,0}, {0,0}, {0,0} }, 1.0);
  // control: the same zig-zag not ending at its start is handled correctly
  int ctl = one(Path64{ {0,0}, {10,10}, {20,0}, {30,10}, {40,0}, {50,1} }, 1.0);
  if (ctl) printf("control case failed as well\n");
  printf(bad ? "PROPERTY VIOLATED\n" : "property holds on these inputs\n");
  return (bad || ctl) ? 1 : 0;
}
