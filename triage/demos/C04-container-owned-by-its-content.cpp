// C04 demo: an island stands in a hole of a polygon whose OutRec is recorded as OWNED BY the island's OutRec (the island's
// ring was the first piece of that outline; later horizontal joins split the big polygon and its hole off it).  The search
// through the island's own split list (repair 239d50c) reaches the hole, but CheckSplitOwner's IsValidOwner(outrec, split)
// refuses it because the hole's owner chain leads back to the island: the island is a top-level polygon inside its sibling.
// State before BuildTree64: OutRec 0 = the island (owner none, splits [12]), 12 point-less -> 8 = the outer polygon
// (owner 0, splits [13]), 13 = the hole (owner 8).
// Found by gen/splitmerge.py (VERIF_SEED=5 and 7).
// Build: g++ -std=c++17 -O1 -I/repo/CPP/Clipper2Lib/include /verif/triage/demos/C04-container-owned-by-its-content.cpp \
//          /repo/CPP/Clipper2Lib/src/clipper.engine.cpp -o /tmp/c04-container-owned
// Only public API is used.  Returns 1 when the property fails.
#include <cstdio>
#include "clipper2/clipper.h"
using namespace Clipper2Lib;

static int bad = 0;

static void Walk(const PolyPath64& n, int depth)
{
  for (size_t i = 0; i < n.Count(); ++i)
  {
    const PolyPath64* c = n[i];
    printf("%*s%s level=%d area=%g :", depth * 2 + 2, "", c->IsHole() ? "hole " : "outer", (int)c->Level(), Area(c->Polygon()));
    for (const Point64& p : c->Polygon()) printf(" (%lld,%lld)", (long long)p.x, (long long)p.y);
    printf("\n");
    // "siblings are disjoint": no edge midpoint (doubled coordinates) of a polygon lies strictly inside one of its siblings
    for (size_t j = 0; j < n.Count(); ++j)
      if (j != i)
      {
        Path64 sib2; for (const Point64& q : n[j]->Polygon()) sib2.push_back(Point64(2 * q.x, 2 * q.y));
        const Path64& poly = c->Polygon();
        for (size_t k = 0; k < poly.size(); ++k)
        {
          const Point64& a = poly[k]; const Point64& b = poly[(k + 1) % poly.size()];
          if (PointInPolygon(Point64(a.x + b.x, a.y + b.y), sib2) == PointInPolygonResult::IsInside)
          {
            printf("%*s  ^^ PROPERTY FAILS: the midpoint of edge (%lld,%lld)-(%lld,%lld) lies strictly inside sibling %d\n", depth * 2 + 2, "",
                   (long long)a.x, (long long)a.y, (long long)b.x, (long long)b.y, (int)j);
            ++bad;
            break;
          }
        }
      }
    Walk(*c, depth + 1);
  }
}

int main()
{
  // axis-parallel polygons on the multiples of 4; Union, EvenOdd
  Paths64 subject = {
    MakePath({ 72,-112, 92,-112, 92,-92, 88,-92, 88,-108, 76,-108, 76,-92, 72,-92 }),
    MakePath({ -4,-92, 108,-92, 108,-88, -4,-88 }),
    MakePath({ -8,-100, 28,-100, 28,-144, 36,-144, 36,-100, 92,-100, 92,-144, 96,-144, 96,-92, -8,-92 }),
    MakePath({ 44,-144, 84,-144, 84,-108, 44,-108 }),
    MakePath({ -4,-152, 96,-152, 96,-144, -4,-144 }) };
  Clipper64 c;
  c.AddSubject(subject);
  PolyTree64 tree; Paths64 open;
  bool ok = c.Execute(ClipType::Union, FillRule::EvenOdd, tree, open);
  printf("Union/EvenOdd: Execute -> %d, tree:\n", (int)ok);
  Walk(tree, 0);
  printf("demanded: the block (76,-108)(76,-100)(72,-100)(72,-108) is the child of the 22-vertex hole that surrounds it\n");
  printf("%s\n", bad ? "FAIL" : "PASS");
  return bad ? 1 : 0;
}
