// C10 demo: RamerDouglasPeucker(path, NaN) recurses without bound.
// RDP(): `if (max_d <= epsSqrd) return;` is false for epsSqrd = NaN even when no vertex was selected (max_d = 0, idx = 0);
// then `if (idx < end - 1) RDP(path, idx, end, ...)` calls itself with the same arguments -> stack overflow.
// build: g++ -std=c++17 -O1 -I/repo/CPP/Clipper2Lib/include C10-rdp-nan-epsilon.cpp -o demo        (header-only part of the library)
#include "clipper2/clipper.h"
#include <cmath>
#include <cstdio>
#include <csignal>
#include <sys/wait.h>
#include <unistd.h>
using namespace Clipper2Lib;

template <typename P> static int child(const char* what, const P& path) {
  std::printf("%s: ", what); std::fflush(stdout);
  pid_t p = fork();
  if (p == 0) { alarm(20); P r = RamerDouglasPeucker(path, std::nan("")); std::printf("returned %zu points\n", r.size()); std::fflush(stdout); _exit(0); }
  int st = 0; waitpid(p, &st, 0);
  if (WIFSIGNALED(st)) { std::printf("child killed by signal %d (%s)\n", WTERMSIG(st), WTERMSIG(st) == SIGSEGV ? "SIGSEGV: stack overflow" : "other"); return 1; }
  return WEXITSTATUS(st);
}

int main() {
  int bad = 0;
  bad += child("RamerDouglasPeucker(Path64 {(0,0),(1,0),(2,0),(3,0),(4,0)}, NaN)", MakePath({0,0, 1,0, 2,0, 3,0, 4,0}));
  bad += child("RamerDouglasPeucker(PathD  {(0,0),(1,0),(2,0),(3,0),(4,0)}, NaN)", MakePathD({0,0, 1,0, 2,0, 3,0, 4,0}));
  std::printf("property C10 demands: the call returns for every parameter value.  got: %d of 2 calls failed\n", bad);
  return bad ? 1 : 0;
}
