// C11 demo: ScalePath<int64_t,double> has no range test (ScalePaths has one), so its users accept coordinates
// that leave the integer range after scaling: ScalePath itself, TrimCollinear(PathD), MinkowskiSum/Diff(PathD).
// Property C11: "coordinates that would leave the integer range after scaling ... are reported through an exception
// (or, with exceptions disabled, through the error code together with an empty result); never silently accepted."
//
//   g++ -std=c++17 -O1 -I/repo/CPP/Clipper2Lib/include /verif/triage/demos/C11-scalepath-range.cpp \
//       /repo/CPP/Clipper2Lib/src/clipper.engine.cpp /repo/CPP/Clipper2Lib/src/clipper.offset.cpp \
//       /repo/CPP/Clipper2Lib/src/clipper.rectclip.cpp -o /tmp/c11-scalepath-range && /tmp/c11-scalepath-range
//   (add -fno-exceptions for the no-exception build: the same calls must then set range_error_i and return nothing)
// Exit status: number of calls that silently accepted the oversized coordinate (0 = property holds).
#include <cstdio>
#include <cmath>
#include "clipper2/clipper.h"
using namespace Clipper2Lib;

static int failures = 0;

template <class F> static void expect_reported(const char* what, F f) {
  // f returns (error_code or -1 if the function has no error-code channel, number of points in the result)
  int ec = -1; size_t npts = 0;
#if defined(__cpp_exceptions)
  try { f(ec, npts); }
  catch (const Clipper2Exception& e) { std::printf("ok      %-44s threw \"%s\"\n", what, e.what()); return; }
  std::printf("SILENT  %-44s no exception; error code %d, %zu points returned (demanded: exception)\n", what, ec, npts);
  ++failures;
#else
  f(ec, npts);
  bool code_ok = (ec == -1) || (ec & range_error_i);
  if (code_ok && npts == 0) { std::printf("ok      %-44s error code %d, empty result\n", what, ec); return; }
  std::printf("SILENT  %-44s error code %d, %zu points returned (demanded: range_error_i and an empty result)\n", what, ec, npts);
  ++failures;
#endif
}

static PathD P(std::initializer_list<double> v) {
  PathD r; for (auto i = v.begin(); i != v.end(); i += 2) r.push_back(PointD(*i, *(i + 1))); return r; }
static size_t count(const PathsD& ps) { size_t n = 0; for (auto& p : ps) n += p.size(); return n; }

int main() {
  const double just_over = std::ldexp(1.0, 61) + 4096.0;   // MAX_COORD = 2^61 - 1
  PathD big  = P({ 0, 0, just_over, 0, 10, 10, 0, 10 });
  PathD huge = P({ 0, 0, 1e300, 0, 10, 10, 0, 10 });  // not even an int64: the conversion is undefined behaviour
  PathD tri  = P({ 0, 0, 1, 0, 0, 1 });

  expect_reported("ScalePath<int64_t,double>(2^61+4096, scale 1)", [&](int& ec, size_t& n) {
    ec = 0; n = ScalePath<int64_t, double>(big, 1.0, ec).size(); });
  expect_reported("ScalePath<int64_t,double>(1e300, scale 100)", [&](int& ec, size_t& n) {
    ec = 0; n = ScalePath<int64_t, double>(huge, 100.0, ec).size(); });
  expect_reported("ScalePaths<int64_t,double>(2^61+4096) [control]", [&](int& ec, size_t& n) {
    ec = 0; Paths64 r = ScalePaths<int64_t, double>(PathsD{ big }, 1.0, ec); n = 0; for (auto& p : r) n += p.size(); });
  expect_reported("TrimCollinear(PathD 2^61+4096, precision 0)", [&](int&, size_t& n) { n = TrimCollinear(big, 0).size(); });
  expect_reported("TrimCollinear(PathD 1e300, precision 2)", [&](int&, size_t& n) { n = TrimCollinear(huge, 2).size(); });
  expect_reported("MinkowskiSum(PathD tri, 2^61+4096, prec 0)", [&](int&, size_t& n) { n = count(MinkowskiSum(tri, big, true, 0)); });
  expect_reported("MinkowskiDiff(PathD tri, 1e300, prec 2)", [&](int&, size_t& n) { n = count(MinkowskiDiff(tri, huge, true, 2)); });
#if !defined(__cpp_exceptions)
  // zero scale first (non-fatal, scale becomes 1), then the oversized coordinate passes ScalePaths' test as 0 and
  // is converted without any test
  expect_reported("ScalePaths<int64_t,double>(2^61+4096, scale 0)", [&](int& ec, size_t& n) {
    ec = 0; Paths64 r = ScalePaths<int64_t, double>(PathsD{ big }, 0.0, ec); n = 0; for (auto& p : r) n += p.size(); });
#endif
  std::printf("%d silent acceptance(s)\n", failures);
  return failures;
}
