// C08 demo: the intersection of a polygon edge with the rectangle side x = 10 is returned as (9,-16): GetSegmentIntersectPt
// truncates x1 + t*dx1 = 9.99999.. to 9.  The output polygon therefore misses a sliver of the true intersection that is up to one
// unit wide and runs along the side for 20 units: the point (9.5,-9.5) is strictly inside the rectangle, inside the input
// triangle, more than 6 units away from the triangle's boundary -- and not covered by RectClip's result.
// Property C08: "... whose winding number at every point strictly inside the rectangle equals the input polygon's winding number
// there for simple polygons ... every point farther than 2 units from the path".
//
// g++ -std=c++17 -O1 -ffp-contract=off -I/repo/CPP/Clipper2Lib/include C08-ip-off-side.cpp \
//     /repo/CPP/Clipper2Lib/src/clipper.engine.cpp /repo/CPP/Clipper2Lib/src/clipper.offset.cpp \
//     /repo/CPP/Clipper2Lib/src/clipper.rectclip.cpp -o C08-ip-off-side && ./C08-ip-off-side
#include "clipper2/clipper.h"
#include <cmath>
#include <cstdio>
using namespace Clipper2Lib;

static Path64 times2(const Path64& p) { Path64 r; for (const Point64& v : p) r.emplace_back(2 * v.x, 2 * v.y); return r; }

static double dist_to_segment(double px, double py, const Point64& a, const Point64& b) {
  const double dx = double(b.x - a.x), dy = double(b.y - a.y);
  double t = ((px - a.x) * dx + (py - a.y) * dy) / (dx * dx + dy * dy);
  t = t < 0 ? 0 : (t > 1 ? 1 : t);
  return std::hypot(px - (a.x + t * dx), py - (a.y + t * dy));
}

int main() {
  const Rect64 rect(-20, -26, 10, 4);
  const Path64 tri = MakePath({98, -27, 11, 5, -69, -7});            // a simple polygon
  const Paths64 out = RectClip(rect, Paths64{tri});
  std::printf("RectClip returned:");
  for (const Path64& p : out) { std::printf(" ["); for (const Point64& v : p) std::printf(" (%lld,%lld)", (long long)v.x, (long long)v.y); std::printf(" ]"); }
  std::printf("\n");

  // the sample point (9.5, -9.5), in doubled coordinates (19, -19)
  const Point64 q2(19, -19);
  const double qx = 9.5, qy = -9.5;
  double dmin = 1e300;
  for (size_t i = 0; i < tri.size(); ++i) dmin = std::fmin(dmin, dist_to_segment(qx, qy, tri[i], tri[(i + 1) % tri.size()]));
  const bool strictly_inside_rect = qx > rect.left && qx < rect.right && qy > rect.top && qy < rect.bottom;
  const bool in_input = PointInPolygon(q2, times2(tri)) == PointInPolygonResult::IsInside;
  int covered = 0;
  for (const Path64& p : out) if (PointInPolygon(q2, times2(p)) == PointInPolygonResult::IsInside) ++covered;
  std::printf("point (9.5,-9.5): strictly inside the rectangle: %d, inside the input triangle: %d, distance to the triangle's boundary: %.3f\n",
              strictly_inside_rect, in_input, dmin);
  std::printf("output paths covering it: %d   (property C08 demands 1: the winding numbers must agree at this point)\n", covered);
  bool off_side = false;
  for (const Path64& p : out) for (const Point64& v : p) if (v.x == 9 && v.y == -16) off_side = true;
  std::printf("output contains the intersection with the side x = 10 as (9,-16): %d\n", off_side);
  if (strictly_inside_rect && dmin > 2.0 && in_input && covered != 1) { std::printf("FAIL\n"); return 1; }
  std::printf("OK\n");
  return 0;
}
