// C04 demo: an island that lies inside a hole is put at the top level of the PolyTree64
// (a sibling of the outer polygon that surrounds it) instead of being a child of the hole.
// Build: g++ -std=c++17 -O1 -I/repo/CPP/Clipper2Lib/include /verif/triage/demos/C04-island-in-hole.cpp \
//          /repo/CPP/Clipper2Lib/src/clipper.engine.cpp -o /tmp/c04-island
// Only public API is used.  Returns 1 when the property fails.
#include <cstdio>
#include "clipper2/clipper.h"
using namespace Clipper2Lib;

static int bad = 0;

static void Walk(const PolyPath64& n, int depth)
{
  for (size_t i = 0; i < n.Count(); ++i)
  {
    const PolyPath64* c = n[i];
    printf("%*s%s level=%d area=%g :", depth * 2, "", c->IsHole() ? "hole " : "outer", (int)c->Level(), Area(c->Polygon()));
    for (const Point64& p : c->Polygon()) printf(" (%lld,%lld)", (long long)p.x, (long long)p.y);
    printf("\n");
    // property: "every polygon in the tree lies ... outside its siblings"
    for (size_t j = 0; j < n.Count(); ++j)
    {
      if (j == i) continue;
      const Path64& sib = n[j]->Polygon();
      int in = 0, out = 0;
      for (const Point64& p : c->Polygon())
      {
        PointInPolygonResult r = PointInPolygon(p, sib);
        if (r == PointInPolygonResult::IsInside) ++in;
        else if (r == PointInPolygonResult::IsOutside) ++out;
      }
      if (in > 0)
      {
        printf("%*s  ^^ PROPERTY FAILS: %d of its vertices are strictly inside its sibling #%d (and %d outside)\n",
               depth * 2, "", in, (int)j, out);
        ++bad;
      }
    }
    Walk(*c, depth + 1);
  }
}

int main()
{
  // rectilinear, all coordinates even (every two distinct x / y values are >= 2 apart)
  Paths64 subject = { MakePath({ -20,74, -20,62, 0,62, 0,74 }) };              // rectangle
  Paths64 clip = {
    MakePath({ -10,60, -10,58, 0,58, 0,62, -2,62, -2,60, -8,60, -8,62, -10,62 }), // U below the rectangle, arms touch its bottom edge
    MakePath({ -2,70, -8,70, -8,62, -6,62, -6,68, -4,68, -4,62, -2,62 }) };       // inverted U inside the rectangle, arms on its bottom edge
  Clipper64 c;
  c.AddSubject(subject);
  c.AddClip(clip);
  PolyTree64 tree; Paths64 open;
  bool ok = c.Execute(ClipType::Xor, FillRule::NonZero, tree, open);
  printf("Execute -> %d, tree:\n", (int)ok);
  Walk(tree, 0);
  printf("demanded: the island (-6,62)(-6,68)(-4,68)(-4,62) lies inside the hole (-8..-2 x 60..70) of the outer polygon,\n"
         "          so it must be a child of that hole (level 3), not a top-level sibling of the polygon that surrounds it\n");
  printf("%s\n", bad ? "FAIL" : "PASS");
  return bad ? 1 : 0;
}
