// C11 demo for the build WITHOUT C++ exceptions (compile with -fno-exceptions; with exceptions every call below throws
// and the program reports that instead).
// Property C11: "... are reported through an exception (or, with exceptions disabled, through the error code together
// with an empty result) ... they are never silently accepted."
// In a -fno-exceptions build DoError() does nothing; the "non-fatal" errors then repair the argument and carry on.
//
//   g++ -std=c++17 -O1 -fno-exceptions -I/repo/CPP/Clipper2Lib/include /verif/triage/demos/C11-noexc.cpp \
//       /repo/CPP/Clipper2Lib/src/clipper.engine.cpp /repo/CPP/Clipper2Lib/src/clipper.offset.cpp \
//       /repo/CPP/Clipper2Lib/src/clipper.rectclip.cpp -o /tmp/c11-noexc && /tmp/c11-noexc
// Exit status: number of calls whose invalid argument was not answered by (error code, if the entry has one) + empty result.
#include <cstdio>
#include <cmath>
#include <vector>
#include "clipper2/clipper.h"
using namespace Clipper2Lib;

static PathD P(std::initializer_list<double> v) {
  PathD r; for (auto i = v.begin(); i != v.end(); i += 2) r.push_back(PointD(*i, *(i + 1))); return r; }
static size_t count(const PathsD& ps) { size_t n = 0; for (auto& p : ps) n += p.size(); return n; }

static int failures = 0;
// f sets ec (-1: the entry point has no error code) and the number of result points
template <class F> static void expect_reported(const char* key, const char* what, int bit, F f) {
  int ec = -1; size_t npts = 0;
#if defined(__cpp_exceptions)
  try { f(ec, npts); }
  catch (const Clipper2Exception& e) { std::printf("ok      %-42s %-46s threw \"%s\"\n", key, what, e.what()); return; }
  std::printf("SILENT  %-42s %-46s no exception (error code %d, %zu points)\n", key, what, ec, npts); ++failures;
#else
  f(ec, npts);
  bool code_ok = (ec == -1) || (ec & bit);
  if (code_ok && npts == 0) { std::printf("ok      %-42s %-46s error code %d, empty result\n", key, what, ec); return; }
  std::printf("SILENT  %-42s %-46s error code %d (demanded bit %d%s), %zu points returned (demanded: none)\n",
              key, what, ec, bit, ec == -1 ? ", no channel" : "", npts);
  ++failures;
#endif
}

int main() {
  PathD sq = P({ 0, 0, 10, 0, 10, 10, 0, 10 }), cl = P({ 5, 5, 15, 5, 15, 15, 5, 15 });
  PathD huge = P({ 0, 0, 1e300, 0, 10, 10, 0, 10 });

  expect_reported("makepath.odd-count-silent-noexc", "MakePath(vector{1,4,7})", non_pair_error_i, [&](int&, size_t& n) {
    n = MakePath(std::vector<int64_t>{ 1, 4, 7 }).size(); });
  expect_reported("makepath.odd-count-silent-noexc", "MakePathD(vector{1,4,7})", non_pair_error_i, [&](int&, size_t& n) {
    n = MakePathD(std::vector<double>{ 1, 4, 7 }).size(); });
  expect_reported("scalepath.zero-scale-nonempty-noexc", "ScalePath<int64_t,double>(sq, 0, 0, ec)", scale_error_i, [&](int& ec, size_t& n) {
    ec = 0; n = ScalePath<int64_t, double>(sq, 0.0, 0.0, ec).size(); });
  expect_reported("scalepath.zero-scale-nonempty-noexc", "ScalePaths<double,int64_t>({{1,2},{3,4}}, 0, ec)", scale_error_i, [&](int& ec, size_t& n) {
    ec = 0; PathsD r = ScalePaths<double, int64_t>(Paths64{ Path64{ Point64(1, 2), Point64(3, 4) } }, 0.0, ec); n = count(r); });
  expect_reported("polypathD.zero-scale-silent-noexc", "PolyTreeD t; t.SetScale(0); t.AddChild(Path64)", scale_error_i, [&](int&, size_t& n) {
    PolyTreeD t; t.SetScale(0); n = t.AddChild(Path64{ Point64(1, 2), Point64(3, 4), Point64(-5, 6) })->Polygon().size(); });
  expect_reported("clipperD.precision-nonempty-noexc", "ClipperD c(12); AddSubject(sq); Union", precision_error_i, [&](int& ec, size_t& n) {
    ClipperD c(12); c.AddSubject(PathsD{ sq }); PathsD r; c.Execute(ClipType::Union, FillRule::NonZero, r); ec = c.ErrorCode(); n = count(r); });
  expect_reported("clipperD.range-nonempty-noexc", "ClipperD c(2); AddSubject(1e300); AddClip(cl); Union", range_error_i, [&](int& ec, size_t& n) {
    ClipperD c(2); c.AddSubject(PathsD{ huge }); c.AddClip(PathsD{ cl }); PathsD r; c.Execute(ClipType::Union, FillRule::NonZero, r);
    ec = c.ErrorCode(); n = count(r); });
  expect_reported("booleanopD.range-nonempty-noexc", "Union(PathsD{1e300 square}, PathsD{cl}, NonZero, 2)", range_error_i, [&](int&, size_t& n) {
    n = count(Union(PathsD{ huge }, PathsD{ cl }, FillRule::NonZero, 2)); });
  expect_reported("booleanopD.range-nonempty-noexc", "Union(PathsD{sq, 1e300 square}, NonZero, 2)", range_error_i, [&](int&, size_t& n) {
    n = count(Union(PathsD{ sq, huge }, FillRule::NonZero, 2)); });
  expect_reported("booleanopD.range-nonempty-noexc", "BooleanOp(Xor, .., {1e300 sq}, {cl}, PolyTreeD, 2)", range_error_i, [&](int&, size_t& n) {
    PolyTreeD t; BooleanOp(ClipType::Xor, FillRule::NonZero, PathsD{ huge }, PathsD{ cl }, t, 2); n = t.Count(); });
  expect_reported("inflateD.delta0-before-errorcode", "InflatePaths(PathsD{sq}, 0, Round, Polygon, 2, 12)", precision_error_i, [&](int&, size_t& n) {
    n = count(InflatePaths(PathsD{ sq }, 0.0, JoinType::Round, EndType::Polygon, 2.0, 12)); });
  expect_reported("(control)", "InflatePaths(PathsD{sq}, 1, Round, Polygon, 2, 12)", precision_error_i, [&](int&, size_t& n) {
    n = count(InflatePaths(PathsD{ sq }, 1.0, JoinType::Round, EndType::Polygon, 2.0, 12)); });
  expect_reported("(control)", "Union(PathsD{sq}, PathsD{cl}, NonZero, 12)", precision_error_i, [&](int&, size_t& n) {
    n = count(Union(PathsD{ sq }, PathsD{ cl }, FillRule::NonZero, 12)); });
  std::printf("%d silent acceptance(s)\n", failures);
  return failures;
}
