// C03 demo: "feeding the solution back through Union returns the same set of paths" fails for an axis-parallel input
// whose result consists of two regions that touch in exactly one vertex.
// Difference of a 7000x10000 rectangle and two rectangles that touch each other in the point (1000,7000) and the
// subject's left / right side: the remaining upper and lower region meet only in (1000,7000).  Difference returns ONE
// path that visits (1000,7000) twice; Union (any fill rule) of that path returns TWO paths (same edges, split at the
// repeated vertex).
//
// build: g++ -std=c++17 -O1 -I/repo/CPP/Clipper2Lib/include -I/repo/CPP/Clipper2Lib/src \
//            /verif/triage/demos/C03-union-touching.cpp -o /tmp/c03-union-touching
// exit status 1 = property violated, 0 = holds.
#include "clipper2/clipper.h"
#include "clipper.engine.cpp"
#include "clipper.offset.cpp"
#include "clipper.rectclip.cpp"
#include <algorithm>
#include <cstdio>
using namespace Clipper2Lib;

static Path64 canon(Path64 p) {          // rotate so that the least vertex (and least continuation) comes first
  Path64 best;
  for (size_t k = 0; k < p.size(); ++k) {
    Path64 r(p.begin() + k, p.end()); r.insert(r.end(), p.begin(), p.begin() + k);
    auto lt = [](const Path64& a, const Path64& b) {
      return std::lexicographical_compare(a.begin(), a.end(), b.begin(), b.end(),
        [](const Point64& u, const Point64& v) { return u.x != v.x ? u.x < v.x : u.y < v.y; }); };
    if (best.empty() || lt(r, best)) best = r;
  }
  return best;
}
static std::vector<Path64> canon(const Paths64& ps) {
  std::vector<Path64> r; for (auto& p : ps) r.push_back(canon(p));
  std::sort(r.begin(), r.end(), [](const Path64& a, const Path64& b) {
    return std::lexicographical_compare(a.begin(), a.end(), b.begin(), b.end(),
      [](const Point64& u, const Point64& v) { return u.x != v.x ? u.x < v.x : u.y < v.y; }); });
  return r;
}
static void show(const char* t, const Paths64& ps) {
  printf("%s: %zu path(s)\n", t, ps.size());
  for (auto& p : ps) { printf("   "); for (auto& v : p) printf("(%lld,%lld) ", (long long)v.x, (long long)v.y); printf("\n"); }
}

int main() {
  Paths64 subj = { MakePath({0,10000, 0,0, 7000,0, 7000,10000}) };
  Paths64 clip = { MakePath({1000,8000, 0,8000, 0,7000, 1000,7000}), MakePath({1000,7000, 1000,6000, 7000,6000, 7000,7000}) };
  int bad = 0;
  for (int rs = 0; rs < 2; ++rs) {
    Clipper64 c; c.ReverseSolution(rs); c.AddSubject(subj); c.AddClip(clip);
    Paths64 sol; c.Execute(ClipType::Difference, FillRule::NonZero, sol);
    printf("ReverseSolution=%d\n", rs); show(" Difference/NonZero", sol);
    for (FillRule fr : { FillRule::EvenOdd, FillRule::NonZero }) {
      Clipper64 u; u.ReverseSolution(rs); u.AddSubject(sol);
      Paths64 again; u.Execute(ClipType::Union, fr, again);
      show(fr == FillRule::EvenOdd ? " Union/EvenOdd of that solution" : " Union/NonZero of that solution", again);
      bool same = canon(again) == canon(sol);
      printf("   same set of paths: %s (property C03 demands yes)\n", same ? "yes" : "NO");
      if (!same) ++bad;
    }
  }
  return bad ? 1 : 0;
}
