// C12 demo (key offset.delta-callback.stale-normals-single-point).
// A DeltaCallback64 is handed (path, path_normals, curr_idx, prev_idx).  This one returns 10 + 0.5 * path_normals.size(),
// i.e. it only looks at what it is shown.  For a single-point path DoGroupOffset calls it with the member `norms` as the
// previous path -- or the previous Execute -- left it (BuildNormals is not called for single points, and norms is only
// cleared by Clear()): the same object gives another result the second time Execute is called, and a point is offset
// differently after a distant triangle than alone.  C12: "executing repeatedly ... never change[s] an outcome", "paths too
// far apart to interact are offset exactly as they would be alone".
// Build: g++ -std=c++17 -O1 -I$REPO/CPP/Clipper2Lib/include offset-callback-stale-normals.cpp $REPO/CPP/Clipper2Lib/src/clipper.engine.cpp \
//        $REPO/CPP/Clipper2Lib/src/clipper.offset.cpp $REPO/CPP/Clipper2Lib/src/clipper.rectclip.cpp -o /tmp/offset-callback-stale-normals
// Public API only.  Returns 1 when the property fails.
#include <cstdio>
#include <cmath>
#include <vector>
#include "clipper2/clipper.h"
using namespace Clipper2Lib;

static std::vector<size_t> shown;   // path_normals.size() at each call for a single-point path
static double cb(const Path64& path, const PathD& norms, size_t, size_t)
{
  if (path.size() == 1) shown.push_back(norms.size());
  return 10.0 + 0.5 * (double)norms.size();
}
static bool near_point(const Path64& p) { return !p.empty() && std::llabs(p[0].x - 5000) < 100; }
static Path64 pick(const Paths64& ps) { for (auto& p : ps) if (near_point(p)) return p; return Path64(); }

int main()
{
  const Path64 tri = { {0, 0}, {100, 0}, {50, 80} }, point = { {5000, 5000} };
  int bad = 0;
  { // 1. executing twice
    ClipperOffset co; co.AddPaths({ point, tri }, JoinType::Miter, EndType::Polygon);
    Paths64 s1, s2; shown.clear();
    co.Execute(cb, s1); co.Execute(cb, s2);
    printf("Execute twice on one object: normals shown for the point: 1st call %zu, 2nd call %zu; square side %lld vs %lld: %s\n",
           shown[0], shown[1], (long long)GetBounds(pick(s1)).Width(), (long long)GetBounds(pick(s2)).Width(), s1 == s2 ? "equal" : "DIFFERENT");
    if (s1 != s2) bad = 1;
  }
  { // 2. alone vs after a distant path
    Paths64 a, t; shown.clear();
    { ClipperOffset co; co.AddPaths({ point }, JoinType::Miter, EndType::Polygon); co.Execute(cb, a); }
    { ClipperOffset co; co.AddPaths({ tri, point }, JoinType::Miter, EndType::Polygon); co.Execute(cb, t); }
    printf("point alone / after a triangle: normals shown %zu / %zu; square side %lld vs %lld: %s\n",
           shown[0], shown[1], (long long)GetBounds(pick(a)).Width(), (long long)GetBounds(pick(t)).Width(), pick(a) == pick(t) ? "equal" : "DIFFERENT");
    if (pick(a) != pick(t)) bad = 1;
  }
  printf("property demands equal results in both experiments: %s\n", bad ? "FAILS" : "holds");
  return bad;
}
