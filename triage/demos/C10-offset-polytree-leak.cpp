// C10 demo: ClipperOffset::Execute(double, PolyTree64&) leaks its `new Paths64` when ExecuteInternal throws.
// An exception inside ExecuteInternal: a single-point path with a round join and delta = NaN makes Ellipse() call
// vector::reserve with a huge step count -> std::length_error (any other exception, e.g. std::bad_alloc, does the same).
// The global operator new/delete are replaced to count live allocations.
// build: g++ -std=c++17 -O1 -I/repo/CPP/Clipper2Lib/include C10-offset-polytree-leak.cpp /repo/CPP/Clipper2Lib/src/clipper.engine.cpp \
//            /repo/CPP/Clipper2Lib/src/clipper.offset.cpp /repo/CPP/Clipper2Lib/src/clipper.rectclip.cpp -o demo
#include "clipper2/clipper.h"
#include <cmath>
#include <cstdio>
#include <cstdlib>
#include <new>
static long g_live = 0;
void* operator new(std::size_t n) { void* p = std::malloc(n ? n : 1); if (!p) throw std::bad_alloc(); ++g_live; return p; }
void* operator new[](std::size_t n) { void* p = std::malloc(n ? n : 1); if (!p) throw std::bad_alloc(); ++g_live; return p; }
void operator delete(void* p) noexcept { if (p) { --g_live; std::free(p); } }
void operator delete[](void* p) noexcept { if (p) { --g_live; std::free(p); } }
void operator delete(void* p, std::size_t) noexcept { if (p) { --g_live; std::free(p); } }
void operator delete[](void* p, std::size_t) noexcept { if (p) { --g_live; std::free(p); } }
using namespace Clipper2Lib;

static long run(bool tree) {
  long before = g_live;
  bool threw = false;
  {
    ClipperOffset co;
    co.AddPath(MakePath({5, 5}), JoinType::Round, EndType::Polygon);
    try {
      if (tree) { PolyTree64 t; co.Execute(std::nan(""), t); } else { Paths64 s; co.Execute(std::nan(""), s); }
    } catch (const std::exception& e) { threw = true; std::printf("  exception at the caller: %s\n", e.what()); }
  }   // every object involved is destroyed here
  std::printf("  %s, live allocations before %ld, after %ld\n", threw ? "threw" : "returned", before, g_live);
  return g_live - before;
}

int main() {
  std::printf("Execute(NaN, Paths64&):\n"); long a = run(false);
  std::printf("Execute(NaN, PolyTree64&):\n"); long b = run(true);
  std::printf("property C10 demands: no leak.  got: %ld / %ld allocations never released\n", a, b);
  return (a || b) ? 1 : 0;
}
