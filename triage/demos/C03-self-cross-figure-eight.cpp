// C03 demo: "no two solution edges properly cross" fails for an axis-parallel input (all coordinates even).
// Union/EvenOdd, PreserveCollinear off: the solution contains the ring (2,4)(2,0)(4,0)(4,6)(6,6)(6,4), a figure of
// eight whose edges (4,0)-(4,6) and (6,4)-(2,4) cross in (4,4): the outer rectangle 2..4 x 0..4 is linked with the
// clockwise loop 4..6 x 4..6 (a notch of the other solution path) in their common corner (4,4).  With PreserveCollinear
// on, the same ring keeps the vertex (4,4) and only touches itself there; CleanCollinear removes that collinear vertex
// and FixSelfIntersects (which looks at edge pairs two apart only) does not see the crossing it creates.
// (input found by the C04 triage with gen/nesting.py gen_lattice_case)
//
// build: g++ -std=c++17 -O1 -I/repo/CPP/Clipper2Lib/include -I/repo/CPP/Clipper2Lib/src \
//            /verif/triage/demos/C03-self-cross-figure-eight.cpp -o /tmp/c03-figure-eight
// exit status 1 = property violated, 0 = holds.
#include "clipper2/clipper.h"
#include "clipper.engine.cpp"
#include "clipper.offset.cpp"
#include "clipper.rectclip.cpp"
#include <cstdio>
using namespace Clipper2Lib;
typedef __int128 i128;

static int sgn(i128 v) { return (v > 0) - (v < 0); }
static i128 cross(const Point64& a, const Point64& b, const Point64& c) {
  return (i128)(b.x - a.x) * (c.y - b.y) - (i128)(b.y - a.y) * (c.x - b.x);
}
static bool proper(const Point64& a, const Point64& b, const Point64& c, const Point64& d) {
  return sgn(cross(a, b, c)) * sgn(cross(a, b, d)) < 0 && sgn(cross(c, d, a)) * sgn(cross(c, d, b)) < 0;
}

int main() {
  Paths64 subj = { MakePath({2,4, 4,4, 4,0, 2,0}), MakePath({0,8, 8,8, 8,4, 0,4}), MakePath({4,4, 8,4, 8,10, 4,10}), MakePath({4,6, 6,6, 6,10, 4,10}) };
  Paths64 clip = { MakePath({0,4, 8,4, 8,8, 0,8}), MakePath({2,4, 6,4, 6,10, 2,10}) };
  int bad = 0;
  for (int pc = 0; pc < 2; ++pc) {
    Clipper64 c; c.PreserveCollinear(pc); c.AddSubject(subj); c.AddClip(clip);
    Paths64 sol; c.Execute(ClipType::Union, FillRule::EvenOdd, sol);
    printf("PreserveCollinear=%d: %zu path(s)\n", pc, sol.size());
    struct E { size_t path; Point64 a, b; };
    std::vector<E> es;
    for (size_t i = 0; i < sol.size(); ++i) {
      printf("   "); for (auto& v : sol[i]) printf("(%lld,%lld) ", (long long)v.x, (long long)v.y); printf("\n");
      for (size_t k = 0; k < sol[i].size(); ++k) es.push_back({ i, sol[i][k], sol[i][(k + 1) % sol[i].size()] });
    }
    for (size_t x = 0; x < es.size(); ++x)
      for (size_t y = x + 1; y < es.size(); ++y)
        if (proper(es[x].a, es[x].b, es[y].a, es[y].b)) {
          printf("   edges (%lld,%lld)-(%lld,%lld) of path %zu and (%lld,%lld)-(%lld,%lld) of path %zu properly cross (property C03 demands none)\n",
                 (long long)es[x].a.x, (long long)es[x].a.y, (long long)es[x].b.x, (long long)es[x].b.y, es[x].path,
                 (long long)es[y].a.x, (long long)es[y].a.y, (long long)es[y].b.x, (long long)es[y].b.y, es[y].path);
          ++bad;
        }
  }
  return bad ? 1 : 0;
}
