// C20 demo (key trim.open-2pt-zero-length-emptied): TrimCollinear(path, is_open_path = true) of the two-point path
// [(0,0),(0,0)] returns the empty path (`if (!is_open_path || len < 2 || p[0] == p[1]) return Path64();`,
// clipper.h:500), while three (or more) equal points are reduced to [(0,0),(0,0)] -- so the function is not even
// idempotent on open paths: Trim(Trim([a,a,a])) = [] != Trim([a,a,a]).
// Property C20: "TrimCollinear ... return a subsequence of the input vertices in order and keep the end points of open
// paths", quantifier "all paths (empty, 1-4 points, all-collinear, with repeated points, ...)".
// Build: g++ -std=c++17 -O1 -I/repo/CPP/Clipper2Lib/include /verif/triage/demos/C20-trim-open-2pt.cpp -o /tmp/c20-trim
// Returns 1 when the property fails.
#include <cstdio>
#include "clipper2/clipper.h"
using namespace Clipper2Lib;

static void show(const char* name, const Path64& p)
{
  printf("%s:", name);
  for (const Point64& q : p) printf(" (%lld,%lld)", (long long)q.x, (long long)q.y);
  printf("\n");
}

static int one(const Path64& in)
{
  Path64 out = TrimCollinear(in, true);
  show("input (open)", in);
  show("output      ", out);
  if (out.empty() || !(out.front() == in.front()) || !(out.back() == in.back()))
  {
    printf("  FAIL keep-ends: the property demands a result that starts at (%lld,%lld) and ends at (%lld,%lld)\n",
      (long long)in.front().x, (long long)in.front().y, (long long)in.back().x, (long long)in.back().y);
    return 1;
  }
  printf("  ok\n");
  return 0;
}

int main()
{
  int bad = 0;
  bad |= one(Path64{ {0,0}, {0,0} });
  bad |= one(Path64{ {7,-3}, {7,-3} });
  int ctl = 0;
  ctl |= one(Path64{ {0,0}, {1,0} });                 // control: distinct points are kept
  ctl |= one(Path64{ {0,0}, {0,0}, {0,0} });          // control: three equal points keep both ends ([a,a])
  Path64 twice = TrimCollinear(TrimCollinear(Path64{ {0,0}, {0,0}, {0,0} }, true), true);
  show("TrimCollinear applied twice to [(0,0),(0,0),(0,0)]", twice);
  if (ctl) printf("control case failed as well\n");
  printf(bad ? "PROPERTY VIOLATED\n" : "property holds on these inputs\n");
  return (bad || ctl) ? 1 : 0;
}
