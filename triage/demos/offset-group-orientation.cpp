// C12 demo (key offset.group-orientation.first-polygon-group-decides) -- known finding, not repaired.
// Two EndType::Polygon groups 10000 units apart in one ClipperOffset: a counter-clockwise triangle and a clockwise
// L-shape.  Each alone is inflated by 10 and keeps its orientation.  Together, CheckReverseOrientation takes the
// fill rule of the clean-up union and the output orientation from the FIRST Polygon group only ("nb: this assumes there's
// consistency in orientation between groups"), so the group of the other orientation vanishes -- and which one vanishes
// depends on the order in which the groups were added.  C12: "paths and groups too far apart to interact are offset exactly
// as they would be alone, whatever was added before them and in whatever order".  The same mechanism removes open-path
// groups when the first Polygon group is clockwise.
// Build: g++ -std=c++17 -O1 -I$REPO/CPP/Clipper2Lib/include offset-group-orientation.cpp $REPO/CPP/Clipper2Lib/src/clipper.engine.cpp \
//        $REPO/CPP/Clipper2Lib/src/clipper.offset.cpp $REPO/CPP/Clipper2Lib/src/clipper.rectclip.cpp -o /tmp/offset-group-orientation
// Public API only.  Returns 1 when the property fails.
#include <cstdio>
#include "clipper2/clipper.h"
using namespace Clipper2Lib;

static void show(const char* n, const Paths64& ps)
{ printf("%-44s %zu path(s), area %.0f\n", n, ps.size(), Area(ps)); }

int main()
{
  const Path64 ccw = { {0, 0}, {100, 0}, {50, 80} };
  const Path64 cw = { {10000, 7100}, {10040, 7100}, {10040, 7040}, {10100, 7040}, {10100, 7000}, {10000, 7000} };
  const Path64 open = { {20000, 0}, {20100, 0}, {20100, 100} };
  Paths64 a1, a2, a3, t12, t21, t23;
  { ClipperOffset co; co.AddPaths({ ccw }, JoinType::Miter, EndType::Polygon); co.Execute(10.0, a1); }
  { ClipperOffset co; co.AddPaths({ cw }, JoinType::Miter, EndType::Polygon); co.Execute(10.0, a2); }
  { ClipperOffset co; co.AddPaths({ open }, JoinType::Miter, EndType::Butt); co.Execute(10.0, a3); }
  { ClipperOffset co; co.AddPaths({ ccw }, JoinType::Miter, EndType::Polygon); co.AddPaths({ cw }, JoinType::Miter, EndType::Polygon); co.Execute(10.0, t12); }
  { ClipperOffset co; co.AddPaths({ cw }, JoinType::Miter, EndType::Polygon); co.AddPaths({ ccw }, JoinType::Miter, EndType::Polygon); co.Execute(10.0, t21); }
  { ClipperOffset co; co.AddPaths({ cw }, JoinType::Miter, EndType::Polygon); co.AddPaths({ open }, JoinType::Miter, EndType::Butt); co.Execute(10.0, t23); }
  show("counter-clockwise triangle alone:", a1); show("clockwise L alone:", a2); show("open path (Butt) alone:", a3);
  show("groups [triangle, L] together:", t12); show("groups [L, triangle] together:", t21); show("groups [L, open path] together:", t23);
  bool ok = t12.size() == 2 && t21.size() == 2 && t23.size() == 2;
  printf("property demands every group's result to be present in the joint result: %s\n", ok ? "holds" : "FAILS");
  return ok ? 0 : 1;
}
