#!/usr/bin/env python3
"""Triage helper for C04 (not used by any registered command): runs the check's own generators for many seeds, ALL 16
clip type x fill rule combinations and all four PreserveCollinear/ReverseSolution settings, and lists every failing
evaluation with the clauses that fail.  usage: VERIF_REPO=... python3 triage/c04_survey.py seed_from seed_to [nrect ngp]"""
import sys, os, json, collections
sys.path.insert(0, '/verif/lib'); sys.path.insert(0, '/verif')
import vf
from checks import C04


def lattice_case(rng):
    """random rectangles on a small lattice of spacing 2: many coincident / touching edges and vertices"""
    import polys
    n = rng.range(4, 9)
    def rr():
        x0 = rng.below(n - 1); x1 = rng.range(x0 + 1, n); y0 = rng.below(n - 1); y1 = rng.range(y0 + 1, n)
        r = polys.rect(2 * x0, 2 * y0, 2 * x1, 2 * y1)
        return r if rng.chance(3, 4) else list(reversed(r))
    S = [rr() for _ in range(rng.range(2, 7))]
    C = [rr() for _ in range(rng.below(5))]
    return dict(S=S, O=[], C=C, kind='lattice', geom='rect')


def main():
    a, b = int(sys.argv[1]), int(sys.argv[2])
    nrect = int(sys.argv[3]) if len(sys.argv) > 3 else 600
    ngp = int(sys.argv[4]) if len(sys.argv) > 4 else 200
    ctx = vf.Ctx('C04', 'quick', 1)
    vf.alt_sync()
    env = C04.setup(ctx)
    fails = []
    tot = 0
    bykey = collections.Counter()
    bykind = collections.Counter()
    for seed in range(a, b + 1):
        rng = vf.Rng(seed, 4).fork(7)
        mode = os.environ.get('SURVEY_MODE', 'check')
        rect = [(lattice_case(rng) if mode == 'lattice' else C04.rect_case(rng)) for _ in range(nrect)]
        rect = [c for c in rect if C04.precondition(env, c, 'rect')]
        gp = C04.filter_genpos(ctx, env, [C04.genpos_case(rng) for _ in range(ngp)]) if ngp else []
        cases = rect + gp
        jobs, lines = [], []
        for ci, c in enumerate(cases):
            for ct in C04.CT:
                for fr in C04.FR:
                    for pc in (0, 1):
                        rs = rng.below(2)
                        jobs.append((ci, ct, fr, pc, rs)); lines.append(C04.api_line(c, ct, fr, pc, rs))
        outs, f = vf.par_lines(env.exes['owner'], lines, timeout=900)
        if f:
            print('CRASH', f[0][1], f[0][2][-300:]); continue
        chk, idx = [], []
        for k, line in enumerate(outs):
            r = C04.parse_api(line)
            if r is None:
                print('UNPARSABLE', line[:100], lines[k][:200]); continue
            chk.append(C04.check_line(jobs[k][4], r)); idx.append(k)
        res, f2 = vf.par_lines(env.oracle, chk, timeout=1500)
        tot += len(chk)
        for k, y in zip(idx, res):
            codes = C04.parse_codes(y)
            if codes:
                ci, ct, fr, pc, rs = jobs[k]
                r = C04.parse_api(outs[k])
                keys = sorted(set(kk for kk, _ in C04.refine_keys(env, cases[ci], ct, fr, pc, rs, None, r, codes)))
                bykey[' '.join(keys)] += 1
                bykind[cases[ci]['kind']] += 1
                fails.append(dict(seed=seed, kind=cases[ci]['kind'], ct=ct, fr=fr, pc=pc, rs=rs, keys=keys, case=dict(S=cases[ci]['S'], O=[], C=cases[ci]['C'])))
    print('evaluations', tot, 'failing', len(fails))
    print(dict(bykey)); print(dict(bykind))
    out = os.environ.get('SURVEY_OUT', '/tmp/c04-survey.json')
    json.dump(fails, open(out, 'w'))
    import shutil; shutil.rmtree(ctx.work, ignore_errors=True)


main()
