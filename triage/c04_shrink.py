#!/usr/bin/env python3
"""Triage helper: shrink entry k of a survey json with the check's own shrinker and print the tree.  usage: c04_shrink.py file k [key]"""
import sys, os, json
sys.path.insert(0, '/verif/lib'); sys.path.insert(0, '/verif')
import vf
from checks import C04
f = json.load(open(sys.argv[1])); x = f[int(sys.argv[2])]
key = sys.argv[3] if len(sys.argv) > 3 else 'tree.sibling-overlap'
ctx = vf.Ctx('C04', 'quick', 1); env = C04.setup(ctx)
c = dict(S=[[tuple(v) for v in p] for p in x['case']['S']], O=[], C=[[tuple(v) for v in p] for p in x['case']['C']], geom='rect' if x['kind'].startswith(('rect', 'lattice')) else 'genpos')
small = C04.shrink(env, c, (x['ct'], x['fr'], x['pc'], x['rs'], None), key, budget=400)
print(json.dumps(dict(ct=x['ct'], fr=x['fr'], pc=x['pc'], rs=x['rs'], S=small['S'], C=small['C'])))
keys, det = C04.eval_one(env, small, x['ct'], x['fr'], x['pc'], x['rs'])
for d, h, pth in det.get('tree', []):
    print('  ' * d + ('hole ' if h else 'outer ') + str(pth))
print(sorted(keys), det.get('nodes'))
q = vf.run_lines(env.exes['owner'], [C04.tree_line(small, x['ct'], x['fr'], x['pc'], x['rs'])]).stdout
t = q.split(); n = int(t[2]); pos = 3
for i in range(n):
    ow, hp, io, be, ns = map(int, t[pos:pos + 5]); sp = t[pos + 5:pos + 5 + ns]; pos += 5 + ns
    print(i, 'owner', ow, 'pts', hp, 'splits', sp)
print(q[q.find(' I '):].strip())
import shutil; shutil.rmtree(ctx.work, ignore_errors=True)
