// C18 -- the real geometry kernels of clipper.core.h, called directly.
// Built in three variants: plain (__int128 branch, truncating GetSegmentIntersectPt), hi (-DCLIPPER2_HI_PRECISION=1),
// portable (-DCX_CORE_H="<scratch copy of clipper.core.h with the 128-bit #if forced to #if 0>": the real #else code).
//   PIP qx qy <path>          -> PointInPolygonResult as int (0 IsOn, 1 IsInside, 2 IsOutside)
//   PIPG x0 y0 x1 y1 <path>   -> string of those codes for every lattice point of [x0,x1]x[y0,y1] (y outer, x inner loop)
//   AREA <path>               -> hex double
//   AREAS <paths>             -> hex double
//   MUL a b                   -> lo hi               Multiply(uint64, uint64)
//   PEQ a b c d               -> 0/1                 ProductsAreEqual
//   CPS p q r | COL p q r     -> -1/0/1 | 0/1        CrossProductSign, IsCollinear
//   TRI x                     -> -1/0/1              TriSign
//   IS a b c d ipx ipy        -> ret x y             GetSegmentIntersectPt(a, b, c, d, ip) with ip preset
// A command group can be compiled out with -DCX_NO_<GROUP> (PIP AREA MUL PEQ CPS COL TRI IS): when a function
// disappears from the tree the check still runs the others (and reports the tie break).
#ifdef CX_CORE_H
#include CX_CORE_H
#endif
#include "common.h"
using namespace vfh;

static Point64 rdpt(Toks& t) { int64_t x = t.i64(); int64_t y = t.i64(); return Point64(x, y); }

int main() {
  return main_loop([](Toks& t, std::ostream& os) {
    std::string cmd = t.next();
#ifndef CX_NO_PIP
    if (cmd == "PIP") {
      Point64 q = rdpt(t); Path64 p = t.path();
      os << (int)PointInPolygon(q, p); return;
    }
    if (cmd == "PIPG") {
      int64_t x0 = t.i64(), y0 = t.i64(), x1 = t.i64(), y1 = t.i64(); Path64 p = t.path();
      for (int64_t y = y0; y <= y1; ++y) for (int64_t x = x0; x <= x1; ++x) os << (int)PointInPolygon(Point64(x, y), p);
      return;
    }
#endif
#ifndef CX_NO_AREA
    if (cmd == "AREA") { Path64 p = t.path(); os << hexd(Area(p)); return; }
    if (cmd == "AREAS") { Paths64 ps = t.paths(); os << hexd(Area(ps)); return; }
#endif
#ifndef CX_NO_MUL
    if (cmd == "MUL") { uint64_t a = t.u64(), b = t.u64(); auto r = Multiply(a, b); os << r.lo << ' ' << r.hi; return; }
#endif
#ifndef CX_NO_PEQ
    if (cmd == "PEQ") {
      int64_t a = t.i64(), b = t.i64(), c = t.i64(), d = t.i64(); os << (ProductsAreEqual(a, b, c, d) ? 1 : 0); return;
    }
#endif
#ifndef CX_NO_CPS
    if (cmd == "CPS") { Point64 p = rdpt(t), q = rdpt(t), r = rdpt(t); os << CrossProductSign(p, q, r); return; }
#endif
#ifndef CX_NO_COL
    if (cmd == "COL") { Point64 p = rdpt(t), q = rdpt(t), r = rdpt(t); os << (IsCollinear(p, q, r) ? 1 : 0); return; }
#endif
#ifndef CX_NO_TRI
    if (cmd == "TRI") { int64_t x = t.i64(); os << TriSign(x); return; }
#endif
#ifndef CX_NO_IS
    if (cmd == "IS") {
      Point64 a = rdpt(t), b = rdpt(t), c = rdpt(t), d = rdpt(t), ip = rdpt(t);
      bool r = GetSegmentIntersectPt(a, b, c, d, ip);
      os << (r ? 1 : 0) << ' ' << ip.x << ' ' << ip.y; return;
    }
#endif
    os << "NA " << cmd;
  });
}
