// C20 harness: direct calls of Clipper2's path utilities (clipper.h / clipper.core.h).
// Line mode (stdin):   one request per line -> "<request> = <response>" per line.
// Enum mode (argv):    cx_pathutils enum <what> <npts> <L> <shard> <nshards>
//                      emits the same "<request> = <response>" lines for every path of exactly <npts> points over the
//                      LxL lattice whose enumeration index is congruent to <shard> mod <nshards>;
//                      <what> is a string of letters: T trim (open+closed), S simplify (eps grid x open/closed), R rdp (eps grid),
//                      s simplify with the two-value grid {0.5, 2} x open/closed (quick tier, 5-point paths),
//                      N StripNearEqual (max_dist_sqrd in {0,1,2,3,5,10} x open/closed) and StripDuplicates (open/closed).
// Requests (integers decimal, doubles C99 hex floats, <path> = n x y x y ...):
//   TRIM o <path>            -> <path out> <path TrimCollinear(out,o)>
//   SIMP eps c <path>        -> <path>
//   RDP eps <path>           -> <path> <n> f0 f1 ...      (flags of a direct RDP() call set up as in RamerDouglasPeucker)
//   SDUP c <path>            -> <path>
//   SNEAR d c <path>         -> <path>
//   SNEARD d c <pathd>       -> <pathd>                    (StripNearEqual<double>; points as hex floats)
//   SNEARS d c <paths>       -> <paths>                    (Paths64 overload)     SNEARSD d c <pathsd> -> <pathsd>
//   SDUPS c <paths>          -> <paths>                    (StripDuplicates, Paths64 overload)
//   SIMPD eps c <pathd> -> <pathd>      SIMPS eps c <paths> -> <paths>     SIMPSD eps c <pathsd> -> <pathsd>
//   RDPD eps <pathd>    -> <pathd> <n> f0 f1 ... (direct RDP<double>)     RDPS eps <paths> -> <paths>    RDPSD eps <pathsd> -> <pathsd>
//   TRANSD dx dy <pathd> -> <pathd>     TRANSS dx dy <paths> -> <paths>    TRANSSD dx dy <pathsd> -> <pathsd>
//   SDUPD c <pathd> -> <pathd>          SDUPSD c <pathsd> -> <pathsd>
//   TRIMD precision o <pathd> -> scale <pathd>              (TrimCollinear(PathD, precision, o); scale = std::pow(10, precision))
//   ELLR l t r b steps -> steps si co <path>  (Ellipse(Rect64, steps))    ELLRD l t r b steps -> steps si co <pathd>  (Ellipse(RectD, steps))
//   TFID <path> -> <pathd> (TransformPath<double,int64_t>)  TFDI <pathd> -> <path> (TransformPath<int64_t,double>)
//   TFIDS <paths> -> <pathsd> (TransformPaths<double,int64_t>)
//   BOUNDS <path>            -> left top right bottom
//   TRANS dx dy <path>       -> <path>
//   LEN c <path>             -> double
//   ELL cx cy rx ry steps    -> steps si co <path>         (Ellipse<int64_t>; steps/si/co recomputed as in the library)
//   ELLD cx cy rx ry steps   -> steps si co n x y ...      (Ellipse<double>)
//   PD px py ax ay bx by     -> double                     (PerpendicDistFromLineSqrd)
//   COL ax ay sx sy bx by    -> 0/1                        (IsCollinear)
//   FSELF a b                -> a+b a-b a*b a/b sqrt(a)
#define VERIF_NO_TU 1
#include "common.h"
using namespace vfh;

static const double EPS_GRID[6] = {0.0, 0.5, 1.0, 2.0, 10.0, 1e9};

static void do_trim(std::ostream& os, const Path64& p, bool o) {
  Path64 out = TrimCollinear(p, o);
  Path64 out2 = TrimCollinear(out, o);
  put(os, out); os << ' '; put(os, out2);
}
static void do_simp(std::ostream& os, const Path64& p, double eps, bool c) {
  Path64 out = SimplifyPath<int64_t>(p, eps, c);
  put(os, out);
}
static void do_rdp(std::ostream& os, const Path64& p, double eps) {
  Path64 out = RamerDouglasPeucker<int64_t>(p, eps);
  put(os, out);
  const size_t len = p.size();
  std::vector<bool> flags(len);
  if (len < 5) { for (size_t i = 0; i < len; ++i) flags[i] = true; }
  else {
    flags[0] = true; flags[len - 1] = true;
    RDP<int64_t>(p, 0, len - 1, Sqr(eps), flags);
  }
  os << ' ' << len;
  for (size_t i = 0; i < len; ++i) os << ' ' << (flags[i] ? 1 : 0);
}

static void ell_params(double rx, double ry, size_t steps, size_t& steps_out, double& si, double& co) {
  // copy of the prologue of Ellipse (clipper.h) to report the libm values it uses
  if (ry <= 0) ry = rx;
  if (steps <= 2) steps = static_cast<size_t>(PI * sqrt((rx + ry) / 2));
  si = std::sin(2 * PI / steps);
  co = std::cos(2 * PI / steps);
  steps_out = steps;
}

static void handle(Toks& t, std::ostream& os) {
  const std::string cmd = t.next();
  if (cmd == "TRIM") { bool o = t.b(); Path64 p = t.path(); do_trim(os, p, o); }
  else if (cmd == "SIMP") { double eps = t.dbl(); bool c = t.b(); Path64 p = t.path(); do_simp(os, p, eps, c); }
  else if (cmd == "RDP") { double eps = t.dbl(); Path64 p = t.path(); do_rdp(os, p, eps); }
  else if (cmd == "SDUP") { bool c = t.b(); Path64 p = t.path(); StripDuplicates<int64_t>(p, c); put(os, p); }
  else if (cmd == "SNEAR") { double d = t.dbl(); bool c = t.b(); Path64 p = t.path(); put(os, StripNearEqual<int64_t>(p, d, c)); }
  else if (cmd == "SNEARD") { double d = t.dbl(); bool c = t.b(); PathD p = t.pathd(); put(os, StripNearEqual<double>(p, d, c)); }
  else if (cmd == "SNEARS") { double d = t.dbl(); bool c = t.b(); Paths64 ps = t.paths(); put(os, StripNearEqual<int64_t>(ps, d, c)); }
  else if (cmd == "SNEARSD") { double d = t.dbl(); bool c = t.b(); PathsD ps = t.pathsd(); put(os, StripNearEqual<double>(ps, d, c)); }
  else if (cmd == "SDUPS") { bool c = t.b(); Paths64 ps = t.paths(); StripDuplicates<int64_t>(ps, c); put(os, ps); }
  else if (cmd == "SIMPD") { double eps = t.dbl(); bool c = t.b(); PathD p = t.pathd(); put(os, SimplifyPath<double>(p, eps, c)); }
  else if (cmd == "SIMPS") { double eps = t.dbl(); bool c = t.b(); Paths64 ps = t.paths(); put(os, SimplifyPaths<int64_t>(ps, eps, c)); }
  else if (cmd == "SIMPSD") { double eps = t.dbl(); bool c = t.b(); PathsD ps = t.pathsd(); put(os, SimplifyPaths<double>(ps, eps, c)); }
  else if (cmd == "RDPD") {
    double eps = t.dbl(); PathD p = t.pathd();
    put(os, RamerDouglasPeucker<double>(p, eps));
    const size_t len = p.size();
    std::vector<bool> flags(len);
    if (len < 5) { for (size_t i = 0; i < len; ++i) flags[i] = true; }
    else { flags[0] = true; flags[len - 1] = true; RDP<double>(p, 0, len - 1, Sqr(eps), flags); }
    os << ' ' << len;
    for (size_t i = 0; i < len; ++i) os << ' ' << (flags[i] ? 1 : 0);
  }
  else if (cmd == "RDPS") { double eps = t.dbl(); Paths64 ps = t.paths(); put(os, RamerDouglasPeucker<int64_t>(ps, eps)); }
  else if (cmd == "RDPSD") { double eps = t.dbl(); PathsD ps = t.pathsd(); put(os, RamerDouglasPeucker<double>(ps, eps)); }
  else if (cmd == "TRANSD") { double dx = t.dbl(); double dy = t.dbl(); PathD p = t.pathd(); put(os, TranslatePath(p, dx, dy)); }
  else if (cmd == "TRANSS") { int64_t dx = t.i64(); int64_t dy = t.i64(); Paths64 ps = t.paths(); put(os, TranslatePaths(ps, dx, dy)); }
  else if (cmd == "TRANSSD") { double dx = t.dbl(); double dy = t.dbl(); PathsD ps = t.pathsd(); put(os, TranslatePaths(ps, dx, dy)); }
  else if (cmd == "SDUPD") { bool c = t.b(); PathD p = t.pathd(); StripDuplicates<double>(p, c); put(os, p); }
  else if (cmd == "SDUPSD") { bool c = t.b(); PathsD ps = t.pathsd(); StripDuplicates<double>(ps, c); put(os, ps); }
  else if (cmd == "TRIMD") {
    int prec = t.i32(); bool o = t.b(); PathD p = t.pathd();
    os << hexd(std::pow(10, prec)) << ' '; put(os, TrimCollinear(p, prec, o));
  }
  else if (cmd == "ELLR") {
    int64_t l = t.i64(), tp = t.i64(), r = t.i64(), b = t.i64(); size_t steps = (size_t)t.u64();
    Rect64 rc(l, tp, r, b);
    Path64 res = Ellipse<int64_t>(rc, steps);
    size_t so; double si, co; ell_params(static_cast<double>(rc.Width()) * 0.5, static_cast<double>(rc.Height()) * 0.5, steps, so, si, co);
    os << so << ' ' << hexd(si) << ' ' << hexd(co) << ' '; put(os, res);
  }
  else if (cmd == "ELLRD") {
    double l = t.dbl(), tp = t.dbl(), r = t.dbl(), b = t.dbl(); size_t steps = (size_t)t.u64();
    RectD rc(l, tp, r, b);
    PathD res = Ellipse<double>(rc, steps);
    size_t so; double si, co; ell_params(static_cast<double>(rc.Width()) * 0.5, static_cast<double>(rc.Height()) * 0.5, steps, so, si, co);
    os << so << ' ' << hexd(si) << ' ' << hexd(co) << ' '; put(os, res);
  }
  else if (cmd == "TFID") { Path64 p = t.path(); put(os, TransformPath<double, int64_t>(p)); }
  else if (cmd == "TFDI") { PathD p = t.pathd(); put(os, TransformPath<int64_t, double>(p)); }
  else if (cmd == "TFIDS") { Paths64 ps = t.paths(); put(os, TransformPaths<double, int64_t>(ps)); }
  else if (cmd == "BOUNDS") { Path64 p = t.path(); Rect64 r = GetBounds(p); os << r.left << ' ' << r.top << ' ' << r.right << ' ' << r.bottom; }
  else if (cmd == "TRANS") { int64_t dx = t.i64(); int64_t dy = t.i64(); Path64 p = t.path(); put(os, TranslatePath(p, dx, dy)); }
  else if (cmd == "LEN") { bool c = t.b(); Path64 p = t.path(); os << hexd(Length<int64_t>(p, c)); }
  else if (cmd == "ELL") {
    int64_t cx = t.i64(); int64_t cy = t.i64(); double rx = t.dbl(); double ry = t.dbl(); size_t steps = (size_t)t.u64();
    Path64 r = Ellipse<int64_t>(Point64(cx, cy), rx, ry, steps);
    size_t so; double si, co; ell_params(rx, ry, steps, so, si, co);
    os << so << ' ' << hexd(si) << ' ' << hexd(co) << ' '; put(os, r);
  }
  else if (cmd == "ELLD") {
    double cx = t.dbl(); double cy = t.dbl(); double rx = t.dbl(); double ry = t.dbl(); size_t steps = (size_t)t.u64();
    PathD r = Ellipse<double>(PointD(cx, cy), rx, ry, steps);
    size_t so; double si, co; ell_params(rx, ry, steps, so, si, co);
    os << so << ' ' << hexd(si) << ' ' << hexd(co) << ' '; put(os, r);
  }
  else if (cmd == "PD") {
    int64_t v[6]; for (int i = 0; i < 6; ++i) v[i] = t.i64();
    Point64 p(v[0], v[1]), a(v[2], v[3]), b(v[4], v[5]);
    os << hexd(PerpendicDistFromLineSqrd(p, a, b));
  }
  else if (cmd == "COL") {
    int64_t v[6]; for (int i = 0; i < 6; ++i) v[i] = t.i64();
    Point64 a(v[0], v[1]), s(v[2], v[3]), b(v[4], v[5]);
    os << (IsCollinear(a, s, b) ? 1 : 0);
  }
  else if (cmd == "FSELF") {
    volatile double a = t.dbl(); volatile double b = t.dbl();
    os << hexd(a + b) << ' ' << hexd(a - b) << ' ' << hexd(a * b) << ' ' << hexd(a / b) << ' ' << hexd(std::sqrt(a));
  }
  else throw std::runtime_error("unknown command " + cmd);
}

static int enum_mode(int argc, char** argv) {
  if (argc < 7) { std::fprintf(stderr, "usage: enum what npts L shard nshards\n"); return 2; }
  const std::string what = argv[2];
  const int n = std::atoi(argv[3]); const int L = std::atoi(argv[4]);
  const uint64_t shard = std::strtoull(argv[5], nullptr, 10), nshards = std::strtoull(argv[6], nullptr, 10);
  const uint64_t cells = (uint64_t)L * L;
  uint64_t total = 1; for (int i = 0; i < n; ++i) total *= cells;
  std::ios::sync_with_stdio(false);
  std::string pathstr;
  for (uint64_t idx = shard; idx < total; idx += nshards) {
    Path64 p; p.reserve(n);
    uint64_t v = idx;
    for (int i = 0; i < n; ++i) { uint64_t c = v % cells; v /= cells; p.emplace_back((int64_t)(c % L), (int64_t)(c / L)); }
    std::ostringstream ps; put(ps, p); pathstr = ps.str();
    for (char w : what) {
      if (w == 'T') {
        for (int o = 0; o < 2; ++o) {
          std::ostringstream os; os << "TRIM " << o << ' ' << pathstr << " = "; do_trim(os, p, o != 0); std::cout << os.str() << '\n';
        }
      } else if (w == 'S') {
        for (double eps : EPS_GRID) for (int c = 0; c < 2; ++c) {
          std::ostringstream os; os << "SIMP " << hexd(eps) << ' ' << c << ' ' << pathstr << " = "; do_simp(os, p, eps, c != 0); std::cout << os.str() << '\n';
        }
      } else if (w == 's') {
        for (double eps : {0.5, 2.0}) for (int c = 0; c < 2; ++c) {
          std::ostringstream os; os << "SIMP " << hexd(eps) << ' ' << c << ' ' << pathstr << " = "; do_simp(os, p, eps, c != 0); std::cout << os.str() << '\n';
        }
      } else if (w == 'N') {
        for (double d : {0.0, 1.0, 2.0, 3.0, 5.0, 10.0}) for (int c = 0; c < 2; ++c) {
          std::ostringstream os; os << "SNEAR " << hexd(d) << ' ' << c << ' ' << pathstr << " = "; put(os, StripNearEqual<int64_t>(p, d, c != 0)); std::cout << os.str() << '\n';
        }
        for (int c = 0; c < 2; ++c) {
          Path64 q = p; StripDuplicates<int64_t>(q, c != 0);
          std::ostringstream os; os << "SDUP " << c << ' ' << pathstr << " = "; put(os, q); std::cout << os.str() << '\n';
        }
      } else if (w == 'R') {
        for (double eps : EPS_GRID) {
          std::ostringstream os; os << "RDP " << hexd(eps) << ' ' << pathstr << " = "; do_rdp(os, p, eps); std::cout << os.str() << '\n';
        }
      }
    }
  }
  std::cout.flush();
  return 0;
}

int main(int argc, char** argv) {
  if (argc > 1 && std::string(argv[1]) == "enum") return enum_mode(argc, argv);
  std::ios::sync_with_stdio(false);
  std::string line;
  while (std::getline(std::cin, line)) {
    std::ostringstream os;
    try { Toks t(line); handle(t, os); }
    catch (const std::exception& e) { os.str(""); os << "EXC " << e.what(); }
    catch (...) { os.str(""); os << "EXC unknown"; }
    std::cout << line << " = " << os.str() << '\n';
  }
  std::cout.flush();
  return 0;
}
