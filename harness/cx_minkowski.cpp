// C19 harness: detail::Minkowski (raw quads), Area/IsPositive, MinkowskiSum/MinkowskiDiff (Path64 and PathD).
// One command per line:
//   QUADS sum01 closed01 <pattern> <path>        -> OK <quads>
//   AREA <path>                                  -> OK <hex double>
//   MINK sum01 closed01 <pattern> <path>         -> OK <quads> | <result>      (result = MinkowskiSum/Diff)
//   MINKD sum01 closed01 dec <patternD> <pathD>  -> OK <scale> <inv> | <pat64> | <path64> | <quads> | <res64> | <resD>
//        scale = pow(10,dec), inv = 1/scale, pat64/path64 = ScalePath<int64_t,double>, quads = detail::Minkowski on
//        them, res64 = the Path64 overload on them, resD = the PathD overload on the original doubles
//   MINKAPI ...                                  -> as MINK (the only form used when built with -DCX_MINK_API_ONLY,
//        where detail::Minkowski is not referenced and <quads> is printed as 0: fallback after a tie break)
#include "common.h"
using namespace vfh;

#ifdef CX_MINK_API_ONLY
#define QUADS_OF(pat, p, sum, closed) Paths64()
#else
#define QUADS_OF(pat, p, sum, closed) detail::Minkowski(pat, p, sum, closed)
#endif

int main() {
  return main_loop([](Toks& t, std::ostream& os) {
    const std::string cmd = t.next();
    if (cmd == "QUADS") {
      bool sum = t.b(), closed = t.b(); Path64 pat = t.path(), p = t.path();
      Paths64 q = QUADS_OF(pat, p, sum, closed);
      os << "OK "; put(os, q);
    } else if (cmd == "AREA") {
      Path64 p = t.path();
      os << "OK " << hexd(Area<int64_t>(p));
    } else if (cmd == "MINK" || cmd == "MINKAPI") {
      bool sum = t.b(), closed = t.b(); Path64 pat = t.path(), p = t.path();
      Paths64 q = QUADS_OF(pat, p, sum, closed);
      Paths64 r = sum ? MinkowskiSum(pat, p, closed) : MinkowskiDiff(pat, p, closed);
      os << "OK "; put(os, q); os << " | "; put(os, r);
    } else if (cmd == "MINKD") {
      bool sum = t.b(), closed = t.b(); int dec = t.i32(); PathD pat = t.pathd(), p = t.pathd();
      int ec = 0;
      double scale = pow(10, dec);
      Path64 pat64 = ScalePath<int64_t, double>(pat, scale, ec);
      Path64 p64 = ScalePath<int64_t, double>(p, scale, ec);
      Paths64 q = QUADS_OF(pat64, p64, sum, closed);
      Paths64 r64 = sum ? MinkowskiSum(pat64, p64, closed) : MinkowskiDiff(pat64, p64, closed);
      PathsD rd = sum ? MinkowskiSum(pat, p, closed, dec) : MinkowskiDiff(pat, p, closed, dec);
      os << "OK " << hexd(scale) << ' ' << hexd(1 / scale) << " | "; put(os, pat64); os << " | "; put(os, p64);
      os << " | "; put(os, q); os << " | "; put(os, r64); os << " | "; put(os, rd);
    } else {
      os << "ERR unknown command " << cmd;
    }
  });
}
