// Harness for C14 (independent objects can be used from different threads).
//   RUN <nthreads> <seed> <rounds> [<focus>]
// Every thread i runs `rounds` rounds of a fixed set of work items on its *own* objects and data (derived from
// seed, i and the round): Clipper64 / ClipperD (paths and trees, open subjects), ClipperOffset and InflatePaths,
// RectClip64 / RectClipLines64 and the free functions, MinkowskiSum/Diff, SimplifyPaths, RamerDouglasPeucker,
// TrimCollinear, PointInPolygon, Ellipse, the error path (Clipper2Exception thrown and caught), and a Clipper64 that
// takes its subjects from ONE ReuseableDataContainer64 shared by all threads (built before they start, read-only).
// Every item is serialised; after the threads have joined the main thread recomputes everything sequentially and
// compares the strings.   -> "OK threads=<n> items=<k> bytes=<b> fnv=<h>"  |  "DIFF thread=<i> item=<j> PAR <..> SEQ <..>"
// Built with -fsanitize=thread (variant tsan) ThreadSanitizer reports any data race on stderr and the process exits
// with code 66.  <focus> (optional) restricts the items to one family: bool, boold, offset, rect, mink, util, shared, err.
#include "common.h"
using namespace vfh;

struct Rnd {
  uint64_t s;
  explicit Rnd(uint64_t seed) : s(seed * 0x9E3779B97F4A7C15ULL + 0x1234567ULL) {}
  uint64_t next() { s += 0x9E3779B97F4A7C15ULL; uint64_t z = s; z = (z ^ (z >> 30)) * 0xBF58476D1CE4E5B9ULL; z = (z ^ (z >> 27)) * 0x94D049BB133111EBULL; return z ^ (z >> 31); }
  int64_t range(int64_t lo, int64_t hi) { return lo + (int64_t)(next() % (uint64_t)(hi - lo + 1)); }
};

static Path64 rnd_poly(Rnd& r, int n, int64_t lo, int64_t hi) { Path64 p; for (int i = 0; i < n; ++i) p.emplace_back(r.range(lo, hi), r.range(lo, hi)); return p; }
static Paths64 rnd_polys(Rnd& r, int k, int nmin, int nmax, int64_t lo, int64_t hi) { Paths64 ps; for (int i = 0; i < k; ++i) ps.push_back(rnd_poly(r, (int)r.range(nmin, nmax), lo, hi)); return ps; }
static Path64 star(Rnd& r, int64_t cx, int64_t cy, int n) {       // star-shaped (simple) polygon
  Path64 p; for (int i = 0; i < n; ++i) { double a = 2 * 3.141592653589793 * i / n; double rad = (double)r.range(20, 100); p.emplace_back((int64_t)(cx + rad * std::cos(a)), (int64_t)(cy + rad * std::sin(a))); } return p;
}
static PathsD to_d(const Paths64& ps) { PathsD r; for (auto& p : ps) { PathD q; for (auto& v : p) q.emplace_back(v.x / 8.0, v.y / 8.0); r.push_back(q); } return r; }

static void ser_tree(std::ostream& os, const PolyPath64& n) { os << '('; put(os, n.Polygon()); os << ' ' << n.Count(); for (auto& c : n) { os << ' '; ser_tree(os, *c); } os << ')'; }
static void ser_tree(std::ostream& os, const PolyPathD& n) { os << '('; put(os, n.Polygon()); os << ' ' << n.Count(); for (auto& c : n) { os << ' '; ser_tree(os, *c); } os << ')'; }

static const ReuseableDataContainer64* g_shared = nullptr;
static std::string g_focus;
static bool want(const char* fam) { return g_focus.empty() || g_focus == fam; }

// all work of one (thread, round): returns the serialised items
static void work(uint64_t seed, int thread, int round, std::vector<std::string>& out) {
  Rnd r(seed * 1000003ULL + (uint64_t)thread * 7919ULL + (uint64_t)round * 104729ULL + 17);
  auto emit = [&](std::ostringstream& os) { out.push_back(os.str()); };
  Paths64 subj = rnd_polys(r, 3, 3, 8, -200, 200), clip = rnd_polys(r, 2, 3, 7, -200, 200);
  Paths64 opens = rnd_polys(r, 2, 2, 5, -250, 250);
  subj.push_back(star(r, 0, 0, 9));
  if (want("bool")) {
    for (int ct = 1; ct <= 4; ++ct) {
      std::ostringstream os; os << "bool" << ct << ' ';
      Clipper64 c; c.AddSubject(subj); c.AddClip(clip); c.AddOpenSubject(opens);
      Paths64 a, b; bool ok = c.Execute((ClipType)ct, (FillRule)(ct % 4), a, b); os << ok << ' '; put(os, a); os << " | "; put(os, b);
      PolyTree64 t; Paths64 b2; c.Execute((ClipType)ct, FillRule::NonZero, t, b2); os << " T "; ser_tree(os, t);
      emit(os);
    }
    { std::ostringstream os; os << "free "; put(os, Union(subj, clip, FillRule::NonZero)); os << ' '; put(os, Intersect(subj, clip, FillRule::EvenOdd));
      os << ' '; put(os, Difference(subj, clip, FillRule::NonZero)); os << ' '; put(os, Xor(subj, clip, FillRule::Positive)); emit(os); }
  }
  if (want("boold")) {
    std::ostringstream os; os << "boold ";
    ClipperD c(3); c.AddSubject(to_d(subj)); c.AddClip(to_d(clip)); c.AddOpenSubject(to_d(opens));
    PathsD a, b; c.Execute(ClipType::Intersection, FillRule::NonZero, a, b); put(os, a); os << " | "; put(os, b);
    PolyTreeD t; PathsD b2; c.Execute(ClipType::Union, FillRule::EvenOdd, t, b2); os << " T "; ser_tree(os, t);
    os << " F "; put(os, Union(to_d(subj), to_d(clip), FillRule::NonZero, 2));
    emit(os);
  }
  if (want("offset")) {
    Paths64 sh; sh.push_back(star(r, 0, 0, 7)); sh.push_back(star(r, 500, 300, 5));
    for (int jt = 0; jt < 4; ++jt) {
      std::ostringstream os; os << "off" << jt << ' ';
      ClipperOffset co(2.0, 0.0); co.AddPaths(sh, (JoinType)jt, EndType::Polygon); co.AddPath(opens[0], (JoinType)jt, (EndType)(1 + jt));
      Paths64 sol; co.Execute(7.5 + jt, sol); put(os, sol);
      PolyTree64 t; co.Execute(-3.0, t); os << " T "; ser_tree(os, t);
      os << " I "; put(os, InflatePaths(sh, 5.0, (JoinType)jt, EndType::Polygon));
      os << " D "; put(os, InflatePaths(to_d(sh), 2.5, (JoinType)jt, EndType::Polygon, 2.0, 2));
      emit(os);
    }
  }
  if (want("rect")) {
    std::ostringstream os; os << "rect ";
    Rect64 rc(-80, -60, 90, 70);
    RectClip64 a(rc); put(os, a.Execute(subj)); os << ' '; put(os, a.Execute(clip));
    RectClipLines64 l(rc); os << " L "; put(os, l.Execute(opens));
    os << " F "; put(os, RectClip(rc, subj)); os << ' '; put(os, RectClipLines(rc, opens));
    os << " D "; put(os, RectClip(RectD(-10, -7.5, 11, 9), to_d(subj), 2));
    emit(os);
  }
  if (want("mink")) {
    std::ostringstream os; os << "mink ";
    Path64 pat = star(r, 0, 0, 5), pth = rnd_poly(r, 6, -150, 150);
    put(os, MinkowskiSum(pat, pth, true)); os << ' '; put(os, MinkowskiDiff(pat, pth, false));
    os << " D "; put(os, MinkowskiSum(to_d(Paths64(1, pat))[0], to_d(Paths64(1, pth))[0], true, 2));
    emit(os);
  }
  if (want("util")) {
    std::ostringstream os; os << "util ";
    put(os, SimplifyPaths(subj, 3.0, true)); os << ' '; put(os, RamerDouglasPeucker(subj, 4.0)); os << ' ';
    put(os, TrimCollinear(subj[0], false)); os << ' ' << hexd(Area(subj)) << ' ' << (int)PointInPolygon(Point64(1, 2), subj[3]);
    os << ' '; put(os, Ellipse(Point64(5, 5), 30.0, 20.0, 0)); os << ' '; put(os, TranslatePaths(subj, 3, 4));
    os << ' ' << IsPositive(subj[3]) << ' '; { Path64 sd = subj[0]; sd.push_back(sd.back()); StripDuplicates(sd, true); put(os, sd); } os << ' ' << GetBounds(subj).Width();
    emit(os);
  }
  if (want("shared") && g_shared) {
    std::ostringstream os; os << "shared ";
    Clipper64 c; c.AddReuseableData(*g_shared); c.AddClip(clip);
    Paths64 a, b; c.Execute(ClipType::Intersection, FillRule::NonZero, a, b); put(os, a); os << " | "; put(os, b);
    c.Clear(); c.AddReuseableData(*g_shared); c.AddClip(subj);
    PolyTree64 t; Paths64 b2; c.Execute(ClipType::Difference, FillRule::EvenOdd, t, b2); os << " T "; ser_tree(os, t); os << " | "; put(os, b2);
    emit(os);
  }
  if (want("err")) {
    std::ostringstream os; os << "err ";
    try { ClipperD c(12); os << "noexc " << c.ErrorCode(); } catch (const Clipper2Exception& e) { os << "exc:" << e.what(); }
    try { PathD bp; bp.emplace_back(1e300, 0.0); bp.emplace_back(0.0, 1e300); bp.emplace_back(-1e300, -1e300); PathsD big(1, bp); PathsD s = Union(big, FillRule::NonZero, 2); os << " n=" << s.size(); }
    catch (const Clipper2Exception& e) { os << " exc:" << e.what(); }
    emit(os);
  }
}

static uint64_t fnv(uint64_t h, const std::string& s) { for (unsigned char ch : s) { h ^= ch; h *= 1099511628211ULL; } return h; }

int main() {
  return main_loop([](Toks& t, std::ostream& os) {
    std::string c = t.next();
    if (c != "RUN") { os << "ERR unknown command " << c; return; }
    int n = t.i32(); uint64_t seed = t.u64(); int rounds = t.i32();
    g_focus = t.more() ? t.next() : std::string();
    // the shared container: built once, before any thread exists
    ReuseableDataContainer64 shared;
    { Rnd r(seed + 99); Paths64 s = rnd_polys(r, 4, 3, 9, -220, 220); s.push_back(star(r, 10, -10, 11)); shared.AddPaths(s, PathType::Subject, false);
      shared.AddPaths(rnd_polys(r, 2, 2, 6, -250, 250), PathType::Subject, true); }
    g_shared = &shared;
    std::vector<std::vector<std::string>> par(n), seq(n);
    std::atomic<int> go{0};
    std::vector<std::thread> th;
    for (int i = 0; i < n; ++i)
      th.emplace_back([&, i] {
        go.fetch_add(1); while (go.load() < n) std::this_thread::yield();      // start together
        for (int k = 0; k < rounds; ++k) work(seed, i, k, par[i]);
      });
    for (auto& x : th) x.join();
    for (int i = 0; i < n; ++i) for (int k = 0; k < rounds; ++k) work(seed, i, k, seq[i]);
    g_shared = nullptr;
    size_t items = 0, bytes = 0; uint64_t h = 1469598103934665603ULL;
    for (int i = 0; i < n; ++i) {
      if (par[i].size() != seq[i].size()) { os << "DIFF thread=" << i << " item-count " << par[i].size() << " vs " << seq[i].size(); return; }
      for (size_t j = 0; j < par[i].size(); ++j) {
        if (par[i][j] != seq[i][j]) { os << "DIFF thread=" << i << " item=" << j << " PAR " << par[i][j].substr(0, 400) << " SEQ " << seq[i][j].substr(0, 400); return; }
        ++items; bytes += par[i][j].size(); h = fnv(h, par[i][j]);
      }
    }
    os << "OK threads=" << n << " items=" << items << " bytes=" << bytes << " fnv=" << h;
  });
}
