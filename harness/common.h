// Shared harness prelude: every std header first, then expose private/protected members, then the library
// headers AND translation units, so private members and file-static functions are reachable without hooks.
#pragma once
#include <algorithm>
#include <array>
#include <atomic>
#include <cfloat>
#include <chrono>
#include <climits>
#include <cmath>
#include <csignal>
#include <cstddef>
#include <cstdint>
#include <cstdio>
#include <cstdlib>
#include <cstring>
#include <deque>
#include <fstream>
#include <functional>
#include <iomanip>
#include <iostream>
#include <iterator>
#include <limits>
#include <list>
#include <map>
#include <memory>
#include <mutex>
#include <new>
#include <numeric>
#include <optional>
#include <queue>
#include <set>
#include <sstream>
#include <stdexcept>
#include <string>
#include <thread>
#include <tuple>
#include <type_traits>
#include <unordered_map>
#include <unordered_set>
#include <utility>
#include <vector>

#define private public
#define protected public
#include "clipper2/clipper.h"
#ifndef VERIF_NO_TU
#include "clipper.engine.cpp"
#include "clipper.offset.cpp"
#include "clipper.rectclip.cpp"
#endif
#undef private
#undef protected

namespace vfh {
using namespace Clipper2Lib;

struct Toks {
  std::vector<std::string> a; size_t i = 0;
  explicit Toks(const std::string& line) { std::istringstream is(line); std::string s; while (is >> s) a.push_back(s); }
  bool more() const { return i < a.size(); }
  const std::string& next() {
    if (i >= a.size()) {
#if defined(__cpp_exceptions)
      throw std::runtime_error("missing token");
#else
      std::fprintf(stderr, "missing token\n"); std::abort();
#endif
    }
    return a[i++];
  }
  int64_t i64() { return std::strtoll(next().c_str(), nullptr, 10); }
  uint64_t u64() { return std::strtoull(next().c_str(), nullptr, 10); }
  int i32() { return (int)std::strtol(next().c_str(), nullptr, 10); }
  double dbl() { return std::strtod(next().c_str(), nullptr); }   // accepts hex floats and decimal
  bool b() { return next() != "0"; }
  Path64 path() { size_t n = (size_t)i64(); Path64 p; p.reserve(n); for (size_t k = 0; k < n; ++k) { int64_t x = i64(); int64_t y = i64(); p.emplace_back(x, y); } return p; }
  Paths64 paths() { size_t n = (size_t)i64(); Paths64 ps; ps.reserve(n); for (size_t k = 0; k < n; ++k) ps.push_back(path()); return ps; }
  PathD pathd() { size_t n = (size_t)i64(); PathD p; p.reserve(n); for (size_t k = 0; k < n; ++k) { double x = dbl(); double y = dbl(); p.emplace_back(x, y); } return p; }
  PathsD pathsd() { size_t n = (size_t)i64(); PathsD ps; ps.reserve(n); for (size_t k = 0; k < n; ++k) ps.push_back(pathd()); return ps; }
};

inline std::string hexd(double d) { char buf[64]; std::snprintf(buf, sizeof buf, "%a", d); return buf; }

inline void put(std::ostream& os, const Path64& p) { os << p.size(); for (auto& v : p) os << ' ' << v.x << ' ' << v.y; }
inline void put(std::ostream& os, const Paths64& ps) { os << ps.size(); for (auto& p : ps) { os << ' '; put(os, p); } }
inline void put(std::ostream& os, const PathD& p) { os << p.size(); for (auto& v : p) os << ' ' << hexd(v.x) << ' ' << hexd(v.y); }
inline void put(std::ostream& os, const PathsD& ps) { os << ps.size(); for (auto& p : ps) { os << ' '; put(os, p); } }

// main loop: handler gets the tokens of one line and writes one line (without the newline)
template <typename F> int main_loop(F handle) {
  std::ios::sync_with_stdio(false);
  std::string line;
  while (std::getline(std::cin, line)) {
    std::ostringstream os;
#if defined(__cpp_exceptions)
    try { Toks t(line); handle(t, os); }
    catch (const std::exception& e) { os.str(""); os << "EXC " << e.what(); }
    catch (...) { os.str(""); os << "EXC unknown"; }
#else
    { Toks t(line); handle(t, os); }
#endif
    std::cout << os.str() << '\n';
  }
  std::cout.flush();
  return 0;
}
}  // namespace vfh
