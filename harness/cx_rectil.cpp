// C02 driver: closed boolean operations on rectilinear input, all option sets per input line so that process
// I/O does not dominate when millions of tiny cases are enumerated.
//   RECTIL mask <pathsS> <pathsC>
//     option index i = ((ct-1)*4 + fr)*2 + pc   (ct 1..4 = Intersection Union Difference Xor, fr 0..3 = EvenOdd NonZero
//     Positive Negative, pc = PreserveCollinear); every i whose bit is set in the 32-bit mask is executed on a fresh
//     Clipper64 (ReverseSolution off, closed-paths overload of Execute).
//     -> "RC <pathsS> <pathsC> n (ct fr pc ok <pathsOut>)*n"      (exactly the input line of bin/oracle_rectcheck)
//   RECTILT mask k ox oy tx ty <pathsS> <pathsC>
//     same, after mapping every input vertex v to k*(v + (ox,oy)) + (tx,ty) in int64 (the caller keeps it in range);
//     the transformed input is what is echoed.
#include "common.h"
using namespace vfh;

static void run_all(uint32_t mask, const Paths64& s, const Paths64& c, std::ostream& os) {
  os << "RC "; put(os, s); os << ' '; put(os, c);
  int n = 0; for (int i = 0; i < 32; ++i) if (mask >> i & 1u) ++n;
  os << ' ' << n;
  for (int i = 0; i < 32; ++i) {
    if (!(mask >> i & 1u)) continue;
    int pc = i & 1, fr = (i >> 1) & 3, ct = (i >> 3) + 1;
    Clipper64 clp;
    clp.PreserveCollinear(pc != 0);
    clp.ReverseSolution(false);
    clp.AddSubject(s); clp.AddClip(c);
    Paths64 closed;
    bool ok = clp.Execute((ClipType)ct, (FillRule)fr, closed);
    os << ' ' << ct << ' ' << fr << ' ' << pc << ' ' << (ok ? 1 : 0) << ' ';
    put(os, closed);
  }
}

static void transform(Paths64& ps, int64_t k, int64_t ox, int64_t oy, int64_t tx, int64_t ty) {
  for (auto& p : ps) for (auto& v : p) { v.x = k * (v.x + ox) + tx; v.y = k * (v.y + oy) + ty; }
}

int main() {
  return main_loop([](Toks& t, std::ostream& os) {
    std::string cmd = t.next();
    if (cmd == "RECTIL") {
      uint32_t mask = (uint32_t)t.u64();
      Paths64 s = t.paths(), c = t.paths();
      run_all(mask, s, c, os);
    } else if (cmd == "RECTILT") {
      uint32_t mask = (uint32_t)t.u64();
      int64_t k = t.i64(), ox = t.i64(), oy = t.i64(), tx = t.i64(), ty = t.i64();
      Paths64 s = t.paths(), c = t.paths();
      transform(s, k, ox, oy, tx, ty); transform(c, k, ox, oy, tx, ty);
      run_all(mask, s, c, os);
    } else { os << "EXC unknown command " << cmd; }
  });
}
