// Harness for C12 (results depend only on the current inputs, not on an object's history).
// Line protocol (one case per line, one result line per case):
//
//   DEFS <nsets> <paths>*nsets <ncont> { <k> {set polytype open}*k }*ncont
//        defines the path sets and the ReuseableDataContainer64 recipes used by the following H/TR lines
//        (kept until the next DEFS).  -> "OK"
//   H <64|D> <op>*       interprets the history on used objects (up to 4 clippers, "@i" switches) and, at every
//        Execute, builds a *fresh* object from the abstract state (adds since the last Clear + current options),
//        executes the same call and compares bit for bit (return value, closed paths in order, open paths, tree
//        node for node).   -> "OK <nexec> <n non-empty results> <fnv64 of all results>"  |  "DIFF op=<i> <tok> USED <ser> FRESH <ser>"
//        ops: S<k> AddSubject(set k)  O<k> AddOpenSubject  C<k> AddClip  R<k> AddReuseableData(container k)
//             P<0|1> PreserveCollinear  V<0|1> ReverseSolution  X<ct><fr> Execute(paths)  T<ct><fr> Execute(tree)
//             L Clear  @<i> switch to clipper i
//   TR <op>*             Clipper64 only: prints after every op the concrete state the Coq model ObjectSM mirrors
//        (minima_list_ as ids in current order with polytype/open, minima_list_sorted_, has_open_paths_, options,
//        succeeded_, "scratch empty") and, for every add, the minima it appended (id x y polytype open) which are
//        the model's input.  Fed verbatim to bin/oracle_objsm, whose output line must be identical.
//   OFF <ml> <at> <pc> <rs> <delta> <ngroups> { <jt> <et> <paths> }*
//        whole object vs every group alone vs every path alone (same group parameters), plus Execute twice,
//        Execute(tree) vs fresh, Execute(paths) after Execute(tree), after another delta, after Clear + same paths.
//   OFFCB <cbmode> <same as OFF>   the same with a DeltaCallback64 installed (see cmd_off).
//   RC <lines01> <l> <t> <r> <b> <pathsA> <pathsB>     RectClip64 / RectClipLines64 object reuse and concatenation.
#include "common.h"
using namespace vfh;

struct ContRecipe { std::vector<std::array<int, 3>> adds; };
static std::vector<Paths64> g_sets;
static std::vector<ContRecipe> g_recipes;
static std::vector<std::unique_ptr<ReuseableDataContainer64>> g_conts;   // shared, read-only after DEFS

static void cmd_defs(Toks& t, std::ostream& os) {
  g_sets.clear(); g_recipes.clear(); g_conts.clear();
  int ns = t.i32();
  for (int i = 0; i < ns; ++i) g_sets.push_back(t.paths());
  int nc = t.i32();
  for (int i = 0; i < nc; ++i) {
    ContRecipe r; int k = t.i32();
    for (int j = 0; j < k; ++j) { int s = t.i32(), pt = t.i32(), op = t.i32(); r.adds.push_back({s, pt, op}); }
    g_recipes.push_back(r);
    auto c = std::make_unique<ReuseableDataContainer64>();
    for (auto& a : r.adds) c->AddPaths(g_sets.at(a[0]), a[1] ? PathType::Clip : PathType::Subject, a[2] != 0);
    g_conts.push_back(std::move(c));
  }
  os << "OK";
}

static PathsD to_d(const Paths64& ps) {       // exact: quarter units, ClipperD(2) scales by 128
  PathsD r; r.reserve(ps.size());
  for (auto& p : ps) { PathD q; q.reserve(p.size()); for (auto& v : p) q.emplace_back(v.x / 4.0, v.y / 4.0); r.push_back(q); }
  return r;
}

static void ser_tree(std::ostream& os, const PolyPath64& n) {
  os << '('; put(os, n.Polygon()); os << ' ' << n.Count();
  for (auto& c : n) { os << ' '; ser_tree(os, *c); }
  os << ')';
}
static void ser_tree(std::ostream& os, const PolyPathD& n) {
  os << '('; put(os, n.Polygon()); os << ' ' << hexd(n.Scale()) << ' ' << n.Count();
  for (auto& c : n) { os << ' '; ser_tree(os, *c); }
  os << ')';
}

struct AbsAdd { char kind; int k; };
struct AbsState { std::vector<AbsAdd> adds; bool pc = true, rs = false; };

template <class CL> struct Tr;
template <> struct Tr<Clipper64> {
  using PS = Paths64; using Tree = PolyTree64;
  static Clipper64* mk() { return new Clipper64(); }
  static PS conv(const Paths64& p) { return p; }
};
template <> struct Tr<ClipperD> {
  using PS = PathsD; using Tree = PolyTreeD;
  static ClipperD* mk() { return new ClipperD(2); }
  static PS conv(const Paths64& p) { return to_d(p); }
};

template <class CL> static void apply_add(CL& c, const AbsAdd& a) {
  switch (a.kind) {
    case 'S': c.AddSubject(Tr<CL>::conv(g_sets.at(a.k))); break;
    case 'O': c.AddOpenSubject(Tr<CL>::conv(g_sets.at(a.k))); break;
    case 'C': c.AddClip(Tr<CL>::conv(g_sets.at(a.k))); break;
    case 'R': c.AddReuseableData(*g_conts.at(a.k)); break;
  }
}

// the caller's result variables: a used object keeps writing into the same ones (the natural way to run several
// operations in sequence), the fresh object gets new ones -- what is in a result variable before the call must not matter
template <class CL> struct Res { typename Tr<CL>::PS closed, open, topen; typename Tr<CL>::Tree tr; };

template <class CL> static std::string exec_ser(CL& c, bool tree, int ct, int fr, bool* nonempty = nullptr, Res<CL>* keep = nullptr) {
  std::ostringstream os;
  Res<CL> local; Res<CL>& R = keep ? *keep : local;
  if (!tree) {
    bool r = c.Execute((ClipType)ct, (FillRule)fr, R.closed, R.open);
    os << "r=" << r << " C "; put(os, R.closed); os << " O "; put(os, R.open);
    if (nonempty) *nonempty = !R.closed.empty() || !R.open.empty();
  } else {
    bool r = c.Execute((ClipType)ct, (FillRule)fr, R.tr, R.topen);
    os << "r=" << r << " T "; ser_tree(os, R.tr); os << " O "; put(os, R.topen);
    if (nonempty) *nonempty = R.tr.Count() > 0 || !R.topen.empty();
  }
  os << " e=" << c.ErrorCode();
  return os.str();
}

static uint64_t fnv(uint64_t h, const std::string& s) { for (unsigned char ch : s) { h ^= ch; h *= 1099511628211ULL; } return h; }

template <class CL> static void run_history(Toks& t, std::ostream& os) {
  std::unique_ptr<CL> used[4]; AbsState abs[4]; Res<CL> res[4];
  int cur = 0; int nexec = 0, nne = 0; uint64_t h = 1469598103934665603ULL; int idx = 0;
  while (t.more()) {
    std::string tok = t.next(); char k = tok[0];
    if (k == '@') { cur = (tok[1] - '0') & 3; ++idx; continue; }
    if (!used[cur]) used[cur].reset(Tr<CL>::mk());
    CL& c = *used[cur]; AbsState& a = abs[cur];
    switch (k) {
      case 'S': case 'O': case 'C': case 'R': { AbsAdd ad{k, std::atoi(tok.c_str() + 1)}; apply_add(c, ad); a.adds.push_back(ad); break; }
      case 'P': a.pc = tok[1] != '0'; c.PreserveCollinear(a.pc); break;
      case 'V': a.rs = tok[1] != '0'; c.ReverseSolution(a.rs); break;
      case 'L': c.Clear(); a.adds.clear(); break;
      case 'X': case 'T': {
        int ct = tok[1] - '0', fr = tok[2] - '0';
        bool ne = false; std::string su = exec_ser(c, k == 'T', ct, fr, &ne, &res[cur]); nne += ne;
        std::unique_ptr<CL> f(Tr<CL>::mk());
        f->PreserveCollinear(a.pc); f->ReverseSolution(a.rs);
        for (auto& ad : a.adds) apply_add(*f, ad);
        std::string sf = exec_ser(*f, k == 'T', ct, fr);
        if (su != sf) { os << "DIFF op=" << idx << ' ' << tok << " USED " << su << " FRESH " << sf; return; }
        h = fnv(h, su); ++nexec; break;
      }
      default: throw std::runtime_error("bad op " + tok);
    }
    ++idx;
  }
  os << "OK " << nexec << ' ' << nne << ' ' << h;
}

// ---------------------------------------------------------------------------------------------- trace for ObjectSM
static void cmd_trace(Toks& t, std::ostream& os) {
  Clipper64 c;
  std::map<const LocalMinima*, long> ids; long next_id = 1;
  std::vector<std::string> ops; while (t.more()) ops.push_back(t.next());
  os << "TR " << ops.size();
  for (auto& tok : ops) {
    char k = tok[0];
    size_t before = c.minima_list_.size();
    switch (k) {
      case 'S': case 'O': case 'C': case 'R': { AbsAdd ad{k, std::atoi(tok.c_str() + 1)}; apply_add(c, ad); break; }
      case 'P': c.PreserveCollinear(tok[1] != '0'); break;
      case 'V': c.ReverseSolution(tok[1] != '0'); break;
      case 'L': c.Clear(); before = 0; break;
      case 'X': case 'T': {
        int ct = tok[1] - '0', fr = tok[2] - '0';
        if (k == 'X') { Paths64 a, b; c.Execute((ClipType)ct, (FillRule)fr, a, b); }
        else { PolyTree64 tr; Paths64 b; c.Execute((ClipType)ct, (FillRule)fr, tr, b); }
        break;
      }
      default: throw std::runtime_error("bad op " + tok);
    }
    os << ' ' << tok;
    // minima appended by this op (always at the tail: adds never reorder, only Reset sorts)
    bool is_add = (k == 'S' || k == 'O' || k == 'C' || k == 'R');
    size_t nnew = is_add ? c.minima_list_.size() - before : 0;
    os << ' ' << nnew;
    if (is_add)
      for (size_t i = before; i < c.minima_list_.size(); ++i) {
        const LocalMinima* lm = c.minima_list_[i].get();
        ids[lm] = next_id++;
        os << ' ' << ids[lm] << ' ' << lm->vertex->pt.x << ' ' << lm->vertex->pt.y << ' '
           << (lm->polytype == PathType::Clip ? 1 : 0) << ' ' << (lm->is_open ? 1 : 0);
      }
    os << ' ' << c.minima_list_.size();
    for (auto& lm : c.minima_list_) {
      auto it = ids.find(lm.get());
      os << ' ' << (it == ids.end() ? -1 : it->second) << ' ' << (lm->polytype == PathType::Clip ? 1 : 0) << ' ' << (lm->is_open ? 1 : 0);
    }
    bool scratch_empty = c.actives_ == nullptr && c.scanline_list_.empty() && c.intersect_nodes_.empty() &&
                         c.outrec_list_.empty() && c.horz_seg_list_.empty() && c.horz_join_list_.empty();
    os << ' ' << c.minima_list_sorted_ << ' ' << c.has_open_paths_ << ' ' << c.preserve_collinear_ << ' '
       << c.reverse_solution_ << ' ' << c.succeeded_ << ' ' << scratch_empty;
  }
}

// ---------------------------------------------------------------------------------------------- offset
struct GroupIn { int jt, et; Paths64 paths; };

static bool has_ub_input(const std::vector<GroupIn>& gs) {
  // DESIGN 9.4: an empty path in a group with a non-Polygon end type reaches path[0] / norms[0] (UB, owned by C10)
  for (auto& g : gs) if (g.et != (int)EndType::Polygon) for (auto& p : g.paths) if (p.empty()) return true;
  return false;
}

// cbmode 0: Execute(delta).  1: a DeltaCallback64 returning the constant |delta| (the used object gets it through
// Execute(cb, paths), the fresh objects through SetDeltaCallback).  2: a callback returning |delta| + 0.5 * path_normals.size()
// (what the callback is *shown*).  3: 0 at the vertices j = 1 mod 3, |delta| elsewhere.  4: 0 at the first and the last vertex
// of every path.  5: 0 everywhere.
static void cmd_off(Toks& t, std::ostream& os, int cbmode) {
  double ml = t.dbl(), at = t.dbl(); bool pc = t.b(), rs = t.b(); double delta = t.dbl();
  int ng = t.i32(); std::vector<GroupIn> gs;
  for (int i = 0; i < ng; ++i) { GroupIn g; g.jt = t.i32(); g.et = t.i32(); g.paths = t.paths(); gs.push_back(std::move(g)); }
  if (has_ub_input(gs)) { os << "SKIP empty-path-in-open-group"; return; }
  auto add_all = [&](ClipperOffset& co) { for (auto& g : gs) co.AddPaths(g.paths, (JoinType)g.jt, (EndType)g.et); };
  DeltaCallback64 cb = nullptr;
  if (cbmode == 1) cb = [delta](const Path64&, const PathD&, size_t, size_t) { return std::fabs(delta); };
  if (cbmode == 2) cb = [delta](const Path64&, const PathD& n, size_t, size_t) { return std::fabs(delta) + 0.5 * (double)n.size(); };
  if (cbmode == 3) cb = [delta](const Path64&, const PathD&, size_t j, size_t) { return (j % 3 == 1) ? 0.0 : std::fabs(delta); };
  if (cbmode == 4) cb = [delta](const Path64& p, const PathD&, size_t j, size_t) { return (j == 0 || j + 1 == p.size()) ? 0.0 : std::fabs(delta); };
  if (cbmode == 5) cb = [](const Path64&, const PathD&, size_t, size_t) { return 0.0; };
  auto setup = [&](ClipperOffset& co) { if (cbmode) co.SetDeltaCallback(cb); };
  const double d = cbmode ? 1.0 : delta;      // Execute(cb, paths) calls Execute(1.0, paths)
  // result containers that are not empty when they are passed in (what they hold must not matter)
  const Paths64 junk{ Path64{ {-7, -7}, {9, -7}, {9, 9} }, Path64{ {1, 1} } };
  auto fill_tree = [](PolyTree64& tr) { ClipperOffset x; x.AddPath(Path64{ {0, 0}, {50, 0}, {50, 50}, {0, 50} }, JoinType::Miter, EndType::Polygon); x.Execute(5.0, tr); };
  Paths64 W, W2 = junk, W3, W4, W5, WO; std::string T0, T1;
  bool ov = true;
  {
    ClipperOffset co(ml, at, pc, rs); add_all(co);
    // with a callback: the Execute(cb, paths) overload on the fresh object; it leaves the callback installed, which is what
    // the Executes that follow on this object run with (the fresh objects they are compared with get it by SetDeltaCallback)
    if (cbmode) co.Execute(cb, W); else co.Execute(d, W);
    if (cbmode) { ClipperOffset cf(ml, at, pc, rs); setup(cf); add_all(cf); cf.Execute(1.0, WO); ov = (WO == W); }
    co.Execute(d, W2);
    { PolyTree64 tr; fill_tree(tr); co.Execute(d, tr); std::ostringstream s; ser_tree(s, tr); T1 = s.str(); }
    co.Execute(d, W3);
    { Paths64 tmp; co.Execute(cbmode ? 1.0 : -1.75 * delta, tmp); }   // another delta in between
    co.Execute(d, W4);
    co.Clear(); add_all(co);                                           // Clear, then the same paths again
    co.Execute(d, W5);
    ClipperOffset co2(ml, at, pc, rs); setup(co2); add_all(co2);
    { PolyTree64 tr; co2.Execute(d, tr); std::ostringstream s; ser_tree(s, tr); T0 = s.str(); }
  }
  // so / so2: the options supplied through the public setters (on an object constructed with other values; so2: after that
  // object has executed once with the other values) instead of through the constructor
  Paths64 S1, S2;
  {
    const double ml0 = (ml <= 2.0) ? 5.0 : 1.0, at0 = (at > 0.0) ? 0.0 : 3.0;
    { ClipperOffset co(ml0, at0, !pc, !rs); setup(co); add_all(co);
      co.MiterLimit(ml); co.ArcTolerance(at); co.PreserveCollinear(pc); co.ReverseSolution(rs); co.Execute(d, S1); }
    { ClipperOffset co(ml0, at0, !pc, !rs); setup(co); add_all(co); { Paths64 tmp; co.Execute(d, tmp); }
      co.MiterLimit(ml); co.ArcTolerance(at); co.PreserveCollinear(pc); co.ReverseSolution(rs); co.Execute(d, S2); }
  }
  // bx: do the repeated results at least have the same bounding boxes ring by ring (same radii, other vertex counts)?
  auto boxes = [](const Paths64& ps) {
    std::vector<std::array<int64_t, 4>> b;
    for (auto& p : ps) { Rect64 r = GetBounds(p); b.push_back({r.left, r.top, r.right, r.bottom}); }
    std::sort(b.begin(), b.end()); return b; };
  // (within one unit per coordinate: another step count moves the extreme vertices of a circle by less than that,
  //  another radius -- the callback of cbmode 2 adds half a unit per normal it is shown -- by more)
  auto near = [&](const Paths64& a, const Paths64& b) {
    auto x = boxes(a), y = boxes(b);
    if (x.size() != y.size()) return false;
    for (size_t i = 0; i < x.size(); ++i) for (int k = 0; k < 4; ++k) if (std::llabs(x[i][k] - y[i][k]) > 1) return false;
    return true; };
  bool bx = near(W2, W) && near(W3, W) && near(W4, W) && near(W5, W);
  os << "OK ov=" << ov << " e2=" << (W2 == W) << " t=" << (T0 == T1) << " e3=" << (W3 == W) << " d2=" << (W4 == W) << " cl=" << (W5 == W) << " so=" << (S1 == W) << " so2=" << (S2 == W) << " bx=" << bx << " W "; put(os, W);
  os << " NG " << gs.size();
  for (auto& g : gs) {
    Paths64 G; { ClipperOffset co(ml, at, pc, rs); setup(co); co.AddPaths(g.paths, (JoinType)g.jt, (EndType)g.et); co.Execute(d, G); }
    os << " G "; put(os, G); os << " NP " << g.paths.size();
    for (auto& p : g.paths) {
      Paths64 A; { ClipperOffset co(ml, at, pc, rs); setup(co); co.AddPaths(Paths64(1, p), (JoinType)g.jt, (EndType)g.et); co.Execute(d, A); }
      os << " A "; put(os, A);
    }
  }
}

// ---------------------------------------------------------------------------------------------- rect clip
static void cmd_rc(Toks& t, std::ostream& os) {
  bool lines = t.b(); int64_t l = t.i64(), tp = t.i64(), r = t.i64(), b = t.i64();
  Paths64 A = t.paths(), B = t.paths();
  Rect64 rect(l, tp, r, b);
  Paths64 AB = A; AB.insert(AB.end(), B.begin(), B.end());
  Paths64 seqB, freshA, freshB, cat, rep;
  if (!lines) {
    RectClip64 u(rect); u.Execute(A); seqB = u.Execute(B); rep = u.Execute(B);
    { RectClip64 f(rect); freshB = f.Execute(B); } { RectClip64 f(rect); freshA = f.Execute(A); } { RectClip64 f(rect); cat = f.Execute(AB); }
  } else {
    RectClipLines64 u(rect); u.Execute(A); seqB = u.Execute(B); rep = u.Execute(B);
    { RectClipLines64 f(rect); freshB = f.Execute(B); } { RectClipLines64 f(rect); freshA = f.Execute(A); } { RectClipLines64 f(rect); cat = f.Execute(AB); }
  }
  Paths64 want = freshA; want.insert(want.end(), freshB.begin(), freshB.end());
  bool ok = seqB == freshB && rep == freshB && cat == want;
  os << (ok ? "OK" : "DIFF") << " seq=" << (seqB == freshB) << " rep=" << (rep == freshB) << " cat=" << (cat == want);
  if (!ok) { os << " SEQ "; put(os, seqB); os << " FRESHB "; put(os, freshB); os << " CAT "; put(os, cat); os << " WANT "; put(os, want); }
  else os << " n=" << freshA.size() + freshB.size();
}

int main(int argc, char** argv) {
  if (argc > 1) {   // optional definitions file (first line = DEFS ...)
    std::ifstream f(argv[1]); std::string line;
    if (std::getline(f, line)) { Toks t(line); t.next(); std::ostringstream d; cmd_defs(t, d); }
  }
  // own loop (not vfh::main_loop): flush after every line so that a crash inside the library can be attributed
  // to the history that caused it (the driver looks at how many result lines arrived)
  std::ios::sync_with_stdio(false);
  std::string line;
  while (std::getline(std::cin, line)) {
    std::ostringstream os;
    try {
      Toks t(line);
      std::string c = t.next();
      if (c == "DEFS") cmd_defs(t, os);
      else if (c == "H") { std::string v = t.next(); if (v == "D") run_history<ClipperD>(t, os); else run_history<Clipper64>(t, os); }
      else if (c == "TR") cmd_trace(t, os);
      else if (c == "OFF") cmd_off(t, os, 0);
      else if (c == "OFFCB") { int m = t.i32(); cmd_off(t, os, m); }
      else if (c == "RC") cmd_rc(t, os);
      else os << "ERR unknown command " << c;
    }
    catch (const std::exception& e) { os.str(""); os << "EXC " << e.what(); }
    catch (...) { os.str(""); os << "EXC unknown"; }
    std::cout << os.str() << '\n' << std::flush;
  }
  return 0;
}
