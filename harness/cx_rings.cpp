// Ring finalisation driver (property C03).  One case per line:
//   RINGS ct fr pc rs <pathsS> <pathsO> <pathsC>
//       runs ExecuteInternal(ct, fr, false) (what Clipper64::Execute(..., Paths64&, Paths64&) does), dumps every raw
//       OutRec ring, then calls BuildPaths64 and CleanUp exactly like Execute:
//       -> "ok|fail R <nrings> (idx is_open <n> x y ...)* P <closed paths> <open paths>"
//          a ring is listed from outrec->pts in next order; n = 0 when pts == nullptr
//   SYN pc rs <nrings> (is_open <path>)*
//       builds synthetic OutRecs holding the given rings (listed from pts in next order) and calls BuildPaths64
//       -> "ok P <closed paths> <open paths>"
//   LEAF a b c d e        (5 points)  bit-level dump of the double leaves used by ring finalisation
//       -> "si <0/1> ip <x y> tri <hex> dot <hex> cross <hex>"   SegmentsIntersect(a,b,c,d), GetSegmentIntersectPt(a,b,c,d),
//          AreaTriangle(a,b,c), DotProduct(a,b,c), CrossProduct(a,b,c)
//   AREA <path>           -> hex double of Area(OutPt*) over a ring holding the path (from its first node)
#include "common.h"
using namespace vfh;

static void dump_ring(std::ostream& os, const OutRec* r) {
  os << ' ' << r->idx << ' ' << (r->is_open ? 1 : 0) << ' ';
  if (!r->pts) { os << 0; return; }
  size_t n = 0; const OutPt* op = r->pts;
  do { ++n; op = op->next; } while (op != r->pts);
  os << n;
  op = r->pts;
  do { os << ' ' << op->pt.x << ' ' << op->pt.y; op = op->next; } while (op != r->pts);
}

static OutPt* make_ring(const Path64& p, OutRec* r) {
  OutPt* first = nullptr; OutPt* last = nullptr;
  for (const auto& v : p) {
    OutPt* op = new OutPt(v, r);
    if (!first) { first = op; last = op; }
    else { last->next = op; op->prev = last; last = op; }
  }
  if (first) { last->next = first; first->prev = last; }
  return first;
}

int main() {
  return main_loop([](Toks& t, std::ostream& os) {
    std::string cmd = t.next();
    if (cmd == "RINGS") {
      int ct = t.i32(), fr = t.i32(); bool pc = t.b(), rs = t.b();
      Paths64 s = t.paths(), o = t.paths(), c = t.paths();
      Clipper64 clp;
      clp.PreserveCollinear(pc);
      clp.ReverseSolution(rs);
      clp.AddSubject(s); clp.AddOpenSubject(o); clp.AddClip(c);
      Paths64 closed, open;
      bool okint = clp.ExecuteInternal((ClipType)ct, (FillRule)fr, false);
      std::ostringstream rings; size_t nr = 0;
      if (okint) {
        nr = clp.outrec_list_.size();
        for (const OutRec* r : clp.outrec_list_) dump_ring(rings, r);
        clp.BuildPaths64(closed, &open);
      }
      clp.CleanUp();
      os << (clp.succeeded_ ? "ok" : "fail") << " R " << nr << rings.str() << " P "; put(os, closed); os << ' '; put(os, open);
    } else if (cmd == "SYN") {
      bool pc = t.b(), rs = t.b();
      size_t n = (size_t)t.i64();
      Clipper64 clp;
      clp.PreserveCollinear(pc);
      clp.ReverseSolution(rs);
      for (size_t i = 0; i < n; ++i) {
        bool is_open = t.b();
        Path64 p = t.path();
        OutRec* r = clp.NewOutRec();
        r->is_open = is_open;
        r->pts = make_ring(p, r);
      }
      Paths64 closed, open;
      clp.BuildPaths64(closed, &open);
      clp.CleanUp();
      os << "ok P "; put(os, closed); os << ' '; put(os, open);
    } else if (cmd == "LEAF") {
      Point64 p[5];
      for (auto& q : p) { q.x = t.i64(); q.y = t.i64(); }
      Point64 ip;
      bool si = SegmentsIntersect(p[0], p[1], p[2], p[3]);
      GetSegmentIntersectPt(p[0], p[1], p[2], p[3], ip);
      os << "si " << (si ? 1 : 0) << " ip " << ip.x << ' ' << ip.y
         << " tri " << hexd(AreaTriangle(p[0], p[1], p[2]))
         << " dot " << hexd(DotProduct(p[0], p[1], p[2]))
         << " cross " << hexd(CrossProduct(p[0], p[1], p[2]));
    } else if (cmd == "AREA") {
      Path64 p = t.path();
      OutRec r;
      OutPt* op = make_ring(p, &r);
      double a = op ? Area(op) : 0.0;
      if (op) { op->prev->next = nullptr; while (op) { OutPt* tmp = op; op = op->next; delete tmp; } }
      os << hexd(a);
    } else { os << "EXC unknown command " << cmd; }
  });
}
