// C10 -- the real BuildIntersectList / ProcessIntersectList on synthetic AELs (HM+X tie for coq/model/Inversions.v).
//
//   AEL <process 0|1> <top_y> <bot_y> <n> (botx boty topx topy wind_dx join)*n
//        n Active nodes, given in AEL order (identity = position).  join: 0 none, 1 joined with the edge on its left
//        (JoinWith::Left here, JoinWith::Right there; only used with process=0 because IntersectEdges splits joins).
//        All edges are closed subject edges that never contribute (ClipType::Intersection without clip paths), so
//        IntersectEdges only updates wind counts and the AEL order is changed by SwapPositionsInAEL alone.
//   -> OK cx <n> curr_x.. | sel <n> ids.. | nodes <m> (e1 e2 x y)* | proc <m> (e1 e2)* | ael <n> ids.. | links <0|1> | ret <0|1>
//        cx    curr_x of every edge after AdjustCurrXAndCopyToSEL (by identity)
//        sel   SEL order after BuildIntersectList
//        nodes intersect_nodes_ as left by BuildIntersectList (emission order)
//        proc  intersect_nodes_ after ProcessIntersectList (= processing order); "proc 0" when process=0 or no nodes
//        ael   AEL order afterwards; links: prev/next pointers mutually consistent and acyclic
// The Active nodes are allocated with new and released by the library's own ~ClipperBase (DeleteEdges), so a
// corrupted AEL shows up as a sanitizer report or a hang.
#include "common.h"
using namespace vfh;

int main() {
  return main_loop([](Toks& t, std::ostream& os) {
    std::string cmd = t.next();
    if (cmd != "AEL") { os << "EXC unknown command " << cmd; return; }
    bool process = t.b(); int64_t top_y = t.i64(), bot_y = t.i64(); int n = t.i32();
    std::vector<Vertex> verts((size_t)n + 1);
    std::vector<std::unique_ptr<LocalMinima>> lms;
    std::vector<Active*> es;
    std::unordered_map<const Active*, int> id;
    Clipper64 clp;
    for (int i = 0; i < n; ++i) {
      int64_t bx = t.i64(), by = t.i64(), tx = t.i64(), ty = t.i64(); int wdx = t.i32(), join = t.i32();
      Active* e = new Active();
      e->bot = Point64(bx, by); e->top = Point64(tx, ty); e->curr_x = bx; SetDx(*e);
      e->wind_dx = wdx >= 0 ? 1 : -1; e->wind_cnt = (i & 1); e->wind_cnt2 = 0;
      verts[(size_t)i].pt = e->top; verts[(size_t)i].next = &verts[(size_t)i]; verts[(size_t)i].prev = &verts[(size_t)i];
      e->vertex_top = &verts[(size_t)i];
      lms.push_back(std::make_unique<LocalMinima>(&verts[(size_t)n], PathType::Subject, false));
      e->local_min = lms.back().get();
      e->is_left_bound = (i & 1) == 0;
      if (join == 1 && i > 0 && es.back()->join_with == JoinWith::NoJoin) { e->join_with = JoinWith::Left; es.back()->join_with = JoinWith::Right; }
      e->prev_in_ael = es.empty() ? nullptr : es.back();
      if (!es.empty()) es.back()->next_in_ael = e;
      id[e] = i; es.push_back(e);
    }
    clp.actives_ = es.empty() ? nullptr : es[0];
    clp.sel_ = nullptr;
    clp.bot_y_ = bot_y;
    clp.cliptype_ = ClipType::Intersection; clp.fillrule_ = FillRule::EvenOdd; clp.using_polytree_ = false;
    clp.has_open_paths_ = false; clp.succeeded_ = true;

    bool ret = clp.BuildIntersectList(top_y);
    os << "OK cx " << n; for (Active* e : es) os << ' ' << e->curr_x;
    // SEL order (only meaningful when the list was copied, i.e. n >= 2)
    std::vector<int> sel;
    if (n >= 2) { size_t guard = 0; for (Active* e = clp.sel_; e && guard <= (size_t)n; e = e->next_in_sel, ++guard) sel.push_back(id.count(e) ? id[e] : -1); }
    else for (int i = 0; i < n; ++i) sel.push_back(i);
    os << " | sel " << sel.size(); for (int v : sel) os << ' ' << v;
    os << " | nodes " << clp.intersect_nodes_.size();
    for (auto& nd : clp.intersect_nodes_) os << ' ' << id[nd.edge1] << ' ' << id[nd.edge2] << ' ' << nd.pt.x << ' ' << nd.pt.y;
    if (process && ret) {
      clp.ProcessIntersectList();
      os << " | proc " << clp.intersect_nodes_.size();
      for (auto& nd : clp.intersect_nodes_) os << ' ' << id[nd.edge1] << ' ' << id[nd.edge2];
    } else os << " | proc 0";
    clp.intersect_nodes_.clear();
    std::vector<int> ael; bool links = true; size_t guard = 0; Active* prev = nullptr;
    for (Active* e = clp.actives_; e && guard <= (size_t)n + 1; e = e->next_in_ael, ++guard) {
      ael.push_back(id.count(e) ? id[e] : -1);
      if (e->prev_in_ael != prev) links = false;
      prev = e;
    }
    if (guard > (size_t)n) links = false;
    os << " | ael " << ael.size(); for (int v : ael) os << ' ' << v;
    os << " | links " << (links ? 1 : 0) << " | ret " << (ret ? 1 : 0) << " | ok " << (clp.succeeded_ ? 1 : 0) << " | outrecs " << clp.outrec_list_.size();
    if (!links) { clp.actives_ = nullptr; for (Active* e : es) delete e; }   // do not let the destructor walk a broken list
    // otherwise ~ClipperBase -> Clear -> CleanUp -> DeleteEdges(actives_) releases the nodes
  });
}
