// C10 -- every public entry point of Clipper2 under the sanitizers, one case per input line, each case in a
// forked child with a wall-clock watchdog, an RSS watchdog and leak accounting.
//
// Output: exactly one line per input line:
//     <STATUS> <entry> <ms> <detail>
//   STATUS  OK     the operation returned; <detail> is a small digest of the result
//           EXC    an exception reached the caller: <detail> = "clipper2 <what>" | "bad_alloc" | "std <what>"
//           SAN    a sanitizer report was written (ASan/UBSan; the child may have continued for recoverable UBSan
//                  checks); <detail> = the report, newlines replaced by " | "
//           LEAK   allocated-bytes accounting differs after the operation AND LeakSanitizer confirms; <detail> =
//                  "[after-return] <digest>" or "[after-exception] <what>", then " || " and the LeakSanitizer report
//           CRASH  the child died from a signal / unexpected exit code without a sanitizer report
//           HANG   CPU-time limit (--timeout-ms of CPU time, RLIMIT_CPU) or 8x that in wall-clock time without a progress
//                  message exceeded (child killed)
//           MEM    resident-set limit exceeded (child killed)
// Options: --timeout-ms N (default 10000)  --rss-mb N (default 2048)  --nofork (debugging: run in-process)
//
// The commands are listed in run_case() below.  Paths: "<npaths> <n> x y x y ... <n> ..." (vf.fmt_paths); a single path
// is "<n> x y ...".  Doubles are read with strtod (decimal, hex float, nan, inf).
#include "common.h"
#include "clipper2/clipper.export.h"
#include <unistd.h>
#include <fcntl.h>
#include <poll.h>
#include <sys/resource.h>
#include <sys/time.h>
#include <sys/wait.h>
#include <unistd.h>

#if defined(__SANITIZE_ADDRESS__)
extern "C" size_t __sanitizer_get_current_allocated_bytes();
extern "C" int __lsan_do_recoverable_leak_check();
#define HAVE_ASAN 1
#else
#define HAVE_ASAN 0
#endif

using namespace vfh;

// ------------------------------------------------------------------------------------------------ helpers
static std::string g_entry = "?";
static int g_announce_fd = -1;
static void (*g_after_entry)() = nullptr;   // cx_newfail.cpp: arms the allocation-failure injection once the input is parsed
static void (*g_before_output)() = nullptr; // cx_newfail.cpp: disarms it before the harness prints the digest
static bool g_no_iostream = false;          // cx_newfail.cpp: std::ostream swallows bad_alloc (badbit), so tree printing is skipped
// names the public entry point of the current case; in a forked child the name is sent to the parent BEFORE the
// operation runs, so that a crash/hang/sanitizer abort is attributed to the entry point.
static void entry(const std::string& name) {
  g_entry = name;
  if (g_announce_fd >= 0) { std::string m = "@" + name + "\n"; ssize_t w = write(g_announce_fd, m.data(), m.size()); (void)w; }
  if (g_after_entry) g_after_entry();
}
struct Digest {
  uint64_t h = 1469598103934665603ull; size_t n = 0;
  void add(uint64_t v) { h = (h ^ v) * 1099511628211ull; ++n; }
  void addd(double d) { uint64_t u; std::memcpy(&u, &d, 8); add(u); }
};
static Digest g_dg;
static void dg(const Path64& p) { g_dg.add(p.size()); for (auto& v : p) { g_dg.add((uint64_t)v.x); g_dg.add((uint64_t)v.y); } }
static void dg(const Paths64& ps) { g_dg.add(ps.size()); for (auto& p : ps) dg(p); }
static void dg(const PathD& p) { g_dg.add(p.size()); for (auto& v : p) { g_dg.addd(v.x); g_dg.addd(v.y); } }
static void dg(const PathsD& ps) { g_dg.add(ps.size()); for (auto& p : ps) dg(p); }

#ifdef USINGZ
static void set_z(Paths64& ps, int64_t base) { int64_t k = base; for (auto& p : ps) for (auto& v : p) v.z = ++k; }
static void set_z(Path64& p, int64_t base) { int64_t k = base; for (auto& v : p) v.z = ++k; }
static void set_z(PathsD& ps, int64_t base) { int64_t k = base; for (auto& p : ps) for (auto& v : p) v.z = ++k; }
static void set_z(PathD& p, int64_t base) { int64_t k = base; for (auto& v : p) v.z = ++k; }
static size_t g_zcalls = 0;
static void zcb64(const Point64& b1, const Point64& t1, const Point64& b2, const Point64& t2, Point64& ip) { ++g_zcalls; ip.z = b1.z ^ t1.z ^ b2.z ^ t2.z; }
static void zcbd(const PointD& b1, const PointD& t1, const PointD& b2, const PointD& t2, PointD& ip) { ++g_zcalls; ip.z = b1.z + t2.z; }
#else
template <typename T> static void set_z(T&, int64_t) {}
#endif

static JoinType jt_of(int i) { return static_cast<JoinType>(i); }   // callers pass 0..3 only (enum class: other values are caller UB territory)
static EndType et_of(int i) { return static_cast<EndType>(i); }     // 0..4 only

static void walk_tree(const PolyPath64& pp, int depth) {
  if (depth > 100000) return;
  for (const auto& ch : pp) { dg(ch->Polygon()); g_dg.add(ch->IsHole()); g_dg.add(ch->Level()); g_dg.add(ch->Count()); if (ch->Parent() != &pp) g_dg.add(0xBAD); walk_tree(*ch, depth + 1); }
}
static void walk_tree(const PolyPathD& pp, int depth) {
  if (depth > 100000) return;
  for (const auto& ch : pp) { dg(ch->Polygon()); g_dg.add(ch->IsHole()); g_dg.add(ch->Count()); walk_tree(*ch, depth + 1); }
}

// C arrays for the export layer, written independently of the library's own Create* functions
static const int VD = EXPORT_VERTEX_DIMENSIONALITY;
template <typename T, typename P> static std::vector<T> c_paths(const std::vector<std::vector<P>>& ps) {
  size_t len = 2; for (auto& p : ps) len += 2 + p.size() * VD;
  std::vector<T> a; a.reserve(len);
  a.push_back((T)len); a.push_back((T)ps.size());
  for (auto& p : ps) { a.push_back((T)p.size()); a.push_back((T)0); for (auto& v : p) { a.push_back((T)v.x); a.push_back((T)v.y); if (VD == 3) a.push_back((T)0); } }
  return a;
}
template <typename T, typename P> static std::vector<T> c_path(const std::vector<P>& p) {
  std::vector<T> a; a.push_back((T)p.size()); a.push_back((T)0);
  for (auto& v : p) { a.push_back((T)v.x); a.push_back((T)v.y); if (VD == 3) a.push_back((T)0); }
  return a;
}
// read back a CPaths result: every element inside [0, A) is touched (ASan checks the allocation bounds)
template <typename T> static void walk_cpaths(const T* a) {
  if (!a) { g_dg.add(0); return; }
  size_t A = (size_t)a[0], C = (size_t)a[1], i = 2;
  g_dg.add(A); g_dg.add(C);
  for (size_t k = 0; k < C; ++k) {
    size_t n = (size_t)a[i]; i += 2; g_dg.add(n);
    for (size_t j = 0; j < n * VD; ++j) g_dg.addd((double)a[i++]);
  }
  if (i != A) g_dg.add(0xBADBAD);   // length field inconsistent with contents (reported through the digest only)
  // touch the last element the header claims to exist
  if (A > 0) g_dg.addd((double)a[A - 1]);
}
template <typename T> static size_t walk_cpolypath(const T* a, size_t i) {
  size_t n = (size_t)a[i], c = (size_t)a[i + 1]; i += 2; g_dg.add(n); g_dg.add(c);
  for (size_t j = 0; j < n * VD; ++j) g_dg.addd((double)a[i++]);
  for (size_t k = 0; k < c; ++k) i = walk_cpolypath(a, i);
  return i;
}
template <typename T> static void walk_ctree(const T* a) {
  if (!a) { g_dg.add(0); return; }
  size_t A = (size_t)a[0], C = (size_t)a[1], i = 2;
  for (size_t k = 0; k < C; ++k) i = walk_cpolypath(a, i);
  if (i != A) g_dg.add(0xBADBAD);
  if (A > 0) g_dg.addd((double)a[A - 1]);
}

static Rect64 rd_rect(Toks& t) { int64_t l = t.i64(), tp = t.i64(), r = t.i64(), b = t.i64(); return Rect64(l, tp, r, b); }
static RectD rd_rectd(Toks& t) { double l = t.dbl(), tp = t.dbl(), r = t.dbl(), b = t.dbl(); return RectD(l, tp, r, b); }

// ------------------------------------------------------------------------------------------------ commands
static void run_case(Toks& t, std::ostream& os) {
  const std::string cmd = t.next();
    if (cmd == "B64") {
    // B64 ct fr pc rs mode reuse <S> <O> <C>     mode bit0: PolyTree, bit1: overload with open solution; reuse 0..3
    int ct = t.i32(), fr = t.i32(); bool pc = t.b(), rs = t.b(); int mode = t.i32(), reuse = t.i32();
    Paths64 s = t.paths(), o = t.paths(), c = t.paths();
    set_z(s, 0); set_z(o, 1000); set_z(c, 2000);
    entry((mode & 1) ? "Clipper64.Execute.PolyTree" : "Clipper64.Execute.Paths");
    Clipper64 clp;
    clp.PreserveCollinear(pc); clp.ReverseSolution(rs);
#ifdef USINGZ
    if (mode & 4) clp.SetZCallback(zcb64);
#endif
    ReuseableDataContainer64 rdc;
    if (reuse == 3) {
      entry(g_entry + ".reuseable");
      rdc.AddPaths(s, PathType::Subject, false); rdc.AddPaths(o, PathType::Subject, true); rdc.AddPaths(c, PathType::Clip, false);
      clp.AddReuseableData(rdc);
    } else { clp.AddSubject(s); clp.AddOpenSubject(o); clp.AddClip(c); }
    auto exec = [&](int ct_) {
      bool ok;
      if (mode & 1) {
        PolyTree64 tree; Paths64 open;
        ok = (mode & 2) ? clp.Execute((ClipType)ct_, (FillRule)fr, tree, open) : clp.Execute((ClipType)ct_, (FillRule)fr, tree);
        dg(open); walk_tree(tree, 0); dg(PolyTreeToPaths64(tree)); g_dg.add(CheckPolytreeFullyContainsChildren(tree)); g_dg.addd(tree.Area());
        if (!g_no_iostream) { std::ostringstream tmp; tmp << tree; g_dg.add(tmp.str().size()); }
      } else {
        Paths64 closed, open;
        ok = (mode & 2) ? clp.Execute((ClipType)ct_, (FillRule)fr, closed, open) : clp.Execute((ClipType)ct_, (FillRule)fr, closed);
        dg(closed); dg(open);
      }
      g_dg.add(ok); g_dg.add(clp.ErrorCode());
    };
    exec(ct);
    if (reuse == 1) { exec(ct % 4 + 1); exec(0); }
    if (reuse == 2) { clp.Clear(); clp.AddSubject(c); clp.AddClip(s); exec(ct); clp.Clear(); exec(ct); }
    if (reuse == 3) { Clipper64 clp2; clp2.AddReuseableData(rdc); Paths64 r; clp2.Execute((ClipType)ct, (FillRule)fr, r); dg(r); rdc.Clear(); }
  } else if (cmd == "BSEQ") {
    // BSEQ ct fr pc rs mode k (kind <paths>)*k      paths are added in the given order, item by item (the order of the
    //   local minima list and therefore the order in which coincident edges meet depends on it)
    //   kind 0 AddSubject  1 AddOpenSubject  2 AddClip ; +4: through its own ReuseableDataContainer64 ;
    //   8: the most recently created container is added to the clipper AGAIN (its paths argument is ignored) ; mode as in B64
    int ct = t.i32(), fr = t.i32(); bool pc = t.b(), rs = t.b(); int mode = t.i32(), k = t.i32();
    std::vector<std::pair<int, Paths64>> items;
    for (int i = 0; i < k; ++i) { int kind = t.i32(); Paths64 ps = t.paths(); set_z(ps, 100 * i); items.emplace_back(kind, std::move(ps)); }
    entry((mode & 1) ? "Clipper64.Execute.PolyTree.seq" : "Clipper64.Execute.Paths.seq");
    std::vector<std::unique_ptr<ReuseableDataContainer64>> conts;
    Clipper64 clp;
    clp.PreserveCollinear(pc); clp.ReverseSolution(rs);
#ifdef USINGZ
    if (mode & 4) clp.SetZCallback(zcb64);
#endif
    for (auto& it : items) {
      int kd = it.first & 3;
      if (it.first & 8) { if (!conts.empty()) clp.AddReuseableData(*conts.back()); }
      else if (it.first & 4) {
        conts.emplace_back(new ReuseableDataContainer64());
        conts.back()->AddPaths(it.second, kd == 2 ? PathType::Clip : PathType::Subject, kd == 1);
        clp.AddReuseableData(*conts.back());
      } else if (kd == 0) clp.AddSubject(it.second); else if (kd == 1) clp.AddOpenSubject(it.second); else clp.AddClip(it.second);
    }
    bool ok;
    if (mode & 1) {
      PolyTree64 tree; Paths64 open;
      ok = (mode & 2) ? clp.Execute((ClipType)ct, (FillRule)fr, tree, open) : clp.Execute((ClipType)ct, (FillRule)fr, tree);
      dg(open); walk_tree(tree, 0); dg(PolyTreeToPaths64(tree)); g_dg.addd(tree.Area());
    } else {
      Paths64 closed, open;
      ok = (mode & 2) ? clp.Execute((ClipType)ct, (FillRule)fr, closed, open) : clp.Execute((ClipType)ct, (FillRule)fr, closed);
      dg(closed); dg(open);
    }
    g_dg.add(ok); g_dg.add(clp.ErrorCode());
  } else if (cmd == "BD") {
    // BD prec ct fr pc rs mode reuse <S> <O> <C>   (double paths)
    int prec = t.i32(), ct = t.i32(), fr = t.i32(); bool pc = t.b(), rs = t.b(); int mode = t.i32(), reuse = t.i32();
    PathsD s = t.pathsd(), o = t.pathsd(), c = t.pathsd();
    set_z(s, 0); set_z(o, 1000); set_z(c, 2000);
    entry((mode & 1) ? "ClipperD.Execute.PolyTree" : "ClipperD.Execute.Paths");
    ClipperD clp(prec);
    clp.PreserveCollinear(pc); clp.ReverseSolution(rs);
#ifdef USINGZ
    if (mode & 4) clp.SetZCallback(zcbd);
#endif
    clp.AddSubject(s); clp.AddOpenSubject(o); clp.AddClip(c);
    auto exec = [&](int ct_) {
      bool ok;
      if (mode & 1) {
        PolyTreeD tree; PathsD open;
        ok = (mode & 2) ? clp.Execute((ClipType)ct_, (FillRule)fr, tree, open) : clp.Execute((ClipType)ct_, (FillRule)fr, tree);
        dg(open); walk_tree(tree, 0); dg(PolyTreeToPathsD(tree)); g_dg.addd(tree.Area());
        if (!g_no_iostream) { std::ostringstream tmp; tmp << tree; g_dg.add(tmp.str().size()); }
      } else {
        PathsD closed, open;
        ok = (mode & 2) ? clp.Execute((ClipType)ct_, (FillRule)fr, closed, open) : clp.Execute((ClipType)ct_, (FillRule)fr, closed);
        dg(closed); dg(open);
      }
      g_dg.add(ok); g_dg.add(clp.ErrorCode());
    };
    exec(ct);
    if (reuse == 1) { exec(ct % 4 + 1); exec(0); }
    if (reuse == 2) { clp.Clear(); clp.AddSubject(c); clp.AddClip(s); exec(ct); }
  } else if (cmd == "F64") {
    // F64 fn ct fr <S> <C>   fn 0 BooleanOp 1 BooleanOp(tree) 2 Intersect 3 Union(S,C) 4 Union(S) 5 Difference 6 Xor
    int fn = t.i32(), ct = t.i32(), fr = t.i32(); Paths64 s = t.paths(), c = t.paths();
    static const char* nm[] = {"BooleanOp64", "BooleanOp64.PolyTree", "Intersect64", "Union64", "Union64.single", "Difference64", "Xor64"};
    entry(nm[fn]);
    FillRule f = (FillRule)fr;
    switch (fn) {
      case 0: dg(BooleanOp((ClipType)ct, f, s, c)); break;
      case 1: { PolyTree64 tree; BooleanOp((ClipType)ct, f, s, c, tree); walk_tree(tree, 0); dg(PolyTreeToPaths64(tree)); break; }
      case 2: dg(Intersect(s, c, f)); break;
      case 3: dg(Union(s, c, f)); break;
      case 4: dg(Union(s, f)); break;
      case 5: dg(Difference(s, c, f)); break;
      default: dg(Xor(s, c, f)); break;
    }
  } else if (cmd == "FD") {
    int fn = t.i32(), ct = t.i32(), fr = t.i32(), prec = t.i32(); PathsD s = t.pathsd(), c = t.pathsd();
    static const char* nm[] = {"BooleanOpD", "BooleanOpD.PolyTree", "IntersectD", "UnionD", "UnionD.single", "DifferenceD", "XorD"};
    entry(nm[fn]);
    FillRule f = (FillRule)fr;
    switch (fn) {
      case 0: dg(BooleanOp((ClipType)ct, f, s, c, prec)); break;
      case 1: { PolyTreeD tree; BooleanOp((ClipType)ct, f, s, c, tree, prec); walk_tree(tree, 0); dg(PolyTreeToPathsD(tree)); break; }
      case 2: dg(Intersect(s, c, f, prec)); break;
      case 3: dg(Union(s, c, f, prec)); break;
      case 4: dg(Union(s, f, prec)); break;
      case 5: dg(Difference(s, c, f, prec)); break;
      default: dg(Xor(s, c, f, prec)); break;
    }
  } else if (cmd == "INF64") {
    // INF64 delta jt et ml at <S>
    double delta = t.dbl(); int jt = t.i32(), et = t.i32(); double ml = t.dbl(), at = t.dbl(); Paths64 s = t.paths();
    set_z(s, 0);
    entry("InflatePaths64");
    dg(InflatePaths(s, delta, jt_of(jt), et_of(et), ml, at));
  } else if (cmd == "INFD") {
    double delta = t.dbl(); int jt = t.i32(), et = t.i32(); double ml = t.dbl(); int prec = t.i32(); double at = t.dbl(); PathsD s = t.pathsd();
    entry("InflatePathsD");
    dg(InflatePaths(s, delta, jt_of(jt), et_of(et), ml, prec, at));
  } else if (cmd == "OFF") {
    // OFF ml at pc rs mode delta ngroups (jt et <paths>)*    mode 0 Paths, 1 PolyTree, 2 Execute(callback), 3 SetDeltaCallback+tree; +4: execute twice
    double ml = t.dbl(), at = t.dbl(); bool pc = t.b(), rs = t.b(); int mode = t.i32(); double delta = t.dbl(); int ng = t.i32();
    entry("ClipperOffset.Execute");
    ClipperOffset co(ml, at, pc, rs);
#ifdef USINGZ
    co.SetZCallback(zcb64);
#endif
    for (int g = 0; g < ng; ++g) {
      int jt = t.i32(), et = t.i32(); Paths64 ps = t.paths(); set_z(ps, g * 100);
      if (ps.size() == 1 && (g & 1)) co.AddPath(ps[0], jt_of(jt), et_of(et)); else co.AddPaths(ps, jt_of(jt), et_of(et));
    }
    size_t calls = 0;
    auto cb = [&calls, delta](const Path64& path, const PathD& norms, size_t j, size_t k) -> double {
      ++calls;
      // reads what the documentation says the callback may read
      double acc = 0; if (j < path.size()) acc += (double)path[j].x; if (k < norms.size()) acc += norms[k].x;
      (void)acc;
      switch ((j + 2 * k) % 4) { case 0: return delta; case 1: return 0.0; case 2: return -delta; default: return delta * 0.5; }
    };
    for (int rep = 0; rep < ((mode & 4) ? 2 : 1); ++rep) {
      switch (mode & 3) {
        case 0: { Paths64 sol; co.Execute(delta, sol); dg(sol); break; }
        case 1: { PolyTree64 tree; co.Execute(delta, tree); walk_tree(tree, 0); break; }
        case 2: { Paths64 sol; co.Execute(cb, sol); dg(sol); break; }
        default: { co.SetDeltaCallback(cb); PolyTree64 tree; co.Execute(delta, tree); walk_tree(tree, 0); break; }
      }
      g_dg.add(co.ErrorCode());
    }
    g_dg.add(calls);
    co.Clear();
  } else if (cmd == "RC64" || cmd == "RCL64") {
    // RC64 l t r b single <S>
    Rect64 r = rd_rect(t); bool single = t.b(); Paths64 s = t.paths();
    bool lines = cmd == "RCL64";
    entry(lines ? "RectClipLines64" : "RectClip64");
    if (single) { for (auto& p : s) dg(lines ? RectClipLines(r, p) : RectClip(r, p)); }
    else dg(lines ? RectClipLines(r, s) : RectClip(r, s));
  } else if (cmd == "RCD" || cmd == "RCLD") {
    int prec = t.i32(); RectD r = rd_rectd(t); bool single = t.b(); PathsD s = t.pathsd();
    bool lines = cmd == "RCLD";
    entry(lines ? "RectClipLinesD" : "RectClipD");
    if (single) { for (auto& p : s) dg(lines ? RectClipLines(r, p, prec) : RectClip(r, p, prec)); }
    else dg(lines ? RectClipLines(r, s, prec) : RectClip(r, s, prec));
  } else if (cmd == "MK64") {
    // MK64 sum closed <pattern> <path>
    bool sum = t.b(), closed = t.b(); Path64 pat = t.path(), p = t.path();
    entry(sum ? "MinkowskiSum64" : "MinkowskiDiff64");
    dg(sum ? MinkowskiSum(pat, p, closed) : MinkowskiDiff(pat, p, closed));
  } else if (cmd == "MKD") {
    bool sum = t.b(), closed = t.b(); int prec = t.i32(); PathD pat = t.pathd(), p = t.pathd();
    entry(sum ? "MinkowskiSumD" : "MinkowskiDiffD");
    dg(sum ? MinkowskiSum(pat, p, closed, prec) : MinkowskiDiff(pat, p, closed, prec));
  } else if (cmd == "TRIM") { bool open = t.b(); Path64 p = t.path(); entry("TrimCollinear64"); dg(TrimCollinear(p, open)); }
  else if (cmd == "TRIMD") { int prec = t.i32(); bool open = t.b(); PathD p = t.pathd(); entry("TrimCollinearD"); dg(TrimCollinear(p, prec, open)); }
  else if (cmd == "SIMP") { double eps = t.dbl(); bool closed = t.b(); Paths64 ps = t.paths(); entry("SimplifyPath64"); for (auto& p : ps) dg(SimplifyPath(p, eps, closed)); dg(SimplifyPaths(ps, eps, closed)); }
  else if (cmd == "SIMPD") { double eps = t.dbl(); bool closed = t.b(); PathsD ps = t.pathsd(); entry("SimplifyPathD"); for (auto& p : ps) dg(SimplifyPath(p, eps, closed)); dg(SimplifyPaths(ps, eps, closed)); }
  else if (cmd == "RDP") { double eps = t.dbl(); Paths64 ps = t.paths(); entry("RamerDouglasPeucker64"); for (auto& p : ps) dg(RamerDouglasPeucker(p, eps)); dg(RamerDouglasPeucker(ps, eps)); }
  else if (cmd == "RDPD") { double eps = t.dbl(); PathsD ps = t.pathsd(); entry("RamerDouglasPeuckerD"); for (auto& p : ps) dg(RamerDouglasPeucker(p, eps)); dg(RamerDouglasPeucker(ps, eps)); }
  else if (cmd == "SDUP") { bool closed = t.b(); Paths64 ps = t.paths(); entry("StripDuplicates64"); for (auto p : ps) { StripDuplicates(p, closed); dg(p); } StripDuplicates(ps, closed); dg(ps); }
  else if (cmd == "SDUPD") { bool closed = t.b(); PathsD ps = t.pathsd(); entry("StripDuplicatesD"); for (auto p : ps) { StripDuplicates(p, closed); dg(p); } StripDuplicates(ps, closed); dg(ps); }
  else if (cmd == "SNEAR") { double d2 = t.dbl(); bool closed = t.b(); Paths64 ps = t.paths(); entry("StripNearEqual64"); for (auto& p : ps) dg(StripNearEqual(p, d2, closed)); dg(StripNearEqual(ps, d2, closed)); }
  else if (cmd == "SNEARD") { double d2 = t.dbl(); bool closed = t.b(); PathsD ps = t.pathsd(); entry("StripNearEqualD"); for (auto& p : ps) dg(StripNearEqual(p, d2, closed)); dg(StripNearEqual(ps, d2, closed)); }
  else if (cmd == "ELL") {
    int64_t cx = t.i64(), cy = t.i64(); double rx = t.dbl(), ry = t.dbl(); size_t steps = (size_t)t.u64(); entry("Ellipse64");
    dg(Ellipse(Point64(cx, cy), rx, ry, steps));
    if (rx > 0 && ry > 0 && rx < 1e15 && ry < 1e15 && std::llabs(cx) < (1ll << 50) && std::llabs(cy) < (1ll << 50))
      dg(Ellipse(Rect64(cx - (int64_t)rx, cy - (int64_t)ry, cx + (int64_t)rx, cy + (int64_t)ry), steps));
  } else if (cmd == "ELLD") {
    double cx = t.dbl(), cy = t.dbl(), rx = t.dbl(), ry = t.dbl(); size_t steps = (size_t)t.u64(); entry("EllipseD");
    dg(Ellipse(PointD(cx, cy), rx, ry, steps)); dg(Ellipse(RectD(cx - rx, cy - ry, cx + rx, cy + ry), steps));
  } else if (cmd == "MEAS") {
    // MEAS closed x y <S>: Area, Length, GetBounds, PointInPolygon, IsPositive, Distance, MidPoint, NearCollinear, bounds helpers
    bool closed = t.b(); int64_t x = t.i64(), y = t.i64(); Paths64 ps = t.paths(); entry("Measure64");
    Point64 q(x, y);
    for (auto& p : ps) {
      g_dg.addd(Area(p)); g_dg.addd(Length(p, closed)); g_dg.add(IsPositive(p)); g_dg.add((int)PointInPolygon(q, p));
      Rect64 r = GetBounds(p); g_dg.add((uint64_t)r.left); g_dg.add((uint64_t)r.bottom); g_dg.add(r.IsEmpty()); g_dg.add(r.IsValid()); g_dg.add(r.Contains(q));
      RectD rd = GetBounds<double, int64_t>(p); g_dg.addd(rd.left);
      for (size_t i = 0; i + 2 < p.size(); ++i) {
        g_dg.add(IsCollinear(p[i], p[i + 1], p[i + 2])); g_dg.add(CrossProductSign(p[i], p[i + 1], p[i + 2]));
        g_dg.addd(CrossProduct(p[i], p[i + 1], p[i + 2])); g_dg.addd(DotProduct(p[i], p[i + 1], p[i + 2]));
        g_dg.addd(PerpendicDistFromLineSqrd(p[i], p[i + 1], p[i + 2])); g_dg.addd(DistanceSqr(p[i], p[i + 1]));
        Point64 cp = GetClosestPointOnSegment(p[i], p[i + 1], p[i + 2]); g_dg.add((uint64_t)cp.x);
        Point64 mp = MidPoint(p[i], p[i + 1]); g_dg.add((uint64_t)mp.x);
        if (i + 3 < p.size()) {
          Point64 ip; g_dg.add(GetSegmentIntersectPt(p[i], p[i + 1], p[i + 2], p[i + 3], ip));
          g_dg.add(SegmentsIntersect(p[i], p[i + 1], p[i + 2], p[i + 3], false)); g_dg.add(SegmentsIntersect(p[i], p[i + 1], p[i + 2], p[i + 3], true));
        }
      }
    }
    g_dg.addd(Area(ps)); Rect64 r = GetBounds(ps); g_dg.add((uint64_t)r.right); if (r.IsValid() && !ps.empty() && r.left <= r.right) { Point64 m = r.MidPoint(); g_dg.add((uint64_t)m.x); g_dg.add((uint64_t)r.Width()); dg(r.AsPath()); }
    RectD rd = GetBounds<double, int64_t>(ps); g_dg.addd(rd.top);
    dg(TransformPaths<double, int64_t>(ps));
  } else if (cmd == "MEASD") {
    bool closed = t.b(); double x = t.dbl(), y = t.dbl(); PathsD ps = t.pathsd(); entry("MeasureD");
    PointD q(x, y);
    for (auto& p : ps) {
      g_dg.addd(Area(p)); g_dg.addd(Length(p, closed)); g_dg.add(IsPositive(p)); g_dg.add((int)PointInPolygon(q, p));
      RectD r = GetBounds(p); g_dg.addd(r.left); g_dg.add(r.IsEmpty());
      for (size_t i = 0; i + 2 < p.size(); ++i) { g_dg.addd(CrossProduct(p[i], p[i + 1], p[i + 2])); g_dg.addd(PerpendicDistFromLineSqrd(p[i], p[i + 1], p[i + 2])); }
    }
    g_dg.addd(Area(ps)); RectD r = GetBounds(ps); g_dg.addd(r.right);
  } else if (cmd == "TRANS") { int64_t dx = t.i64(), dy = t.i64(); Paths64 ps = t.paths(); entry("TranslatePath64"); for (auto& p : ps) dg(TranslatePath(p, dx, dy)); dg(TranslatePaths(ps, dx, dy)); }
  else if (cmd == "TRANSD") { double dx = t.dbl(), dy = t.dbl(); PathsD ps = t.pathsd(); entry("TranslatePathD"); for (auto& p : ps) dg(TranslatePath(p, dx, dy)); dg(TranslatePaths(ps, dx, dy)); }
  else if (cmd == "MKP") { size_t n = (size_t)t.u64(); std::vector<int64_t> v; for (size_t i = 0; i < n; ++i) v.push_back(t.i64()); entry("MakePath"); dg(MakePath(v)); }
  else if (cmd == "MKPD") { size_t n = (size_t)t.u64(); std::vector<double> v; for (size_t i = 0; i < n; ++i) v.push_back(t.dbl()); entry("MakePathD"); dg(MakePathD(v)); }
  else if (cmd == "SCALE") {
    // SCALE sx sy <S>: ScalePaths<int64,int64>, ScalePaths<double,int64>, then back
    double sx = t.dbl(), sy = t.dbl(); Paths64 ps = t.paths(); entry("ScalePaths"); int ec = 0;
    PathsD d = ScalePaths<double, int64_t>(ps, sx, sy, ec); dg(d); g_dg.add(ec);
    Paths64 b = ScalePaths<int64_t, double>(d, 1.0, 1.0, ec); dg(b); g_dg.add(ec);
  }
  // ---------------------------------------------------------------------------------------------- C export layer
  else if (cmd == "XB64" || cmd == "XBT64") {
    // XB64 ct fr pc rs nullmask zcb <S> <O> <C>       nullmask bit0/1/2: pass nullptr instead of S/O/C
    int ct = t.i32(), fr = t.i32(); bool pc = t.b(), rs = t.b(); int nm = t.i32(); bool zc = t.b();
    Paths64 s = t.paths(), o = t.paths(), c = t.paths();
    bool tree = cmd == "XBT64";
    entry(tree ? "export.BooleanOp_PolyTree64" : "export.BooleanOp64");
    std::vector<int64_t> as = c_paths<int64_t>(s), ao = c_paths<int64_t>(o), ac = c_paths<int64_t>(c);
#ifdef USINGZ
    SetZCallback64(zc ? zcb64 : nullptr);
#endif
    int64_t* sol = nullptr; int64_t* solo = nullptr;
    int rc = tree ? BooleanOp_PolyTree64((uint8_t)ct, (uint8_t)fr, (nm & 1) ? nullptr : as.data(), (nm & 2) ? nullptr : ao.data(), (nm & 4) ? nullptr : ac.data(), sol, solo, pc, rs)
                  : BooleanOp64((uint8_t)ct, (uint8_t)fr, (nm & 1) ? nullptr : as.data(), (nm & 2) ? nullptr : ao.data(), (nm & 4) ? nullptr : ac.data(), sol, solo, pc, rs);
    g_dg.add((uint64_t)rc);
    if (tree) walk_ctree(sol); else walk_cpaths(sol);
    walk_cpaths(solo);
    DisposeArray64(sol); DisposeArray64(solo);
#ifdef USINGZ
    SetZCallback64(nullptr);
#endif
  } else if (cmd == "XBD" || cmd == "XBTD") {
    int prec = t.i32(), ct = t.i32(), fr = t.i32(); bool pc = t.b(), rs = t.b(); int nm = t.i32(); bool zc = t.b();
    PathsD s = t.pathsd(), o = t.pathsd(), c = t.pathsd();
    bool tree = cmd == "XBTD";
    entry(tree ? "export.BooleanOp_PolyTreeD" : "export.BooleanOpD");
    std::vector<double> as = c_paths<double>(s), ao = c_paths<double>(o), ac = c_paths<double>(c);
#ifdef USINGZ
    SetZCallbackD(zc ? zcbd : nullptr);
#endif
    double* sol = nullptr; double* solo = nullptr;
    int rc = tree ? BooleanOp_PolyTreeD((uint8_t)ct, (uint8_t)fr, (nm & 1) ? nullptr : as.data(), (nm & 2) ? nullptr : ao.data(), (nm & 4) ? nullptr : ac.data(), sol, solo, prec, pc, rs)
                  : BooleanOpD((uint8_t)ct, (uint8_t)fr, (nm & 1) ? nullptr : as.data(), (nm & 2) ? nullptr : ao.data(), (nm & 4) ? nullptr : ac.data(), sol, solo, prec, pc, rs);
    g_dg.add((uint64_t)rc);
    if (tree) walk_ctree(sol); else walk_cpaths(sol);
    walk_cpaths(solo);
    DisposeArrayD(sol); DisposeArrayD(solo);
#ifdef USINGZ
    SetZCallbackD(nullptr);
#endif
  } else if (cmd == "XI64" || cmd == "XI1_64") {
    // XI64 delta jt et ml at rs null <S>      jt/et are uint8 at the C boundary: every value 0..255 is passed
    double delta = t.dbl(); int jt = t.i32(), et = t.i32(); double ml = t.dbl(), at = t.dbl(); bool rs = t.b(), nul = t.b(); Paths64 s = t.paths();
    bool one = cmd == "XI1_64";
    entry(one ? "export.InflatePath64" : "export.InflatePaths64");
    int64_t* sol;
    if (one) { std::vector<int64_t> a = c_path<int64_t>(s.empty() ? Path64() : s[0]); sol = InflatePath64(nul ? nullptr : a.data(), delta, (uint8_t)jt, (uint8_t)et, ml, at, rs); }
    else { std::vector<int64_t> a = c_paths<int64_t>(s); sol = InflatePaths64(nul ? nullptr : a.data(), delta, (uint8_t)jt, (uint8_t)et, ml, at, rs); }
    walk_cpaths(sol); DisposeArray64(sol);
  } else if (cmd == "XID" || cmd == "XI1_D") {
    double delta = t.dbl(); int jt = t.i32(), et = t.i32(), prec = t.i32(); double ml = t.dbl(), at = t.dbl(); bool rs = t.b(), nul = t.b(); PathsD s = t.pathsd();
    bool one = cmd == "XI1_D";
    entry(one ? "export.InflatePathD" : "export.InflatePathsD");
    double* sol;
    if (one) { std::vector<double> a = c_path<double>(s.empty() ? PathD() : s[0]); sol = InflatePathD(nul ? nullptr : a.data(), delta, (uint8_t)jt, (uint8_t)et, prec, ml, at, rs); }
    else { std::vector<double> a = c_paths<double>(s); sol = InflatePathsD(nul ? nullptr : a.data(), delta, (uint8_t)jt, (uint8_t)et, prec, ml, at, rs); }
    walk_cpaths(sol); DisposeArrayD(sol);
  } else if (cmd == "XRC64") {
    // XRC64 lines null l t r b <S>
    bool lines = t.b(), nul = t.b(); Rect64 r = rd_rect(t); Paths64 s = t.paths();
    entry(lines ? "export.RectClipLines64" : "export.RectClip64");
    CRect64 cr{r.left, r.top, r.right, r.bottom};
    std::vector<int64_t> a = c_paths<int64_t>(s);
    int64_t* sol = lines ? RectClipLines64(cr, nul ? nullptr : a.data()) : RectClip64(cr, nul ? nullptr : a.data());
    walk_cpaths(sol); DisposeArray64(sol);
  } else if (cmd == "XRCD") {
    bool lines = t.b(), nul = t.b(); int prec = t.i32(); RectD r = rd_rectd(t); PathsD s = t.pathsd();
    entry(lines ? "export.RectClipLinesD" : "export.RectClipD");
    CRectD cr{r.left, r.top, r.right, r.bottom};
    std::vector<double> a = c_paths<double>(s);
    double* sol = lines ? RectClipLinesD(cr, nul ? nullptr : a.data(), prec) : RectClipD(cr, nul ? nullptr : a.data(), prec);
    walk_cpaths(sol); DisposeArrayD(sol);
  } else if (cmd == "XMK") {
    // XMK sum closed nullmask <pattern> <path>
    bool sum = t.b(), closed = t.b(); int nm = t.i32(); Path64 pat = t.path(), p = t.path();
    entry(sum ? "export.MinkowskiSum64" : "export.MinkowskiDiff64");
    std::vector<int64_t> apat = c_path<int64_t>(pat), ap = c_path<int64_t>(p);
    int64_t* cpat = (nm & 1) ? nullptr : apat.data(); int64_t* cp = (nm & 2) ? nullptr : ap.data();
    int64_t* sol = sum ? MinkowskiSum64(cpat, cp, closed) : MinkowskiDiff64(cpat, cp, closed);
    walk_cpaths(sol); DisposeArray64(sol);
  } else if (cmd == "XMISC") {
    entry("export.misc");
    const char* v = Version(); g_dg.add(std::strlen(v));
    int64_t* n64 = nullptr; double* nd = nullptr; DisposeArray64(n64); DisposeArrayD(nd);
    int64_t* a = new int64_t[4]{4, 0, 0, 0}; DisposeArray64(a);
    double* b = new double[4]{4, 0, 0, 0}; DisposeArrayD(b);
  } else if (cmd == "SELFTEST") {
    // SELFTEST kind : deliberately misbehaves, so that the check can validate its own detectors on every run
    std::string k = t.next(); entry("selftest." + k);
    if (k == "oob") { std::vector<int> v(4); volatile int* p = v.data(); g_dg.add((uint64_t)p[4]); }
    else if (k == "uaf") { int* p = new int[4]; delete[] p; volatile int* q = p; g_dg.add((uint64_t)q[1]); }
    else if (k == "leak") { int* p = new int[100]; p[0] = 1; g_dg.add((uint64_t)p[0]); p = nullptr; }
    else if (k == "hang") { volatile uint64_t x = 0; for (;;) { x = x + 1; } }
    else if (k == "mem") { std::vector<char*> keep; for (;;) { char* p = new char[64 << 20]; std::memset(p, 1, 64 << 20); keep.push_back(p); } }
    else if (k == "overflow") { volatile int64_t a = INT64_MAX; volatile int64_t b = 1; g_dg.add((uint64_t)(a + b)); }
    else if (k == "nullref") { std::vector<int> v; const int& r = v[0]; g_dg.add((uint64_t)(uintptr_t)&r); }
    else if (k == "segv") { volatile int* p = (int*)8; g_dg.add((uint64_t)*p); }
    else if (k == "abort") { std::abort(); }
    else if (k == "swallow") { for (int i = 0; i < 6; ++i) { try { std::vector<int> v((size_t)100 + i); g_dg.add(v.size()); } catch (const std::bad_alloc&) { g_dg.add(7); } } }
    else if (k == "dtor-uaf") { struct Bad { int* p = new int[4]; ~Bad() { delete[] p; volatile int* q = p; g_dg.add((uint64_t)q[0]); } } b; std::vector<int> v(1000); g_dg.add(v.size()); }
    else if (k == "ok") { g_dg.add(1); }
  } else {
    os << "unknown-command";
    return;
  }
  if (g_before_output) g_before_output();
  os << std::hex << g_dg.h << std::dec << ' ' << g_dg.n;
#ifdef USINGZ
  os << " z" << g_zcalls;
#endif
}

// ------------------------------------------------------------------------------------------------ isolation
static char g_out[1 << 12];
static char g_ent[128];

// Runs one line inside the current process; returns 0 OK, 1 exception.  Every C++ object is destroyed on return.
static int run_line(const std::string& line) {
  int rc = 0;
  {
    std::ostringstream os;
    g_dg = Digest(); g_entry = "?";
    try { Toks t(line); run_case(t, os); }
    catch (const Clipper2Exception& e) { os.str(""); os << "clipper2 " << e.what(); rc = 1; }
    catch (const std::bad_alloc&) { os.str(""); os << "bad_alloc"; rc = 1; }
    catch (const std::exception& e) { os.str(""); os << "std " << e.what(); rc = 1; }
    catch (...) { os.str(""); os << "unknown"; rc = 1; }
    std::snprintf(g_out, sizeof g_out, "%s", os.str().c_str());
    std::snprintf(g_ent, sizeof g_ent, "%s", g_entry.c_str());
    g_entry.clear(); g_entry.shrink_to_fit();
  }
  return rc;
}

// grants the calling (child) process `timeout_ms` of CPU time from now on
static void cpu_budget(long timeout_ms) {
  struct rusage ru; getrusage(RUSAGE_SELF, &ru);
  struct rlimit rl; rl.rlim_max = RLIM_INFINITY;
  rl.rlim_cur = (rlim_t)(ru.ru_utime.tv_sec + ru.ru_stime.tv_sec + 2 + std::max(1L, (timeout_ms + 999) / 1000));
  setrlimit(RLIMIT_CPU, &rl);
}

static double now_ms() { struct timeval tv; gettimeofday(&tv, nullptr); return tv.tv_sec * 1000.0 + tv.tv_usec / 1000.0; }

static long rss_mb(pid_t pid) {
  char path[64]; std::snprintf(path, sizeof path, "/proc/%d/statm", (int)pid);
  FILE* f = std::fopen(path, "r"); if (!f) return 0;
  long size = 0, res = 0; if (std::fscanf(f, "%ld %ld", &size, &res) != 2) res = 0; std::fclose(f);
  return res * (sysconf(_SC_PAGESIZE) / 1024) / 1024;
}

// "<state> cpu=<utime+stime in clock ticks>" of a process (diagnostics for the wall-clock backstop)
static std::string proc_state(pid_t pid) {
  char path[64]; std::snprintf(path, sizeof path, "/proc/%d/stat", (int)pid);
  FILE* f = std::fopen(path, "r"); if (!f) return "gone";
  char buf[1024]; size_t n = std::fread(buf, 1, sizeof buf - 1, f); std::fclose(f); buf[n] = 0;
  const char* rp = std::strrchr(buf, ')'); if (!rp) return "?";
  char st = '?'; long long v[16] = {0}; int k = 0;
  std::istringstream is(rp + 1); is >> st; for (; k < 12 && (is >> v[k]); ++k) {}
  return std::string("state=") + st + " cpu_ticks=" + std::to_string(v[10] + v[11]);
}

static std::string flat1(const std::string& s) {
  std::string r; r.reserve(s.size() + s.size() / 16);
  for (char c : s) { if (c == '\n') r += " | "; else if (c == '\r' || c == '\t') r += ' '; else r += c; }
  return r;
}
// one line; when the text is longer than lim its head and its tail are kept (the last report is the fatal one)
static std::string flat(const std::string& s, size_t lim) {
  if (s.size() <= lim) return flat1(s);
  return flat1(s.substr(0, lim / 2)) + " ...[cut]... " + flat1(s.substr(s.size() - lim / 2));
}

struct Verdict { std::string status, ent, detail; long ms = 0; };

// Runs body(out_fd) in a forked child (stderr captured) under the CPU-time / wall-clock / RSS watchdogs.
// The child's exit code: 0 OK, 10 exception reached the caller, 77 leak, 78 "FAIL" (newfail), anything else = crash.
template <typename F> static Verdict supervise(const std::string& line, long timeout_ms, long rss_lim, F body) {
  Verdict v;
  double t0 = now_ms();
  std::cout.flush();
  int po[2], pe[2];
  if (pipe(po) != 0 || pipe(pe) != 0) { std::perror("pipe"); std::exit(3); }
  pid_t pid = fork();
  if (pid < 0) { std::perror("fork"); std::exit(3); }
  if (pid == 0) {
    close(po[0]); close(pe[0]);
    dup2(pe[1], 2); close(pe[1]);
    g_announce_fd = po[1];
    struct rlimit rl; rl.rlim_cur = rl.rlim_max = 0; setrlimit(RLIMIT_CORE, &rl);
    // hang detection is by CPU time (robust against a loaded machine): SIGXCPU after timeout_ms of CPU, SIGKILL 2 s later
    // (the hard limit stays open so that cx_newfail.cpp can grant every injected run its own budget, see cpu_budget())
    rl.rlim_cur = (rlim_t)std::max(1L, (timeout_ms + 999) / 1000); rl.rlim_max = RLIM_INFINITY; setrlimit(RLIMIT_CPU, &rl);
    int code = body(po[1]);
    close(po[1]);
    _exit(code);
  }
  close(po[1]); close(pe[1]);
  std::string so, se; bool eo = false, ee = false; const char* killed = nullptr;
  long peak = 0; double next_rss = t0 + 5, last_progress = t0; std::string stall;
  while (!(eo && ee)) {
    struct pollfd fds[2] = {{po[0], POLLIN, 0}, {pe[0], POLLIN, 0}};
    int pr = poll(fds, 2, 10);
    char buf[8192];
    if (pr > 0) {
      if (!eo && (fds[0].revents & (POLLIN | POLLHUP))) { ssize_t n = read(po[0], buf, sizeof buf); if (n <= 0) eo = true; else { last_progress = now_ms(); so.append(buf, (size_t)n); if (so.size() > (8u << 20)) { size_t cut = so.find('\n', so.size() - (1u << 20)); if (cut != std::string::npos) so.erase(0, cut + 1); } } }
      if (!ee && (fds[1].revents & (POLLIN | POLLHUP))) { ssize_t n = read(pe[0], buf, sizeof buf); if (n <= 0) ee = true; else if (se.size() < (1u << 20)) se.append(buf, (size_t)n); }
    }
    double now = now_ms();
    if (!killed && now >= next_rss) { long r = rss_mb(pid); if (r > peak) peak = r; next_rss = now + 20; if (r > rss_lim) { killed = "MEM"; kill(pid, SIGKILL); } }
    if (!killed && now - last_progress > 8.0 * timeout_ms) { killed = "HANG"; stall = proc_state(pid); kill(pid, SIGKILL); }   // wall-clock backstop (blocked child), counted from the last progress message
  }
  close(po[0]); close(pe[0]);
  int st = 0; waitpid(pid, &st, 0);
  v.ms = (long)(now_ms() - t0);
  // child output: zero or more "@entry\n" / "#progress\n" announcements followed by the result text
  std::string ent = "?", det, progress;
  {
    size_t pos = 0;
    while (pos < so.size() && (so[pos] == '@' || so[pos] == '#')) {
      size_t nl = so.find('\n', pos); if (nl == std::string::npos) break;
      if (so[pos] == '@') ent = so.substr(pos + 1, nl - pos - 1); else progress = so.substr(pos + 1, nl - pos - 1);
      pos = nl + 1;
    }
    det = so.substr(pos);
  }
  if (ent == "?" || ent.empty()) { Toks t(line); ent = t.more() ? "cmd." + t.next() : "?"; }   // died while parsing: use the command word
  if (!progress.empty()) progress = "[" + progress + "] ";
  bool san = se.find("runtime error:") != std::string::npos || se.find("Sanitizer:") != std::string::npos;
  if (killed) { v.status = killed; v.detail = progress + (stall.empty() ? "" : "wall-clock " + stall + " ") + "rss_peak_mb=" + std::to_string(peak) + " " + flat(se, 1500); }
  else if (WIFSIGNALED(st) && (WTERMSIG(st) == SIGXCPU || WTERMSIG(st) == SIGKILL)) { v.status = "HANG"; v.detail = progress + "cpu-limit signal=" + std::to_string(WTERMSIG(st)) + " " + flat(se, 1500); }
  else if (WIFEXITED(st) && WEXITSTATUS(st) == 77) { v.status = "LEAK"; v.detail = flat(det, 300) + " || " + flat(se, 6000); }
  else if (san) { v.status = "SAN"; v.detail = progress + "exit=" + std::to_string(WIFEXITED(st) ? WEXITSTATUS(st) : -WTERMSIG(st)) + " " + flat(se, 40000); }
  else if (WIFEXITED(st) && WEXITSTATUS(st) == 0) { v.status = "OK"; v.detail = det; }
  else if (WIFEXITED(st) && WEXITSTATUS(st) == 10) { v.status = "EXC"; v.detail = det; }
  else if (WIFEXITED(st) && WEXITSTATUS(st) == 78) { v.status = "FAIL"; v.detail = flat(det, 3000) + (se.empty() ? "" : " || " + flat(se, 4000)); }
  else { v.status = "CRASH"; v.detail = progress + (WIFSIGNALED(st) ? "signal=" + std::to_string(WTERMSIG(st)) : "exit=" + std::to_string(WEXITSTATUS(st))) + " " + flat(se, 1500); }
  v.ent = ent;
  return v;
}

// lazily initialised runtime state (locale caches, iostream) is created in the supervising process before accounting
// starts.  The warm-up operations call the library: they are first run in a watched child, and are repeated in this
// process only when that child survived -- a library defect must never take the supervisor down.
static void warm_up(long timeout_ms, long rss_lim) {
  static const char* lines[] = {"B64 1 0 1 0 3 0 1 4 0 0 10 0 10 10 0 10 0 1 4 5 5 15 5 15 15 5 15", "MEASD 1 0.5 0.25 1 3 0 0 1.5 0 0 1.5", "XMISC", "MKP 3 1 2 3"};
  Verdict v = supervise("warm-up", timeout_ms, rss_lim, [&](int) -> int { for (const char* l : lines) run_line(l); return 0; });
  if (v.status != "OK") return;
  for (const char* l : lines) run_line(l);
}

#ifndef CX_FUZZAPI_NO_MAIN
int main(int argc, char** argv) {
  long timeout_ms = 10000, rss_lim = 2048; bool nofork = false;
  for (int i = 1; i < argc; ++i) {
    std::string a = argv[i];
    if (a == "--timeout-ms" && i + 1 < argc) timeout_ms = std::atol(argv[++i]);
    else if (a == "--rss-mb" && i + 1 < argc) rss_lim = std::atol(argv[++i]);
    else if (a == "--nofork") nofork = true;
  }
  std::ios::sync_with_stdio(false);
  warm_up(timeout_ms, rss_lim);
  std::string line;
  while (std::getline(std::cin, line)) {
    if (line.empty()) { std::cout << "OK empty 0 -\n"; continue; }
    if (nofork) {
      double t0 = now_ms();
      int rc = run_line(line);
      std::cout << (rc ? "EXC " : "OK ") << g_ent << ' ' << (long)(now_ms() - t0) << ' ' << g_out << std::endl;
      continue;
    }
    Verdict v = supervise(line, timeout_ms, rss_lim, [&](int out_fd) -> int {
#if HAVE_ASAN
      size_t a0 = __sanitizer_get_current_allocated_bytes();
#endif
      int rc = run_line(line);
      int code = rc ? 10 : 0;
#if HAVE_ASAN
      size_t a1 = __sanitizer_get_current_allocated_bytes();
      // something is still allocated: ask LeakSanitizer whether it is unreachable (a leak) or merely cached
      if (a1 != a0 && __lsan_do_recoverable_leak_check()) code = 77;
#endif
      if (code == 77) { const char* how = rc ? "[after-exception] " : "[after-return] "; ssize_t w0 = write(out_fd, how, std::strlen(how)); (void)w0; }
      ssize_t w = write(out_fd, g_out, std::strlen(g_out)); (void)w;
      return code;
    });
    std::cout << v.status << ' ' << v.ent << ' ' << v.ms << ' ' << v.detail << '\n';
  }
  std::cout.flush();
  return 0;
}
#endif
