// C10 -- allocation-failure injection.  The global operator new is replaced; for one input (a command line of
// cx_fuzzapi.cpp, whose run_case() is reused by textual inclusion) the operation is first run once to count the
// allocations N made after the input has been parsed, then re-run with the k-th allocation throwing std::bad_alloc
// for every k in the requested set.  Expected for every k <= N: std::bad_alloc reaches the caller (the catch in this
// file) and every object involved is destroyed during unwinding without a sanitizer report.  Leaks on the failure
// path are permitted by the property (run with ASAN_OPTIONS=detect_leaks=0).
//
//   NF <all_upto> <nsample> <sticky> <cx_fuzzapi command line>
//        k = 1..min(N, all_upto), plus <nsample> values spread evenly over (all_upto, N], plus the last 8;
//        sticky 0: only the k-th allocation fails; 1: every allocation from the k-th on fails (out of memory for good);
//        2: both.
//   -> OK <entry> <ms> N=<n> tried=<t> bad_alloc=<b> completed=<c>
//      FAIL <entry> <ms> k=<k> sticky=<s> <class> <detail>      class: swallowed | other-exception
//      SAN/CRASH/HANG/MEM <entry> <ms> [k=<k> sticky=<s>] <report>   (from the supervising parent, see cx_fuzzapi.cpp)
// "completed" counts runs with k <= N that nevertheless finished normally without any THROWING allocation failing:
// either the allocation count differed between runs, or the failed allocation was a `new (std::nothrow)` whose null
// result the caller handled (std::stable_sort's temporary buffer falls back to an in-place merge) -- counted in
// nothrow_fallback.  A failed throwing allocation that does NOT surface as bad_alloc at the caller is "swallowed".
#define CX_FUZZAPI_NO_MAIN
#include "cx_fuzzapi.cpp"

#if HAVE_ASAN
extern "C" void __sanitizer_print_stack_trace();
#endif
static bool g_armed = false, g_sticky = false; static size_t g_trace = 0;   // NF_TRACE=<k>: print the stack of the injected failure when failing at k
static size_t g_allocs = 0, g_fail_at = 0, g_failed = 0, g_failed_nothrow = 0;
static void trace_failure() {
#if HAVE_ASAN
  if (g_trace && g_trace == g_fail_at) { bool a = g_armed; g_armed = false; std::fprintf(stderr, "NF_TRACE injected failure at allocation\n"); __sanitizer_print_stack_trace(); g_armed = a; }
#endif
}

static inline void* nf_alloc(std::size_t n) {
  if (g_armed) {
    ++g_allocs;
    if (g_fail_at && (g_allocs == g_fail_at || (g_sticky && g_allocs > g_fail_at))) { ++g_failed; trace_failure(); throw std::bad_alloc(); }
  }
  void* p = std::malloc(n ? n : 1);
  if (!p) throw std::bad_alloc();
  return p;
}
static inline void* nf_alloc_nt(std::size_t n) noexcept {
  if (g_armed) { ++g_allocs; if (g_fail_at && (g_allocs == g_fail_at || (g_sticky && g_allocs > g_fail_at))) { ++g_failed_nothrow; trace_failure(); return nullptr; } }
  return std::malloc(n ? n : 1);
}
void* operator new(std::size_t n) { return nf_alloc(n); }
void* operator new[](std::size_t n) { return nf_alloc(n); }
void* operator new(std::size_t n, const std::nothrow_t&) noexcept { return nf_alloc_nt(n); }
void* operator new[](std::size_t n, const std::nothrow_t&) noexcept { return nf_alloc_nt(n); }
void operator delete(void* p) noexcept { std::free(p); }
void operator delete[](void* p) noexcept { std::free(p); }
void operator delete(void* p, std::size_t) noexcept { std::free(p); }
void operator delete[](void* p, std::size_t) noexcept { std::free(p); }
void operator delete(void* p, const std::nothrow_t&) noexcept { std::free(p); }
void operator delete[](void* p, const std::nothrow_t&) noexcept { std::free(p); }

static void arm() { g_armed = true; }
static void disarm() { g_armed = false; }

// 0 completed, 1 bad_alloc at the caller, 2 other exception (text in g_out)
static int run_nf(const std::string& line, size_t fail_at, bool sticky) {
  g_allocs = 0; g_failed = 0; g_failed_nothrow = 0; g_fail_at = fail_at; g_sticky = sticky; g_armed = false;
  int rc = 0;
  g_out[0] = 0;
  try {
    std::ostringstream os;
    g_dg = Digest();
    Toks t(line);
    run_case(t, os);        // entry() arms the injection once the input has been parsed
    g_armed = false;
  }
  catch (const std::bad_alloc&) { g_armed = false; rc = 1; }
  catch (const std::exception& e) { g_armed = false; rc = 2; std::snprintf(g_out, sizeof g_out, "%s", e.what()); }
  catch (...) { g_armed = false; rc = 2; std::snprintf(g_out, sizeof g_out, "unknown exception"); }
  g_armed = false;
  return rc;
}

int main(int argc, char** argv) {
  long timeout_ms = 60000, rss_lim = 2048;
  for (int i = 1; i < argc; ++i) {
    std::string a = argv[i];
    if (a == "--timeout-ms" && i + 1 < argc) timeout_ms = std::atol(argv[++i]);
    else if (a == "--rss-mb" && i + 1 < argc) rss_lim = std::atol(argv[++i]);
  }
  std::ios::sync_with_stdio(false);
  g_no_iostream = true;
  g_trace = std::getenv("NF_TRACE") ? (size_t)std::atol(std::getenv("NF_TRACE")) : 0;
  g_after_entry = arm;
  g_before_output = disarm;
  warm_up(timeout_ms, rss_lim);
  std::string line;
  while (std::getline(std::cin, line)) {
    Toks hd(line);
    if (!hd.more() || hd.next() != "NF") { std::cout << "FAIL ? 0 bad-command\n"; continue; }
    size_t all_upto = (size_t)hd.u64(), nsample = (size_t)hd.u64(); int sticky = hd.i32();
    std::string op; for (; hd.more();) { if (!op.empty()) op += ' '; op += hd.next(); }
    Verdict v = supervise(op, timeout_ms, rss_lim, [&](int out_fd) -> int {
      auto say = [&](const std::string& m) { ssize_t w = write(out_fd, m.data(), m.size()); (void)w; };
      say("#counting\n");
      cpu_budget(timeout_ms);            // the limit applies to every single run, not to the whole enumeration of k
      int rc0 = run_nf(op, 0, false);
      size_t N = g_allocs;
      if (rc0 != 0) { say("N=" + std::to_string(N) + " tried=0 bad_alloc=0 completed=0 baseline-exception " + std::string(g_out)); return 0; }
      std::vector<size_t> ks;
      for (size_t k = 1; k <= std::min(N, all_upto); ++k) ks.push_back(k);
      if (N > all_upto) {
        size_t span = N - all_upto;
        for (size_t i = 1; i <= nsample; ++i) ks.push_back(all_upto + (span * i) / (nsample + 1));
        for (size_t k = (N > 8 ? N - 8 : all_upto) + 1; k <= N; ++k) if (k > all_upto) ks.push_back(k);
        std::sort(ks.begin(), ks.end()); ks.erase(std::unique(ks.begin(), ks.end()), ks.end());
        while (!ks.empty() && ks[0] == 0) ks.erase(ks.begin());
      }
      size_t tried = 0, ba = 0, completed = 0, fallback = 0;
      for (int s = 0; s < 2; ++s) {
        if ((sticky == 0 && s == 1) || (sticky == 1 && s == 0)) continue;
        for (size_t k : ks) {
          say("#k=" + std::to_string(k) + " sticky=" + std::to_string(s) + "\n");
          cpu_budget(timeout_ms);
          int rc = run_nf(op, k, s == 1);
          ++tried;
          if (rc == 1) ++ba;
          else if (rc == 0 && g_failed == 0) { ++completed; if (g_failed_nothrow) ++fallback; }
          else if (rc == 0) { say("k=" + std::to_string(k) + " sticky=" + std::to_string(s) + " swallowed failed_allocations=" + std::to_string(g_failed)); return 78; }
          else { say("k=" + std::to_string(k) + " sticky=" + std::to_string(s) + " other-exception " + std::string(g_out)); return 78; }
        }
      }
      say("N=" + std::to_string(N) + " tried=" + std::to_string(tried) + " bad_alloc=" + std::to_string(ba) + " completed=" + std::to_string(completed) + " nothrow_fallback=" + std::to_string(fallback));
      return 0;
    });
    std::cout << v.status << ' ' << v.ent << ' ' << v.ms << ' ' << v.detail << '\n';
  }
  std::cout.flush();
  return 0;
}
