// Harness for the offset family (C06, C07, OffsetPlan for C12).  Line protocol, see handle() below.
// Everything is reached through the private-access include of common.h; no source hook is needed:
// the per-path member values are read by a DeltaCallback64 *observer* that captures the object,
// records (group_delta_, join_type_, end_type_, steps_per_rad_, delta_) at the moment the library calls it
// and returns the value that leaves group_delta_ unchanged.  EXE runs the same input without the observer
// as well and reports whether both solutions are identical (they must be: the observer is not intrusive).
#include "common.h"
using namespace vfh;

static JoinType jt_of(int i) { return static_cast<JoinType>(i); }
static EndType et_of(int i) { return static_cast<EndType>(i); }

struct GroupIn { int jt, et; Paths64 paths; };
struct Obs { int gi, pi, kind; double gd; int jt, et; double spr, dlt; size_t j, k; };

// How the options reach the object: 0 = constructor arguments; 1 = an object constructed with OTHER values
// (miter limit, arc tolerance, both flags all different) on which the public setters MiterLimit / ArcTolerance /
// PreserveCollinear / ReverseSolution are then called; 2 = as 1, but the object has already executed once with the other
// values (paths added before) when the setters are called.  The property speaks about the options in force, not about
// the way they were supplied, so all three must behave alike.
static int g_via = 0;
static void other_opts(double ml, double at, bool pc, bool rev, double& ml0, double& at0) {
  ml0 = (ml <= 2.0) ? 5.0 : 1.0; at0 = (at > 0.0) ? 0.0 : 3.0; (void)pc; (void)rev;
}
static void set_opts(ClipperOffset& co, double ml, double at, bool pc, bool rev) {
  co.MiterLimit(ml); co.ArcTolerance(at); co.PreserveCollinear(pc); co.ReverseSolution(rev);
}

static void add_groups(ClipperOffset& co, const std::vector<GroupIn>& gs) {
  for (auto& g : gs) co.AddPaths(g.paths, jt_of(g.jt), et_of(g.et));
}

static void cmd_exe(Toks& t, std::ostream& os) {
  double ml = t.dbl(), at = t.dbl(); bool pc = t.b(), rev = t.b(); double delta = t.dbl();
  int ng = t.i32();
  std::vector<GroupIn> gs;
  for (int i = 0; i < ng; ++i) { GroupIn g; g.jt = t.i32(); g.et = t.i32(); g.paths = t.paths(); gs.push_back(std::move(g)); }
  // 1. plain run, public API
  Paths64 sol_plain; int err_plain;
  double ml0, at0; other_opts(ml, at, pc, rev, ml0, at0);
  {
    ClipperOffset co(g_via ? ml0 : ml, g_via ? at0 : at, g_via ? !pc : pc, g_via ? !rev : rev);
    add_groups(co, gs);
    if (g_via == 2) { Paths64 tmp; co.Execute(delta, tmp); }
    if (g_via) set_opts(co, ml, at, pc, rev);
    co.Execute(delta, sol_plain);
    err_plain = co.ErrorCode();
  }
  // 2. observed run
  Paths64 sol_obs; std::vector<Obs> obs; int err_obs;
  ClipperOffset co(g_via ? ml0 : ml, g_via ? at0 : at, g_via ? !pc : pc, g_via ? !rev : rev);
  add_groups(co, gs);
  if (g_via == 2) { Paths64 tmp; co.Execute(delta, tmp); }
  if (g_via) set_opts(co, ml, at, pc, rev);
  int last_gi = -1, last_pi = -1;
  co.SetDeltaCallback([&](const Path64& path, const PathD& norms, size_t j, size_t k) -> double {
    int gi = -1, pi = -1;
    for (size_t a = 0; a < co.groups_.size() && gi < 0; ++a)
      for (size_t b = 0; b < co.groups_[a].paths_in.size(); ++b)
        if (&co.groups_[a].paths_in[b] == &path) { gi = (int)a; pi = (int)b; break; }
    int kind = 0;
    if (gi < 0) { gi = last_gi; pi = last_pi; kind = 1; }   // reversed copy in OffsetOpenJoined
    bool first = obs.empty() || obs.back().gi != gi || obs.back().pi != pi || obs.back().kind != kind
                 || obs.back().gd != co.group_delta_ || obs.back().et != (int)co.end_type_ || obs.back().jt != (int)co.join_type_
                 || obs.back().spr != co.steps_per_rad_ || obs.back().dlt != co.delta_;
    if (first) obs.push_back(Obs{gi, pi, kind, co.group_delta_, (int)co.join_type_, (int)co.end_type_, co.steps_per_rad_, co.delta_, j, k});
    last_gi = gi; last_pi = pi;
    bool isrev = gi >= 0 ? co.groups_[gi].is_reversed : false;
    return isrev ? -co.group_delta_ : co.group_delta_;
  });
  co.Execute(delta, sol_obs);
  err_obs = co.ErrorCode();
  os << "OK " << err_plain << ' ' << ((sol_plain == sol_obs && err_plain == err_obs) ? 1 : 0) << " S ";
  put(os, sol_plain);
  os << " G " << co.groups_.size();
  for (auto& g : co.groups_) {
    os << ' ' << (int)g.join_type << ' ' << (int)g.end_type << ' ' << g.paths_in.size();
    for (auto& p : g.paths_in) os << ' ' << p.size();
    os << ' ' << (g.lowest_path_idx.has_value() ? (long long)g.lowest_path_idx.value() : -1LL) << ' ' << (g.is_reversed ? 1 : 0);
  }
  os << " O " << obs.size();
  for (auto& o : obs)
    os << ' ' << o.gi << ' ' << o.pi << ' ' << o.kind << ' ' << hexd(o.gd) << ' ' << o.jt << ' ' << o.et << ' ' << hexd(o.spr) << ' ' << hexd(o.dlt);
  os << " F " << hexd(co.delta_) << ' ' << hexd(co.group_delta_) << ' ' << (int)co.join_type_ << ' ' << (int)co.end_type_
     << ' ' << hexd(co.steps_per_rad_) << ' ' << hexd(co.temp_lim_);
  // what CheckReverseOrientation decides for these groups (fill rule Negative / reversal flag of the clean-up union)
  os << " C " << (co.CheckReverseOrientation() ? 1 : 0);
}

// plain public run only (used for the sanitizer variant and for speed)
static void cmd_run(Toks& t, std::ostream& os) {
  double ml = t.dbl(), at = t.dbl(); bool pc = t.b(), rev = t.b(); double delta = t.dbl();
  int ng = t.i32();
  double ml0, at0; other_opts(ml, at, pc, rev, ml0, at0);
  ClipperOffset co(g_via ? ml0 : ml, g_via ? at0 : at, g_via ? !pc : pc, g_via ? !rev : rev);
  for (int i = 0; i < ng; ++i) { int jt = t.i32(), et = t.i32(); Paths64 ps = t.paths(); co.AddPaths(ps, jt_of(jt), et_of(et)); }
  Paths64 sol;
  if (g_via == 2) { Paths64 tmp; co.Execute(delta, tmp); }
  if (g_via) set_opts(co, ml, at, pc, rev);
  co.Execute(delta, sol);
  os << "OK " << co.ErrorCode() << " S "; put(os, sol);
}

static void cmd_inf(Toks& t, std::ostream& os) {
  int jt = t.i32(), et = t.i32(); double ml = t.dbl(), at = t.dbl(), delta = t.dbl();
  Paths64 ps = t.paths();
  Paths64 sol = InflatePaths(ps, delta, jt_of(jt), et_of(et), ml, at);
  os << "OK S "; put(os, sol);
}

// group constructor: what the library derives from the input paths
static void cmd_group(Toks& t, std::ostream& os) {
  int jt = t.i32(), et = t.i32(); Paths64 ps = t.paths();
  ClipperOffset::Group g(ps, jt_of(jt), et_of(et));
  os << "OK "; put(os, g.paths_in);
  os << ' ' << (g.lowest_path_idx.has_value() ? (long long)g.lowest_path_idx.value() : -1LL) << ' ' << (g.is_reversed ? 1 : 0);
}

// raw offset curves of one group before the clean-up union: DoGroupOffset itself is called on the group
// (set-up of temp_lim_/delta_ as in the two assignments of ExecuteInternal), `solution` is read back.
static void cmd_raw(Toks& t, std::ostream& os) {
  double ml = t.dbl(), at = t.dbl(), delta = t.dbl(); int jt = t.i32(), et = t.i32(); Paths64 ps = t.paths();
  ClipperOffset co(ml, at, false, false);
  co.AddPaths(ps, jt_of(jt), et_of(et));
  Paths64 raw;
  if (co.groups_.empty()) { os << "OK R 0 V 0x0p+0 0x0p+0 0x0p+0 0x0p+0 0x0p+0"; return; }
  co.solution = &raw;
  co.temp_lim_ = (co.miter_limit_ <= 1) ? 2.0 : 2.0 / (co.miter_limit_ * co.miter_limit_);
  co.delta_ = delta;
  co.DoGroupOffset(co.groups_[0]);
  co.solution = nullptr;
  os << "OK R "; put(os, raw);
  os << " V " << hexd(co.group_delta_) << ' ' << hexd(co.steps_per_rad_) << ' ' << hexd(co.step_sin_) << ' ' << hexd(co.step_cos_) << ' ' << hexd(co.temp_lim_);
}

// ---------------------------------------------------------------------------------------------- delta callbacks
// A callback that is a pure function of (path length, vertex index): the value `z` at the selected vertices, `d` elsewhere.
// sel: 0 nowhere (constant d)  1 everywhere  2 where bit (j mod 16) of mask is set  3 first vertex  4 last vertex  5 first and last
struct CbSpec { int sel; unsigned mask; double z, d; };
static bool cb_selected(const CbSpec& s, size_t n, size_t j) {
  switch (s.sel) {
    case 0: return false;
    case 1: return true;
    case 2: return ((s.mask >> (j % 16)) & 1u) != 0;
    case 3: return j == 0;
    case 4: return j + 1 == n;
    default: return j == 0 || j + 1 == n;
  }
}
static double cb_value(const CbSpec& s, size_t n, size_t j) { return cb_selected(s, n, j) ? s.z : s.d; }
static CbSpec read_cbspec(Toks& t) { CbSpec s; s.sel = t.i32(); s.mask = (unsigned)t.i32(); s.z = t.dbl(); s.d = t.dbl(); return s; }

// RAWCB <sel> <mask> <z> <d> <ml> <at> <jt> <et> <paths>
// DoGroupOffset on one group with the callback installed (delta_ = 1.0 as Execute(cb, paths) sets it).  Besides the raw
// curves every call of the callback is reported with the points the library emitted between this call and the next one
// (= the construction at that vertex): K <ncalls> { pi n j k val vx vy <chunk path> }.  pi = -1: reversed copy (Joined).
static void cmd_rawcb(Toks& t, std::ostream& os) {
  CbSpec s = read_cbspec(t);
  double ml = t.dbl(), at = t.dbl(); int jt = t.i32(), et = t.i32(); Paths64 ps = t.paths();
  ClipperOffset co(ml, at, false, false);
  co.AddPaths(ps, jt_of(jt), et_of(et));
  Paths64 raw;
  if (co.groups_.empty()) { os << "OK R 0 K 0"; return; }
  struct Call { int pi; size_t n, j, k; double val; int64_t vx, vy; size_t sol, pos; };
  std::vector<Call> calls;
  co.SetDeltaCallback([&](const Path64& path, const PathD&, size_t j, size_t k) -> double {
    int pi = -1;
    for (size_t b = 0; b < co.groups_[0].paths_in.size(); ++b) if (&co.groups_[0].paths_in[b] == &path) { pi = (int)b; break; }
    double v = cb_value(s, path.size(), j);
    calls.push_back(Call{pi, path.size(), j, k, v, path[j].x, path[j].y, raw.size(), co.path_out.size()});
    return v;
  });
  co.solution = &raw;
  co.temp_lim_ = (co.miter_limit_ <= 1) ? 2.0 : 2.0 / (co.miter_limit_ * co.miter_limit_);
  co.delta_ = 1.0;
  co.DoGroupOffset(co.groups_[0]);
  co.solution = nullptr;
  os << "OK R "; put(os, raw);
  os << " K " << calls.size();
  for (size_t i = 0; i < calls.size(); ++i) {
    const Call& c = calls[i];
    Path64 chunk;
    if (c.sol < raw.size()) {
      size_t end = (i + 1 < calls.size() && calls[i + 1].sol == c.sol) ? calls[i + 1].pos : raw[c.sol].size();
      end = std::min(end, raw[c.sol].size());
      for (size_t q = c.pos; q < end; ++q) chunk.push_back(raw[c.sol][q]);
    }
    os << ' ' << c.pi << ' ' << c.n << ' ' << c.j << ' ' << c.k << ' ' << hexd(c.val) << ' ' << c.vx << ' ' << c.vy << ' ';
    put(os, chunk);
  }
}

static void ser_tree(std::ostream& os, const PolyPath64& n) {
  os << '('; put(os, n.Polygon()); os << ' ' << n.Count();
  for (auto& c : n) { os << ' '; ser_tree(os, *c); }
  os << ')';
}

// CBX <sel> <mask> <z> <d> <ml> <at> <pc> <rev> <delta2> <ngroups> { <jt> <et> <paths> }*      public API only
//   A   fresh object, Execute(cb, SA) with SA holding other paths when it is passed in
//   ov  = SA equals SetDeltaCallback(cb) + Execute(1.0, paths) on a fresh object
//   rep = Execute(cb, .) a second time on the same object, into a container that holds the first result
//   tr  = Execute(1.0, tree) on the used object, into a tree that holds another result, equals the tree of a fresh object
//         with the callback installed;  tp = the paths of that tree are the paths of SA (as multisets)
//   hist= Execute(delta2, paths) on the used object (Execute(cb, .) leaves the callback installed) equals a fresh object on
//         which SetDeltaCallback(cb) was called;  leak = 1 when it differs from a fresh object WITHOUT callback (reported only)
//   pl  = (sel 0 only) SA equals Execute(d, paths) of a fresh object without callback
//   id  = (all groups Polygon, every vertex selected, |z| <= 1e-12) SA equals Execute(0.25, paths): nothing moves
static void cmd_cbx(Toks& t, std::ostream& os) {
  CbSpec s = read_cbspec(t);
  double ml = t.dbl(), at = t.dbl(); bool pc = t.b(), rev = t.b(); double delta2 = t.dbl();
  int ng = t.i32();
  std::vector<GroupIn> gs;
  for (int i = 0; i < ng; ++i) { GroupIn g; g.jt = t.i32(); g.et = t.i32(); g.paths = t.paths(); gs.push_back(std::move(g)); }
  DeltaCallback64 cb = [s](const Path64& path, const PathD&, size_t j, size_t) -> double { return cb_value(s, path.size(), j); };
  const Paths64 junk{ Path64{ {-7, -7}, {9, -7}, {9, 9} }, Path64{ {1, 1} } };
  auto fill_tree = [](PolyTree64& tr) { ClipperOffset x; x.AddPath(Path64{ {0, 0}, {50, 0}, {50, 50}, {0, 50} }, JoinType::Miter, EndType::Polygon); x.Execute(5.0, tr); };
  auto sorted = [](Paths64 p) { std::sort(p.begin(), p.end(), [](const Path64& a, const Path64& b) {
      return std::lexicographical_compare(a.begin(), a.end(), b.begin(), b.end(), [](const Point64& u, const Point64& v) { return u.x != v.x ? u.x < v.x : u.y < v.y; }); }); return p; };
  ClipperOffset a(ml, at, pc, rev); add_groups(a, gs);
  Paths64 SA = junk; a.Execute(cb, SA);
  int errA = a.ErrorCode();
  Paths64 SB; { ClipperOffset b(ml, at, pc, rev); add_groups(b, gs); b.SetDeltaCallback(cb); b.Execute(1.0, SB); }
  Paths64 SA2 = SA; a.Execute(cb, SA2);
  std::string TA, TB; Paths64 TP;
  { PolyTree64 tr; fill_tree(tr); a.Execute(1.0, tr); std::ostringstream o; ser_tree(o, tr); TA = o.str(); TP = PolyTreeToPaths64(tr); }
  { ClipperOffset b(ml, at, pc, rev); add_groups(b, gs); b.SetDeltaCallback(cb); PolyTree64 tr; b.Execute(1.0, tr); std::ostringstream o; ser_tree(o, tr); TB = o.str(); }
  Paths64 SD = junk, SC, SE;
  a.Execute(delta2, SD);
  { ClipperOffset c(ml, at, pc, rev); add_groups(c, gs); c.SetDeltaCallback(cb); c.Execute(delta2, SC); }
  { ClipperOffset e(ml, at, pc, rev); add_groups(e, gs); e.Execute(delta2, SE); }
  int pl = -1, id = -1;
  if (s.sel == 0) { ClipperOffset p(ml, at, pc, rev); add_groups(p, gs); Paths64 SP; p.Execute(s.d, SP); pl = (SP == SA); }
  bool allpoly = true; for (auto& g : gs) if (g.et != (int)EndType::Polygon) allpoly = false;
  if (s.sel == 1 && std::fabs(s.z) <= 1e-12 && allpoly) { ClipperOffset p(ml, at, pc, rev); add_groups(p, gs); Paths64 SI = junk; p.Execute(0.25, SI); id = (SI == SA); }
  os << "OK " << errA << " ov=" << (SA == SB) << " rep=" << (SA2 == SA) << " tr=" << (TA == TB) << " tp=" << (sorted(TP) == sorted(SA))
     << " hist=" << (SD == SC) << " leak=" << (SD != SE) << " pl=" << pl << " id=" << id << " S "; put(os, SA);
}

static void cmd_nrm(Toks& t, std::ostream& os) {
  Path64 p = t.path();
  ClipperOffset co;
  co.BuildNormals(p);
  os << "OK "; put(os, co.norms);
}

// libm server: the Coq model takes libm results as supplied values; they are produced here, by the same libm
static void cmd_libm(Toks& t, std::ostream& os) {
  int n = t.i32();
  os << "OK";
  for (int i = 0; i < n; ++i) {
    std::string f = t.next(); double a = t.dbl(), b = t.dbl(); double r;
    if (f == "acos") r = std::acos(a);
    else if (f == "sin") r = std::sin(a);
    else if (f == "cos") r = std::cos(a);
    else if (f == "atan2") r = std::atan2(a, b);
    else if (f == "sqrt") r = std::sqrt(a);
    else throw std::runtime_error("libm fn " + f);
    os << ' ' << hexd(r);
  }
}

// float self-test: + - * / sqrt ceil round fabs and int conversion, compared bitwise with the PrimFloat model
static void cmd_fop(Toks& t, std::ostream& os) {
  int n = t.i32();
  os << "OK";
  for (int i = 0; i < n; ++i) {
    std::string f = t.next(); double a = t.dbl(), b = t.dbl();
    volatile double va = a, vb = b; double r;
    if (f == "add") r = va + vb; else if (f == "sub") r = va - vb; else if (f == "mul") r = va * vb;
    else if (f == "div") r = va / vb; else if (f == "sqrt") r = std::sqrt(va);
    else if (f == "ceil") r = std::ceil(va); else if (f == "abs") r = std::fabs(va);
    else if (f == "round") r = std::round(va);
    else throw std::runtime_error("fop " + f);
    os << ' ' << hexd(r);
  }
}

int main() {
  return main_loop([](Toks& t, std::ostream& os) {
    std::string c = t.next();
    g_via = 0;
    if (c == "EXE") cmd_exe(t, os);
    else if (c == "RUN") cmd_run(t, os);
    else if (c == "EXE1" || c == "EXE2") { g_via = c[3] - '0'; cmd_exe(t, os); }
    else if (c == "RUN1" || c == "RUN2") { g_via = c[3] - '0'; cmd_run(t, os); }
    else if (c == "INF") cmd_inf(t, os);
    else if (c == "GROUP") cmd_group(t, os);
    else if (c == "RAW") cmd_raw(t, os);
    else if (c == "RAWCB") cmd_rawcb(t, os);
    else if (c == "CBX") cmd_cbx(t, os);
    else if (c == "NRM") cmd_nrm(t, os);
    else if (c == "LIBM") cmd_libm(t, os);
    else if (c == "FOP") cmd_fop(t, os);
    else os << "ERR unknown command " << c;
  });
}
