// Harness for RectClip64 (property C08): public API, the stages of RectClip64::Execute through private access
// (results_, start_locs_, edges_, op_container_), PointInPolygon / Path1ContainsPath2 and the leaf functions.
// One command per line, same commands as oracle/drv_rectclip.ml.
#include "common.h"
#include <sys/resource.h>
#include <unistd.h>
using namespace Clipper2Lib;
using namespace vfh;

static Rect64 rd_rect(Toks& t) { int64_t l = t.i64(), tp = t.i64(), r = t.i64(), b = t.i64(); return Rect64(l, tp, r, b); }
static Point64 rd_pt(Toks& t) { int64_t x = t.i64(), y = t.i64(); return Point64(x, y); }
#ifndef CX_RECT_API_ONLY
static Location rd_loc(Toks& t) { return static_cast<Location>(t.i32()); }
static int li(Location l) { return static_cast<int>(l); }

// index of an op in op_container_ (creation order); -1 = nullptr, -2 = not found
static long op_index(RectClip64& rc, const OutPt2* op) {
  if (!op) return -1;
  long k = 0;
  for (const OutPt2& o : rc.op_container_) { if (&o == op) return k; ++k; }
  return -2;
}
static long edge_index(RectClip64& rc, const OutPt2List* e) {
  if (!e) return -1;
  for (int k = 0; k < 8; ++k) if (&rc.edges_[k] == e) return k;
  return -2;
}
// H <nnodes> {x y owner edge next prev} <nresults> {idx} {<len> {idx}}*8
static void dump_heap(std::ostream& os, RectClip64& rc) {
  os << " H " << rc.op_container_.size();
  for (const OutPt2& o : rc.op_container_)
    os << ' ' << o.pt.x << ' ' << o.pt.y << ' ' << o.owner_idx << ' ' << edge_index(rc, o.edge) << ' ' << op_index(rc, o.next) << ' ' << op_index(rc, o.prev);
  os << ' ' << rc.results_.size();
  for (auto* op : rc.results_) os << ' ' << op_index(rc, op);
  for (int k = 0; k < 8; ++k) { os << ' ' << rc.edges_[k].size(); for (auto* op : rc.edges_[k]) os << ' ' << op_index(rc, op); }
}
#endif

// a command that does not finish within CX_CMD_SECONDS (a loop of the library that no longer ends) ends the process with status 124
// after the lines already produced have been flushed, so that the caller can tell which input line it was
#ifndef CX_CMD_SECONDS
#define CX_CMD_SECONDS 4
#endif
static void on_alarm(int) { std::cout.flush(); _exit(124); }

int main() {
  std::signal(SIGALRM, on_alarm);
#if !defined(__SANITIZE_ADDRESS__) && !defined(__SANITIZE_THREAD__)
  { struct rlimit rl; rl.rlim_cur = rl.rlim_max = (rlim_t)3 << 30; setrlimit(RLIMIT_AS, &rl); }   // runaway loops end in bad_alloc
#endif
  return main_loop([](Toks& t, std::ostream& os) {
    const std::string cmd = t.next();
    struct Watch { Watch() { alarm(CX_CMD_SECONDS); } ~Watch() { alarm(0); } } watch;
    if (cmd == "CLIP") { Rect64 r = rd_rect(t); Paths64 ps = t.paths(); os << "OK "; put(os, RectClip(r, ps)); }
    else if (cmd == "CLIP2") {   // two Execute calls on ONE RectClip64 object (what RectClip() does, twice, without a fresh object)
      Rect64 r = rd_rect(t); Paths64 ps = t.paths(); Paths64 qs = t.paths();
      RectClip64 rc(r);
      Paths64 a = (r.IsEmpty() || ps.empty()) ? Paths64() : rc.Execute(ps);
      Paths64 b = (r.IsEmpty() || qs.empty()) ? Paths64() : rc.Execute(qs);
      os << "OK "; put(os, a); os << " | "; put(os, b);
    }
#ifndef CX_RECT_API_ONLY   // everything below needs private members / file-local functions
    else if (cmd == "CLIPX") {
      // one path through the stages of RectClip64::Execute (same call sequence as its loop body).
      // out: X <shortcut 0 none,1 skip,2 copy> [<pip -1 not evaluated|0|1> <nstart> locs..  H heap (after ExecuteInternal)
      //      H heap (after CheckEdges) H heap (after the four TidyEdges)] F <paths of the public RectClip>
      Rect64 r = rd_rect(t); Path64 path = t.path();
      RectClip64 rc(r);
      int shortcut = 0;
      if (r.IsEmpty() || path.size() < 3) shortcut = 1;
      else {
        rc.path_bounds_ = GetBounds(path);
        if (!rc.rect_.Intersects(rc.path_bounds_)) shortcut = 1;
        else if (rc.rect_.Contains(rc.path_bounds_)) shortcut = 2;
      }
      os << "X " << shortcut;
      if (shortcut == 0) {
        int pip = (rc.path_bounds_.Contains(rc.rect_)) ? (Path1ContainsPath2(path, rc.rect_as_path_) ? 1 : 0) : -1;
        rc.ExecuteInternal(path);
        os << ' ' << pip << ' ' << rc.start_locs_.size();
        for (auto l : rc.start_locs_) os << ' ' << li(l);
        dump_heap(os, rc);
        rc.CheckEdges();
        dump_heap(os, rc);
        for (size_t i = 0; i < 4; ++i) rc.TidyEdges(i, rc.edges_[i * 2], rc.edges_[i * 2 + 1]);
        dump_heap(os, rc);
      }
      os << " F ";
      put(os, RectClip(r, Paths64{path}));
    }
    else if (cmd == "PIP") { Point64 p = rd_pt(t); Path64 path = t.path(); os << static_cast<int>(PointInPolygon(p, path)); }
    else if (cmd == "P1C2") { Path64 a = t.path(); Path64 b = t.path(); os << (Path1ContainsPath2(a, b) ? 1 : 0); }
    else if (cmd == "LOC") { Rect64 r = rd_rect(t); Point64 p = rd_pt(t); Location l = Location::Inside; bool b = GetLocation(r, p, l); os << (b ? 1 : 0) << ' ' << li(l); }
    else if (cmd == "GSI") { Point64 p1 = rd_pt(t), p2 = rd_pt(t), p3 = rd_pt(t), p4 = rd_pt(t), ip = rd_pt(t);
      bool b = GetSegmentIntersection(p1, p2, p3, p4, ip); os << (b ? 1 : 0) << ' ' << ip.x << ' ' << ip.y; }
    else if (cmd == "GI") { Rect64 r = rd_rect(t); Point64 p = rd_pt(t), p2 = rd_pt(t); Location l = rd_loc(t); Point64 ip = rd_pt(t);
      Path64 rp = r.AsPath(); bool b = GetIntersection(rp, p, p2, l, ip); os << (b ? 1 : 0) << ' ' << li(l) << ' ' << ip.x << ' ' << ip.y; }
    else if (cmd == "ADJ") { Location l = rd_loc(t); bool cw = t.b(); os << li(GetAdjacentLocation(l, cw)); }
    else if (cmd == "HCW") { Location a = rd_loc(t), b = rd_loc(t); os << (HeadingClockwise(a, b) ? 1 : 0); }
    else if (cmd == "OPP") { Location a = rd_loc(t), b = rd_loc(t); os << (AreOpposites(a, b) ? 1 : 0); }
    else if (cmd == "ISCW") { Location a = rd_loc(t), b = rd_loc(t); Point64 p = rd_pt(t), c = rd_pt(t), mp = rd_pt(t); os << (IsClockwise(a, b, p, c, mp) ? 1 : 0); }
    else if (cmd == "COLL") { Point64 a = rd_pt(t), b = rd_pt(t), c = rd_pt(t); os << (IsCollinear(a, b, c) ? 1 : 0); }
    else if (cmd == "EDGES") { Point64 p = rd_pt(t); Rect64 r = rd_rect(t); os << GetEdgesForPt(p, r); }
    else if (cmd == "IHC") { Point64 a = rd_pt(t), b = rd_pt(t); int k = t.i32(); os << (IsHeadingClockwise(a, b, k) ? 1 : 0); }
    else if (cmd == "HOV") { Point64 a = rd_pt(t), b = rd_pt(t), c = rd_pt(t), d = rd_pt(t); os << (HasHorzOverlap(a, b, c, d) ? 1 : 0); }
    else if (cmd == "VOV") { Point64 a = rd_pt(t), b = rd_pt(t), c = rd_pt(t), d = rd_pt(t); os << (HasVertOverlap(a, b, c, d) ? 1 : 0); }
    else if (cmd == "SLCW") { size_t n = (size_t)t.i64(); std::vector<Location> v; for (size_t k = 0; k < n; ++k) v.push_back(rd_loc(t)); os << (StartLocsAreClockwise(v) ? 1 : 0); }
    else if (cmd == "BOUNDS") { Path64 p = t.path(); Rect64 b = GetBounds(p); os << b.left << ' ' << b.top << ' ' << b.right << ' ' << b.bottom; }
    else if (cmd == "RMISC") { Rect64 r = rd_rect(t), a = rd_rect(t); Point64 mp = r.MidPoint();
      os << (r.IsEmpty() ? 1 : 0) << ' ' << mp.x << ' ' << mp.y << ' ' << (r.Contains(a) ? 1 : 0) << ' ' << (r.Intersects(a) ? 1 : 0); }
#endif
    else os << "ERR unknown command " << cmd;
  });
}
