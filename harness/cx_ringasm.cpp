// Ring assembly tie (coq/model/Rings.v): drives the real AddLocalMinPoly / AddOutPt / AddLocalMaxPoly (-> JoinOutrecPaths) /
// SwapOutrecs of clipper.engine.cpp on eight synthetic closed-path Actives through private access.
//   RA nops (M e1 e2 x y swap | A e x y | X e1 e2 x y | S e1 e2)*
//   -> FAIL (succeeded_ was cleared)  |  OK nrecs (N | P k x y ..) fe be ... E outrec-idx of edge 0..7
// A ring is printed in `next` order starting at op_back = outrec->pts->next and ending at outrec->pts.
// The generator only produces sequences without null dereferences (edges hot where the code requires it).
#include "common.h"
using namespace Clipper2Lib;
using namespace vfh;

int main() {
  return main_loop([](Toks& t, std::ostream& os) {
    std::string cmd = t.next();
    if (cmd != "RA") { os << "ERR unknown command"; return; }
    Clipper64 c;
    c.using_polytree_ = false;
    c.succeeded_ = true;
    Vertex vtop; vtop.flags = VertexFlags::Empty;
    LocalMinima lm(&vtop, PathType::Subject, false);
    Active ed[8];
    for (int i = 0; i < 8; ++i) { ed[i].local_min = &lm; ed[i].vertex_top = &vtop; ed[i].wind_dx = 1; }
    int n = t.i32();
    for (int k = 0; k < n && c.succeeded_; ++k) {
      std::string o = t.next();
      if (o == "M") { int a = t.i32(), b = t.i32(); int64_t x = t.i64(), y = t.i64(); bool sw = t.b();
                      c.AddLocalMinPoly(ed[a], ed[b], Point64(x, y), !sw); }   // no previous hot edge: is_new decides the sides
      else if (o == "A") { int a = t.i32(); int64_t x = t.i64(), y = t.i64(); c.AddOutPt(ed[a], Point64(x, y)); }
      else if (o == "X") { int a = t.i32(), b = t.i32(); int64_t x = t.i64(), y = t.i64(); c.AddLocalMaxPoly(ed[a], ed[b], Point64(x, y)); }
      else if (o == "S") { int a = t.i32(), b = t.i32(); SwapOutrecs(ed[a], ed[b]); }
    }
    if (!c.succeeded_) { os << "FAIL"; }
    else {
      os << "OK " << c.outrec_list_.size();
      for (OutRec* r : c.outrec_list_) {
        if (!r->pts) os << " N";
        else {
          Path64 p; OutPt* back = r->pts->next; OutPt* op = back;
          do { p.push_back(op->pt); op = op->next; } while (op != back);
          os << " P "; put(os, p);
        }
        auto idx = [&](Active* a) -> long { return a ? (long)(a - ed) : -1L; };
        os << ' ' << idx(r->front_edge) << ' ' << idx(r->back_edge);
      }
      os << " E";
      for (int i = 0; i < 8; ++i) os << ' ' << (ed[i].outrec ? (long)ed[i].outrec->idx : -1L);
    }
    for (int i = 0; i < 8; ++i) ed[i].outrec = nullptr;   // the Actives are not owned by the clipper
    c.Clear();
  });
}
