// C17 harness: the C export layer (clipper.export.h) against native C++ calls, and its marshalling kernels.
// One case per input line, one result line per case.  D = EXPORT_VERTEX_DIMENSIONALITY values per vertex
// (x y, and z in USINGZ builds).  int64 values in decimal; doubles always as their 64-bit pattern (unsigned
// decimal) so that NaN payloads and the reinterpreted z of USINGZ builds are compared as raw bits.
//   <p64>  = n then n*D integers            <pD> = n then per vertex: xbits ybits (zbits = z as unsigned 64-bit)
//   <ps64> = npaths then <p64>...           <psD> likewise
// Raw arrays returned by the library are printed as `n v0 .. v(n-1)` with n = the length the array states in its
// first element (NULL for a null pointer).  Native results are printed in the same vertex format as the inputs
// (double coordinates as bits, z of a PointD as the unsigned reinterpretation of its int64).
#include "common.h"
#include "clipper2/clipper.export.h"

using namespace Clipper2Lib;
using vfh::Toks;

static const int D = EXPORT_VERTEX_DIMENSIONALITY;

static uint64_t bits_of(double d) { uint64_t u; std::memcpy(&u, &d, 8); return u; }
static double dbl_of(uint64_t u) { double d; std::memcpy(&d, &u, 8); return d; }

// ---------------------------------------------------------------- reading
static Point64 rd_pt64(Toks& t) {
  int64_t x = t.i64(), y = t.i64();
#ifdef USINGZ
  int64_t z = t.i64(); return Point64(x, y, z);
#else
  return Point64(x, y);
#endif
}
static PointD rd_ptD(Toks& t) {
  double x = dbl_of(t.u64()), y = dbl_of(t.u64());
#ifdef USINGZ
  int64_t z = (int64_t)t.u64(); return PointD(x, y, z);   // z of a double vertex travels as its unsigned 64-bit pattern
#else
  return PointD(x, y);
#endif
}
static Path64 rd_p64(Toks& t) { size_t n = (size_t)t.i64(); Path64 p; p.reserve(n); for (size_t i = 0; i < n; ++i) p.push_back(rd_pt64(t)); return p; }
static PathD rd_pD(Toks& t) { size_t n = (size_t)t.i64(); PathD p; p.reserve(n); for (size_t i = 0; i < n; ++i) p.push_back(rd_ptD(t)); return p; }
static Paths64 rd_ps64(Toks& t) { size_t n = (size_t)t.i64(); Paths64 ps; ps.reserve(n); for (size_t i = 0; i < n; ++i) ps.push_back(rd_p64(t)); return ps; }
static PathsD rd_psD(Toks& t) { size_t n = (size_t)t.i64(); PathsD ps; ps.reserve(n); for (size_t i = 0; i < n; ++i) ps.push_back(rd_pD(t)); return ps; }

// ---------------------------------------------------------------- printing
static void pr(std::ostream& os, const Point64& v) {
  os << ' ' << v.x << ' ' << v.y;
#ifdef USINGZ
  os << ' ' << v.z;
#endif
}
static void pr(std::ostream& os, const PointD& v) {
  os << ' ' << bits_of(v.x) << ' ' << bits_of(v.y);
#ifdef USINGZ
  os << ' ' << (uint64_t)v.z;
#endif
}
template <typename T> static void pr(std::ostream& os, const Path<T>& p) { os << p.size(); for (auto& v : p) pr(os, v); }
template <typename T> static void pr(std::ostream& os, const Paths<T>& ps) { os << ps.size(); for (auto& p : ps) { os << ' '; pr(os, p); } }

static const size_t SANE = 20000000;
static void pr_raw(std::ostream& os, const int64_t* a) {
  if (!a) { os << "NULL"; return; }
  int64_t n = a[0];
  if (n < 0 || (uint64_t)n > SANE) { os << "1 " << n; return; }
  os << n; for (int64_t i = 0; i < n; ++i) os << ' ' << a[i];
}
static void pr_raw(std::ostream& os, const double* a) {
  if (!a) { os << "NULL"; return; }
  double n = a[0];
  if (!(n >= 0) || n > (double)SANE) { os << "1 " << bits_of(n); return; }
  size_t k = (size_t)n;
  os << k; for (size_t i = 0; i < k; ++i) os << ' ' << bits_of(a[i]);
}

// ---------------------------------------------------------------- harness-side encoder / decoder
// (written from the layout documented at the top of clipper.export.h, independent of the library's converters)
static int64_t elem(int64_t v, int64_t*) { return v; }
static double elem(int64_t v, double*) { return (double)v; }
static int64_t coord(int64_t v, int64_t*) { return v; }
static double coord(double v, double*) { return v; }
static int64_t zelem(int64_t z, int64_t*) { return z; }
static double zelem(int64_t z, double*) { double d; std::memcpy(&d, &z, 8); return d; }
static int64_t zback(int64_t e) { return e; }
static int64_t zback(double e) { int64_t z; std::memcpy(&z, &e, 8); return z; }

template <typename T> static void h_put_path(std::vector<T>& a, const Path<T>& p) {
  a.push_back(elem((int64_t)p.size(), (T*)nullptr)); a.push_back(elem(0, (T*)nullptr));
  for (auto& v : p) {
    a.push_back(coord(v.x, (T*)nullptr)); a.push_back(coord(v.y, (T*)nullptr));
#ifdef USINGZ
    a.push_back(zelem(v.z, (T*)nullptr));
#endif
  }
}
// KE prefix: the input arrays of this line are built the way a C client may build them from the documented
// layout: EVERY path is an entry, an empty one as `0, 0`, and C counts every entry (the library's own
// CreateCPaths* never writes such an entry, so only a caller-built array shows one to the decoders).
static bool g_keep_empty = false;
// a heap array exactly as long as it states, so that ASan sees any over-read by the library
template <typename T> static T* h_enc_paths(const Paths<T>& ps, bool null_if_empty) {
  if (null_if_empty && ps.empty()) return nullptr;
  std::vector<T> a; a.push_back(0); a.push_back(0);
  size_t cnt = 0;
  for (auto& p : ps) if (g_keep_empty || !p.empty()) { h_put_path(a, p); ++cnt; }
  a[0] = elem((int64_t)a.size(), (T*)nullptr); a[1] = elem((int64_t)cnt, (T*)nullptr);
  T* r = new T[a.size()]; std::copy(a.begin(), a.end(), r); return r;
}
template <typename T> static T* h_enc_path(const Path<T>& p) {
  std::vector<T> a; h_put_path(a, p);
  T* r = new T[a.size()]; std::copy(a.begin(), a.end(), r); return r;
}
template <typename T> static bool h_get_path(const T* a, size_t lim, size_t& v, size_t n, Path<T>& p) {
  for (size_t j = 0; j < n; ++j) {
    if (v + D > lim) return false;
    T x = a[v], y = a[v + 1];
#ifdef USINGZ
    p.emplace_back(x, y, zback(a[v + 2]));
#else
    p.emplace_back(x, y);
#endif
    v += D;
  }
  return true;
}
template <typename T> static bool h_dec_paths(const T* a, Paths<T>& out) {
  out.clear();
  if (!a) return true;
  if (!(a[0] >= 2) || a[0] > (T)SANE) return false;
  size_t lim = (size_t)a[0], v = 2;
  if (!(a[1] >= 0)) return false;
  size_t cnt = (size_t)a[1];
  for (size_t i = 0; i < cnt; ++i) {
    if (v + 2 > lim || !(a[v] >= 0)) return false;
    size_t n = (size_t)a[v]; if (a[v + 1] != 0) return false; v += 2;
    Path<T> p; if (!h_get_path(a, lim, v, n, p)) return false;
    out.push_back(std::move(p));
  }
  return v == lim;
}
template <typename T> static Paths<T> nonempty(const Paths<T>& ps) { Paths<T> r; for (auto& p : ps) if (!p.empty()) r.push_back(p); return r; }
static bool same_pt(const Point64& a, const Point64& b) {
  bool r = a.x == b.x && a.y == b.y;
#ifdef USINGZ
  r = r && a.z == b.z;
#endif
  return r;
}
static bool same_pt(const PointD& a, const PointD& b) {
  bool r = bits_of(a.x) == bits_of(b.x) && bits_of(a.y) == bits_of(b.y);
#ifdef USINGZ
  r = r && a.z == b.z;
#endif
  return r;
}
template <typename T> static bool same_paths(const Paths<T>& a, const Paths<T>& b) {
  if (a.size() != b.size()) return false;
  for (size_t i = 0; i < a.size(); ++i) {
    if (a[i].size() != b[i].size()) return false;
    for (size_t j = 0; j < a[i].size(); ++j) if (!same_pt(a[i][j], b[i][j])) return false;
  }
  return true;
}
// the export array decodes (harness decoder) to exactly the non-empty native paths
template <typename T> static bool agrees(const T* arr, const Paths<T>& native) {
  Paths<T> got; if (!h_dec_paths(arr, got)) return false;
  return same_paths(got, nonempty(native));
}

// trees: text form `C node...`, node = `N C vertices... node...`
template <typename PP, typename T> static void pr_node(std::ostream& os, const PP& pp) {
  os << ' ' << pp.Polygon().size() << ' ' << pp.Count();
  for (auto& v : pp.Polygon()) pr(os, v);
  for (size_t i = 0; i < pp.Count(); ++i) pr_node<PP, T>(os, *pp.Child(i));
}
template <typename PP, typename T> static void pr_tree(std::ostream& os, const PP& tree) {
  os << tree.Count();
  for (size_t i = 0; i < tree.Count(); ++i) pr_node<PP, T>(os, *tree.Child(i));
}
template <typename PP, typename T> static bool h_cmp_node(const T* a, size_t lim, size_t& v, const PP& pp) {
  if (v + 2 > lim) return false;
  if (!(a[v] >= 0) || (size_t)a[v] != pp.Polygon().size() || !(a[v + 1] >= 0) || (size_t)a[v + 1] != pp.Count()) return false;
  size_t n = (size_t)a[v]; v += 2;
  Path<T> p; if (!h_get_path(a, lim, v, n, p)) return false;
  for (size_t j = 0; j < n; ++j) if (!same_pt(p[j], pp.Polygon()[j])) return false;
  for (size_t i = 0; i < pp.Count(); ++i) if (!h_cmp_node<PP, T>(a, lim, v, *pp.Child(i))) return false;
  return true;
}
template <typename PP, typename T> static bool tree_agrees(const T* a, const PP& tree) {
  if (!a) return tree.Count() == 0;
  if (!(a[0] >= 2) || a[0] > (T)SANE) return false;
  size_t lim = (size_t)a[0], v = 2;
  if (!(a[1] >= 0) || (size_t)a[1] != tree.Count()) return false;
  for (size_t i = 0; i < tree.Count(); ++i) if (!h_cmp_node<PP, T>(a, lim, v, *tree.Child(i))) return false;
  return v == lim;
}
static void rd_node64(Toks& t, PolyPath64* parent) {
  size_t n = (size_t)t.i64(), c = (size_t)t.i64();
  Path64 p; for (size_t i = 0; i < n; ++i) p.push_back(rd_pt64(t));
  PolyPath64* me = parent->AddChild(p);
  for (size_t i = 0; i < c; ++i) rd_node64(t, me);
}
static void rd_nodeD(Toks& t, PolyPathD* parent) {
  size_t n = (size_t)t.i64(), c = (size_t)t.i64();
  PathD p; for (size_t i = 0; i < n; ++i) p.push_back(rd_ptD(t));
  PolyPathD* me = parent->AddChild(p);
  for (size_t i = 0; i < c; ++i) rd_nodeD(t, me);
}

static int64_t SENT64[1]; static double SENTD[1];
typedef std::unique_ptr<int64_t[]> U64; typedef std::unique_ptr<double[]> UD;   // input arrays are freed on every path

static Rect64 mkrect(const CRect64& r) { Rect64 x; x.left = r.left; x.top = r.top; x.right = r.right; x.bottom = r.bottom; return x; }
static RectD mkrect(const CRectD& r) { RectD x; x.left = r.left; x.top = r.top; x.right = r.right; x.bottom = r.bottom; return x; }

template <typename T> static void finish(std::ostream& os, T* arr, const Paths<T>& nat, const char* tagA, const char* tagN) {
  os << ' ' << tagA << ' '; pr_raw(os, arr); os << ' ' << tagN << ' '; pr(os, nat);
}

#ifdef USINGZ
// ---------------------------------------------------------------- Z callbacks (USINGZ builds only): command ZH
// The export layer keeps the registered callbacks in two header-level globals (dllCallback64 / dllCallbackD) that
// all four boolean exports read; SetZCallback64 / SetZCallbackD are the only documented way to change them.
// ZH runs a *history* of `set` and `call` steps through the exported functions and, for every call, the native API
// on a fresh Clipper64 / ClipperD(precision) with the callback that the history says is registered at that moment
// (SetZCallback(cb); none when the last set was a null pointer or there was none).  The callbacks are plain C
// functions that log every invocation (count + a hash over the bits of all five points, z included), so that not
// only the resulting z but also the sequence of callback invocations and their arguments is compared.
//   mode 1 TAG   pt.z = fresh value (counter started at `base`)
//   mode 2 HASH  pt.z = an arbitrary value (hash of everything the callbacks were given so far, xor `salt`)
//   mode 3 KEEP  pt.z left as the library passed it
struct CbState { uint64_t calls, hash; int64_t next; uint64_t salt; };
static CbState g_cb = {0, 0, 0, 0};
static void cb_reset(int64_t base, uint64_t salt) { g_cb.calls = 0; g_cb.hash = 0x243F6A8885A308D3ULL; g_cb.next = base; g_cb.salt = salt; }
static void cb_mix(uint64_t v) { uint64_t h = g_cb.hash ^ v; h *= 0x9E3779B97F4A7C15ULL; h ^= h >> 29; g_cb.hash = h + 0x632BE59BD9B4E019ULL; }
static uint64_t cbits(int64_t v) { return (uint64_t)v; }
static uint64_t cbits(double v) { return bits_of(v); }
template <typename T> static void cb_log(const Point<T>& a, const Point<T>& b, const Point<T>& c, const Point<T>& d, const Point<T>& pt) {
  ++g_cb.calls;
  const Point<T>* ps[5] = {&a, &b, &c, &d, &pt};
  for (const Point<T>* p : ps) { cb_mix(cbits(p->x)); cb_mix(cbits(p->y)); cb_mix((uint64_t)p->z); }
}
static void cb64_tag(const Point64& a, const Point64& b, const Point64& c, const Point64& d, Point64& pt) { cb_log(a, b, c, d, pt); pt.z = g_cb.next++; }
static void cb64_hash(const Point64& a, const Point64& b, const Point64& c, const Point64& d, Point64& pt) { cb_log(a, b, c, d, pt); pt.z = (int64_t)(g_cb.hash ^ g_cb.salt); }
static void cb64_keep(const Point64& a, const Point64& b, const Point64& c, const Point64& d, Point64& pt) { cb_log(a, b, c, d, pt); }
static void cbD_tag(const PointD& a, const PointD& b, const PointD& c, const PointD& d, PointD& pt) { cb_log(a, b, c, d, pt); pt.z = g_cb.next++; }
static void cbD_hash(const PointD& a, const PointD& b, const PointD& c, const PointD& d, PointD& pt) { cb_log(a, b, c, d, pt); pt.z = (int64_t)(g_cb.hash ^ g_cb.salt); }
static void cbD_keep(const PointD& a, const PointD& b, const PointD& c, const PointD& d, PointD& pt) { cb_log(a, b, c, d, pt); }
static DLLZCallback64 CB64[4] = {nullptr, cb64_tag, cb64_hash, cb64_keep};
static DLLZCallbackD CBD[4] = {nullptr, cbD_tag, cbD_hash, cbD_keep};

// one `call` step on the int64 side: export, then native with the callback `want` (null = none registered)
static void zh_call64(std::ostream& os, bool tree, int ct, int fr, bool pc, bool rs, int nulls,
                      const Paths64& sub, const Paths64& subo, const Paths64& clp, DLLZCallback64 want, int64_t base, uint64_t salt) {
  U64 ua(h_enc_paths(sub, nulls & 1)), ub(h_enc_paths(subo, nulls & 2)), uc(h_enc_paths(clp, nulls & 4));
  int64_t* s1 = SENT64; int64_t* s2 = SENT64;
  cb_reset(base, salt);
  int rc = !tree ? BooleanOp64((uint8_t)ct, (uint8_t)fr, ua.get(), ub.get(), uc.get(), s1, s2, pc, rs)
                 : BooleanOp_PolyTree64((uint8_t)ct, (uint8_t)fr, ua.get(), ub.get(), uc.get(), s1, s2, pc, rs);
  CbState ex = g_cb;
  os << " RC " << rc;
  if (rc != 0) { os << " UNTOUCHED " << (s1 == SENT64 && s2 == SENT64); return; }
  cb_reset(base, salt);
  Clipper64 cl; cl.PreserveCollinear(pc); cl.ReverseSolution(rs);
  if (want) cl.SetZCallback(want);
  cl.AddSubject(sub); cl.AddOpenSubject(subo); cl.AddClip(clp);
  Paths64 nopen; bool ok, cmp;
  if (!tree) {
    Paths64 nsol; ok = cl.Execute(ClipType(ct), FillRule(fr), nsol, nopen);
    os << " CB " << ex.calls << ' ' << ex.hash << ' ' << g_cb.calls << ' ' << g_cb.hash;
    finish(os, s1, nsol, "A1", "N1"); cmp = agrees(s1, nsol);
  } else {
    PolyTree64 nt; ok = cl.Execute(ClipType(ct), FillRule(fr), nt, nopen);
    os << " CB " << ex.calls << ' ' << ex.hash << ' ' << g_cb.calls << ' ' << g_cb.hash;
    os << " A1 "; pr_raw(os, s1); os << " NT "; pr_tree<PolyPath64, int64_t>(os, nt); cmp = tree_agrees<PolyPath64, int64_t>(s1, nt);
  }
  finish(os, s2, nopen, "A2", "N2"); cmp = cmp && agrees(s2, nopen) && ok;
  os << " CMP " << cmp;
  DisposeArray64(s1); DisposeArray64(s2);
}
static void zh_callD(std::ostream& os, bool tree, int ct, int fr, int prec, bool pc, bool rs, int nulls,
                     const PathsD& sub, const PathsD& subo, const PathsD& clp, DLLZCallbackD want, int64_t base, uint64_t salt) {
  UD ua(h_enc_paths(sub, nulls & 1)), ub(h_enc_paths(subo, nulls & 2)), uc(h_enc_paths(clp, nulls & 4));
  double* s1 = SENTD; double* s2 = SENTD;
  cb_reset(base, salt);
  int rc = !tree ? BooleanOpD((uint8_t)ct, (uint8_t)fr, ua.get(), ub.get(), uc.get(), s1, s2, prec, pc, rs)
                 : BooleanOp_PolyTreeD((uint8_t)ct, (uint8_t)fr, ua.get(), ub.get(), uc.get(), s1, s2, prec, pc, rs);
  CbState ex = g_cb;
  os << " RC " << rc;
  if (rc != 0) { os << " UNTOUCHED " << (s1 == SENTD && s2 == SENTD); return; }
  cb_reset(base, salt);
  ClipperD cl(prec); cl.PreserveCollinear(pc); cl.ReverseSolution(rs);
  if (want) cl.SetZCallback(want);
  cl.AddSubject(sub); cl.AddOpenSubject(subo); cl.AddClip(clp);
  PathsD nopen; bool ok, cmp;
  if (!tree) {
    PathsD nsol; ok = cl.Execute(ClipType(ct), FillRule(fr), nsol, nopen);
    os << " CB " << ex.calls << ' ' << ex.hash << ' ' << g_cb.calls << ' ' << g_cb.hash;
    finish(os, s1, nsol, "A1", "N1"); cmp = agrees(s1, nsol);
  } else {
    PolyTreeD nt; ok = cl.Execute(ClipType(ct), FillRule(fr), nt, nopen);
    os << " CB " << ex.calls << ' ' << ex.hash << ' ' << g_cb.calls << ' ' << g_cb.hash;
    os << " A1 "; pr_raw(os, s1); os << " NT "; pr_tree<PolyPathD, double>(os, nt); cmp = tree_agrees<PolyPathD, double>(s1, nt);
  }
  finish(os, s2, nopen, "A2", "N2"); cmp = cmp && agrees(s2, nopen) && ok;
  os << " CMP " << cmp;
  DisposeArrayD(s1); DisposeArrayD(s2);
}
static PathsD zh_to_d(const Paths64& ps, double dv) {
  PathsD r; r.reserve(ps.size());
  for (auto& p : ps) { PathD q; q.reserve(p.size()); for (auto& v : p) q.push_back(PointD((double)v.x / dv, (double)v.y / dv, v.z)); r.push_back(std::move(q)); }
  return r;
}
// ZH ct fr prec pc rs nulls dvbits nsteps {setop fn base salt}*nsteps <ps64 subj> <ps64 subj_open> <ps64 clip>
//   setop 0: leave the registration alone; 1..4: SetZCallback64(null / TAG / HASH / KEEP); 5..8: SetZCallbackD(likewise)
//   fn    0 BooleanOp64  1 BooleanOp_PolyTree64  2 BooleanOpD  3 BooleanOp_PolyTreeD   (D inputs: x / dv, y / dv, same z)
// output: one section per step, sections separated by ` | `:
//   STEP fn ST <dllCallback64 set?> <dllCallbackD set?> <expected 64> <expected D> RC .. CB <export calls, hash> <native calls, hash> A1 .. CMP ..
static void zh(Toks& t, std::ostream& os) {
  int ct = t.i32(), fr = t.i32(), prec = t.i32(); bool pc = t.b(), rs = t.b(); int nulls = t.i32();
  double dv = dbl_of(t.u64()); int nsteps = t.i32();
  struct Step { int setop, fn; int64_t base; uint64_t salt; };
  std::vector<Step> steps;
  for (int i = 0; i < nsteps; ++i) { Step s; s.setop = t.i32(); s.fn = t.i32(); s.base = t.i64(); s.salt = t.u64(); steps.push_back(s); }
  Paths64 sub = rd_ps64(t), subo = rd_ps64(t), clp = rd_ps64(t);
  PathsD subD = zh_to_d(sub, dv), suboD = zh_to_d(subo, dv), clpD = zh_to_d(clp, dv);
  DLLZCallback64 want64 = nullptr; DLLZCallbackD wantD = nullptr;   // the history's view of the two registrations
  for (int i = 0; i < nsteps; ++i) {
    const Step& s = steps[i];
    if (s.setop < 0 || s.setop > 8 || s.fn < 0 || s.fn > 3) { os << "ERR bad step"; return; }
    if (s.setop >= 1 && s.setop <= 4) { want64 = CB64[s.setop - 1]; SetZCallback64(want64); }
    if (s.setop >= 5) { wantD = CBD[s.setop - 5]; SetZCallbackD(wantD); }
    if (i) os << " | ";
    os << "STEP " << s.fn << " ST " << (bool)dllCallback64 << ' ' << (bool)dllCallbackD << ' ' << (want64 != nullptr) << ' ' << (wantD != nullptr);
    if (s.fn < 2) zh_call64(os, s.fn == 1, ct, fr, pc, rs, nulls, sub, subo, clp, want64, s.base, s.salt);
    else zh_callD(os, s.fn == 3, ct, fr, prec, pc, rs, nulls, subD, suboD, clpD, wantD, s.base, s.salt);
  }
}
#endif

static void handle(Toks& t, std::ostream& os) {
  const std::string cmd = t.next();
#ifdef USINGZ
  // every input line starts from the state of a freshly loaded library (no callback registered), whatever line the
  // same process handled before: assigned directly, not through the setters under test
  dllCallback64 = nullptr; dllCallbackD = nullptr;
  if (cmd == "ZH") { try { zh(t, os); } catch (...) { dllCallback64 = nullptr; dllCallbackD = nullptr; throw; } return; }
#endif
  // ------------------------------------------------------------ marshalling kernels, called directly
  if (cmd == "DIM") { os << D; return; }
  if (cmd == "KE") { g_keep_empty = true; try { handle(t, os); } catch (...) { g_keep_empty = false; throw; } g_keep_empty = false; return; }
  // the decoders on caller-built arrays that keep empty paths as `0, 0` entries (HK64 / HKD / HKS)
  if (cmd == "HK64") {
    Paths64 ps = rd_ps64(t);
    g_keep_empty = true; U64 ua(h_enc_paths(ps, false)); g_keep_empty = false;
    os << "ARR "; pr_raw(os, ua.get());
    Paths64 back = ConvertCPathsToPathsT(ua.get());
    os << " DEC "; pr(os, back); os << " CMP " << same_paths(back, ps);
    return;
  }
  if (cmd == "HKD") {
    PathsD ps = rd_psD(t);
    g_keep_empty = true; UD ua(h_enc_paths(ps, false)); g_keep_empty = false;
    os << "ARR "; pr_raw(os, ua.get());
    PathsD back = ConvertCPathsToPathsT(ua.get());
    os << " DEC "; pr(os, back); os << " CMP " << same_paths(back, ps);
    return;
  }
  if (cmd == "HKS") {   // ConvertCPathsDToPaths64 on a caller-built array against ScalePaths of the same paths
    double scale = dbl_of(t.u64()); PathsD ps = rd_psD(t);
    g_keep_empty = true; UD ua(h_enc_paths(ps, false)); g_keep_empty = false;
    Paths64 back = ConvertCPathsDToPaths64(ua.get(), scale);
    int ec = 0; Paths64 nat = ScalePaths<int64_t, double>(ps, scale, ec);
    os << "DEC "; pr(os, back); os << " NAT "; pr(os, nat); os << " CMP " << same_paths(back, nat);
    return;
  }
  if (cmd == "MK64") {
    Paths64 ps = rd_ps64(t);
    int64_t* a = CreateCPathsFromPathsT(ps);
    os << "ARR "; pr_raw(os, a);
    Paths64 back = ConvertCPathsToPathsT(a);
    os << " DEC "; pr(os, back); os << " CMP " << (agrees(a, ps) && same_paths(back, nonempty(ps)));
    DisposeArray64(a); return;
  }
  if (cmd == "MKD") {
    PathsD ps = rd_psD(t);
    double* a = CreateCPathsDFromPathsD(ps);
    os << "ARR "; pr_raw(os, a);
    PathsD back = ConvertCPathsToPathsT(a);
    os << " DEC "; pr(os, back); os << " CMP " << (agrees(a, ps) && same_paths(back, nonempty(ps)));
    DisposeArrayD(a); return;
  }
  if (cmd == "MKS") {   // scaled creators/converters against the library's own ScalePaths
    double scale = dbl_of(t.u64()); Paths64 ps = rd_ps64(t);
    double* a = CreateCPathsDFromPaths64(ps, scale);
    int ec = 0;
    PathsD nat = ScalePaths<double, int64_t>(ps, scale, ec);
    os << "ARR "; pr_raw(os, a); os << " NAT "; pr(os, nat);
    Paths64 back = ConvertCPathsDToPaths64(a, 1 / scale);
    PathsD dd; bool okd = h_dec_paths(a, dd);
    Paths64 natb = ScalePaths<int64_t, double>(dd, 1 / scale, ec);
    os << " DEC "; pr(os, back); os << " NATB "; pr(os, natb);
    os << " CMP " << (okd && agrees(a, nat) && same_paths(back, natb));
    DisposeArrayD(a); return;
  }
  if (cmd == "MP64") {   // ConvertCPathToPathT on a CPath built by the harness from the documented layout
    Path64 p = rd_p64(t);
    U64 ua(h_enc_path(p)); int64_t* a = ua.get();
    Path64 back = ConvertCPathToPathT(a);
    os << "ARR " << (2 + p.size() * D); for (size_t i = 0; i < 2 + p.size() * D; ++i) os << ' ' << a[i];
    os << " DEC "; pr(os, back); os << " CMP " << same_paths(Paths64{back}, Paths64{p});
    return;
  }
  if (cmd == "MPD") {
    PathD p = rd_pD(t);
    UD ua(h_enc_path(p)); double* a = ua.get();
    PathD back = ConvertCPathToPathT(a);
    os << "ARR " << (2 + p.size() * D); for (size_t i = 0; i < 2 + p.size() * D; ++i) os << ' ' << bits_of(a[i]);
    os << " DEC "; pr(os, back); os << " CMP " << same_paths(PathsD{back}, PathsD{p});
    return;
  }
  if (cmd == "MPS") {
    double scale = dbl_of(t.u64()); PathD p = rd_pD(t);
    UD ua(h_enc_path(p)); double* a = ua.get();
    Path64 back = ConvertCPathDToPath64WithScale(a, scale);
    int ec = 0; Path64 nat = ScalePath<int64_t, double>(p, scale, ec);
    os << "DEC "; pr(os, back); os << " NAT "; pr(os, nat); os << " CMP " << same_paths(Paths64{back}, Paths64{nat});
    return;
  }
  if (cmd == "MT64") {
    PolyTree64 tree; size_t c = (size_t)t.i64(); for (size_t i = 0; i < c; ++i) rd_node64(t, &tree);
    int64_t* a = CreateCPolyTree64(tree);
    os << "ARR "; pr_raw(os, a); os << " CMP " << tree_agrees<PolyPath64, int64_t>(a, tree);
    DisposeArray64(a); return;
  }
  if (cmd == "MTD") {
    PolyTreeD tree; size_t c = (size_t)t.i64(); for (size_t i = 0; i < c; ++i) rd_nodeD(t, &tree);
    double* a = CreateCPolyTreeD(tree);
    os << "ARR "; pr_raw(os, a); os << " CMP " << tree_agrees<PolyPathD, double>(a, tree);
    DisposeArrayD(a); return;
  }
  // ------------------------------------------------------------ the 14 exported functions vs native calls
  if (cmd == "BOOL64" || cmd == "TREE64") {
    int ct = t.i32(), fr = t.i32(); bool pc = t.b(), rs = t.b(); int nulls = t.i32();
    Paths64 sub = rd_ps64(t), subo = rd_ps64(t), clp = rd_ps64(t);
    U64 ua(h_enc_paths(sub, nulls & 1)), ub(h_enc_paths(subo, nulls & 2)), uc(h_enc_paths(clp, nulls & 4));
    int64_t* a = ua.get(); int64_t* b = ub.get(); int64_t* c = uc.get();
    int64_t* s1 = SENT64; int64_t* s2 = SENT64;
    bool valid = ct >= 0 && ct <= 4 && fr >= 0 && fr <= 3;
    int rc = cmd == "BOOL64" ? BooleanOp64((uint8_t)ct, (uint8_t)fr, a, b, c, s1, s2, pc, rs)
                             : BooleanOp_PolyTree64((uint8_t)ct, (uint8_t)fr, a, b, c, s1, s2, pc, rs);
    os << "RC " << rc;
    if (rc != 0 || !valid) { os << " UNTOUCHED " << (s1 == SENT64 && s2 == SENT64); if (rc == 0) { if (s1 != SENT64) DisposeArray64(s1); if (s2 != SENT64) DisposeArray64(s2);} return; }
    Clipper64 cl; cl.PreserveCollinear(pc); cl.ReverseSolution(rs);
    cl.AddSubject(sub); cl.AddOpenSubject(subo); cl.AddClip(clp);
    Paths64 nopen; bool ok, cmp;
    if (cmd == "BOOL64") {
      Paths64 nsol; ok = cl.Execute(ClipType(ct), FillRule(fr), nsol, nopen);
      finish(os, s1, nsol, "A1", "N1"); cmp = agrees(s1, nsol);
    } else {
      PolyTree64 nt; ok = cl.Execute(ClipType(ct), FillRule(fr), nt, nopen);
      os << " A1 "; pr_raw(os, s1); os << " NT "; pr_tree<PolyPath64, int64_t>(os, nt); cmp = tree_agrees<PolyPath64, int64_t>(s1, nt);
    }
    finish(os, s2, nopen, "A2", "N2"); cmp = cmp && agrees(s2, nopen) && ok;
    os << " CMP " << cmp;
    DisposeArray64(s1); DisposeArray64(s2); return;
  }
  if (cmd == "BOOLD" || cmd == "TREED") {
    int ct = t.i32(), fr = t.i32(), prec = t.i32(); bool pc = t.b(), rs = t.b(); int nulls = t.i32();
    PathsD sub = rd_psD(t), subo = rd_psD(t), clp = rd_psD(t);
    UD ua(h_enc_paths(sub, nulls & 1)), ub(h_enc_paths(subo, nulls & 2)), uc(h_enc_paths(clp, nulls & 4));
    double* a = ua.get(); double* b = ub.get(); double* c = uc.get();
    double* s1 = SENTD; double* s2 = SENTD;
    bool valid = ct >= 0 && ct <= 4 && fr >= 0 && fr <= 3 && prec >= -8 && prec <= 8;
    int rc = cmd == "BOOLD" ? BooleanOpD((uint8_t)ct, (uint8_t)fr, a, b, c, s1, s2, prec, pc, rs)
                            : BooleanOp_PolyTreeD((uint8_t)ct, (uint8_t)fr, a, b, c, s1, s2, prec, pc, rs);
    os << "RC " << rc;
    if (rc != 0 || !valid) { os << " UNTOUCHED " << (s1 == SENTD && s2 == SENTD); if (rc == 0) { if (s1 != SENTD) DisposeArrayD(s1); if (s2 != SENTD) DisposeArrayD(s2);} return; }
    ClipperD cl(prec); cl.PreserveCollinear(pc); cl.ReverseSolution(rs);
    cl.AddSubject(sub); cl.AddOpenSubject(subo); cl.AddClip(clp);
    PathsD nopen; bool ok, cmp;
    if (cmd == "BOOLD") {
      PathsD nsol; ok = cl.Execute(ClipType(ct), FillRule(fr), nsol, nopen);
      finish(os, s1, nsol, "A1", "N1"); cmp = agrees(s1, nsol);
    } else {
      PolyTreeD nt; ok = cl.Execute(ClipType(ct), FillRule(fr), nt, nopen);
      os << " A1 "; pr_raw(os, s1); os << " NT "; pr_tree<PolyPathD, double>(os, nt); cmp = tree_agrees<PolyPathD, double>(s1, nt);
    }
    finish(os, s2, nopen, "A2", "N2"); cmp = cmp && agrees(s2, nopen) && ok;
    os << " CMP " << cmp;
    DisposeArrayD(s1); DisposeArrayD(s2); return;
  }
  if (cmd == "INFL64" || cmd == "INFP64") {
    double delta = dbl_of(t.u64()); int jt = t.i32(), et = t.i32(); double ml = dbl_of(t.u64()), at = dbl_of(t.u64()); bool rs = t.b();
    Paths64 ps; int64_t* r;
    if (cmd == "INFL64") { ps = rd_ps64(t); U64 a(h_enc_paths(ps, false)); r = InflatePaths64(a.get(), delta, (uint8_t)jt, (uint8_t)et, ml, at, rs); }
    else { Path64 p = rd_p64(t); ps.push_back(p); U64 a(h_enc_path(p)); r = InflatePath64(a.get(), delta, (uint8_t)jt, (uint8_t)et, ml, at, rs); }
    ClipperOffset co(ml, at, /*preserve_collinear*/ false, /*reverse_solution*/ rs);
    if (cmd == "INFL64") co.AddPaths(ps, JoinType(jt), EndType(et)); else co.AddPath(ps[0], JoinType(jt), EndType(et));
    Paths64 nat; co.Execute(delta, nat);
    finish(os, r, nat, "A1", "N1");
    // the public one-call API, where it has the same arguments (no reverse_solution; delta == 0 returns the input)
    int pub = -1;
    if (!rs && delta != 0) { Paths64 p2 = InflatePaths(ps, delta, JoinType(jt), EndType(et), ml, at); pub = agrees(r, p2); }
    os << " PUB " << pub << " CMP " << agrees(r, nat);
    DisposeArray64(r); return;
  }
  if (cmd == "INFLD" || cmd == "INFPD") {
    double delta = dbl_of(t.u64()); int jt = t.i32(), et = t.i32(), prec = t.i32(); double ml = dbl_of(t.u64()), at = dbl_of(t.u64()); bool rs = t.b();
    PathsD ps; double* r;
    if (cmd == "INFLD") { ps = rd_psD(t); UD a(h_enc_paths(ps, false)); r = InflatePathsD(a.get(), delta, (uint8_t)jt, (uint8_t)et, prec, ml, at, rs); }
    else { PathD p = rd_pD(t); ps.push_back(p); UD a(h_enc_path(p)); r = InflatePathD(a.get(), delta, (uint8_t)jt, (uint8_t)et, prec, ml, at, rs); }
    if (prec < -8 || prec > 8) { os << "NULLRET " << (r == nullptr); if (r) DisposeArrayD(r); return; }
    const double scale = std::pow(10, prec);
    int ec = 0;
    ClipperOffset co(ml, at * scale, /*preserve_collinear*/ false, /*reverse_solution*/ rs);
    Paths64 sp = ScalePaths<int64_t, double>(ps, scale, ec);
    if (cmd == "INFLD") co.AddPaths(sp, JoinType(jt), EndType(et)); else co.AddPath(sp[0], JoinType(jt), EndType(et));
    Paths64 n64; co.Execute(delta * scale, n64);
    PathsD nat = ScalePaths<double, int64_t>(n64, 1 / scale, ec);
    finish(os, r, nat, "A1", "N1");
    int pub = -1;
    if (!rs && delta != 0) { PathsD p2 = InflatePaths(ps, delta, JoinType(jt), EndType(et), ml, prec, at); pub = agrees(r, p2); }
    os << " PUB " << pub << " CMP " << agrees(r, nat);
    DisposeArrayD(r); return;
  }
  if (cmd == "RC64" || cmd == "RCL64") {
    CRect64 cr; cr.left = t.i64(); cr.top = t.i64(); cr.right = t.i64(); cr.bottom = t.i64(); int nulls = t.i32();
    Paths64 ps = rd_ps64(t); U64 a(h_enc_paths(ps, nulls & 1));
    int64_t* r = cmd == "RC64" ? RectClip64(cr, a.get()) : RectClipLines64(cr, a.get());
    Paths64 nat = cmd == "RC64" ? RectClip(mkrect(cr), ps) : RectClipLines(mkrect(cr), ps);
    finish(os, r, nat, "A1", "N1"); os << " CMP " << agrees(r, nat);
    DisposeArray64(r); return;
  }
  if (cmd == "RCD" || cmd == "RCLD") {
    CRectD cr; cr.left = dbl_of(t.u64()); cr.top = dbl_of(t.u64()); cr.right = dbl_of(t.u64()); cr.bottom = dbl_of(t.u64());
    int prec = t.i32(); int nulls = t.i32();
    PathsD ps = rd_psD(t); UD a(h_enc_paths(ps, nulls & 1));
    double* r = cmd == "RCD" ? RectClipD(cr, a.get(), prec) : RectClipLinesD(cr, a.get(), prec);
    if (prec < -8 || prec > 8) { os << "NULLRET " << (r == nullptr); if (r) DisposeArrayD(r); return; }
    PathsD nat = cmd == "RCD" ? RectClip(mkrect(cr), ps, prec) : RectClipLines(mkrect(cr), ps, prec);
    finish(os, r, nat, "A1", "N1"); os << " CMP " << agrees(r, nat);
    DisposeArrayD(r); return;
  }
  if (cmd == "MS64" || cmd == "MD64") {
    bool closed = t.b(); Path64 pat = rd_p64(t), path = rd_p64(t);
    U64 a(h_enc_path(pat)), b(h_enc_path(path));
    CPath64 ca = a.get(), cb = b.get();
    int64_t* r = cmd == "MS64" ? MinkowskiSum64(ca, cb, closed) : MinkowskiDiff64(ca, cb, closed);
    Paths64 nat = cmd == "MS64" ? MinkowskiSum(pat, path, closed) : MinkowskiDiff(pat, path, closed);
    finish(os, r, nat, "A1", "N1"); os << " CMP " << agrees(r, nat);
    DisposeArray64(r); return;
  }
  os << "ERR unknown command " << cmd;
}

int main() { return vfh::main_loop(handle); }
