// Ownership / PolyTree driver (property C04).  One case per line:
//   OPS n k (op args)*
//       n synthetic OutRecs (idx 0..n-1, all with a dummy OutPt), then k owner edits executed by the real functions:
//         S i j   SetOwner(or_i, or_j)                       (caller guarantees i != j, as every call site does)
//         C i     or_i->owner = nullptr
//         R i     or_i->owner = GetRealOutRec(or_i->owner)
//         P i b   or_i->pts = b ? dummy : nullptr
//         N j     r = NewOutRec(); r->pts = dummy; r->owner = or_j                (ProcessHorzJoins split)
//         W j     r = NewOutRec(); r->pts = dummy; r->owner = or_j->owner         (DoSplitOp / ProcessHorzJoins split)
//         V i j   if (IsValidOwner(or_i, or_j)) or_i->owner = or_j                (CheckSplitOwner's guarded assignment)
//         A i j   or_i->splits += or_j          M i j   MoveSplits(or_i, or_j)
//         G i     query GetRealOutRec(or_i)
//         K g i j CheckSplitOwner(or_i, or_j->splits)   (only meant for states in which every OutRec the search can reach
//                 has no points: no geometric test is evaluated; used to replay the witness of the refuted termination theorem;
//                 g is only read by the model: which shape of CheckSplitOwner it is asked for)
//       -> after every op "| <answer> : owner_0 owner_1 ... ; splits_0 , splits_1 , ..."  (-1 = nullptr; answer: G idx, V 0/1, else -)
//   STATE ct fr pc rs <pathsS> <pathsO> <pathsC>
//       the same dump as TREE but WITHOUT calling BuildTree64 ("T 0"): what the owner search would start from, for inputs
//       on which BuildTree64 crashes or hangs
//   TREE ct fr pc rs <pathsS> <pathsO> <pathsC>
//       ExecuteInternal(ct, fr, true); CheckBounds forced twice on every closed OutRec (so that every OutRec either has
//       no points or has a built path and bounds); dump of the ownership state and of the tables the owner search reads
//       (Path1InsidePath2, bounds.Contains); then the real BuildTree64.
//       -> "ok|fail N n (owner has_pts is_open bounds_empty nsplits splits...)*n I <n*n digits> B <n*n digits> T m (idx parent)*m O <open paths>"
//          I[i*n+j] = Path1InsidePath2(or_i->pts, or_j->pts), B[i*n+j] = or_i->bounds.Contains(or_j->bounds) (2 = not applicable);
//          T = PolyTree64 in preorder as (OutRec idx, parent OutRec idx or -1)
//   API64 ct fr pc rs <pathsS> <pathsO> <pathsC>
//   APID prec ct fr pc rs <pathsS> <pathsO> <pathsC>        (ClipperD(prec) on the integer-valued input, output multiplied by
//                                                            the power-of-two scale: exact integers again)
//       -> "ok|fail P <closed paths> <open paths> T cnt (depth isHole nChildren <path>)* TO <open paths of the tree run>
//           A <hex tree.Area()> <hex Area(paths)> S <scale>"
//   EXT64 ct fr pc rs <pathsS> <pathsO> <pathsC>
//       the entry points of clipper.h around a PolyTree64 result, each next to the result it has to equal:
//       -> "ok|fail T <tree> P2P <PolyTreeToPaths64(tree)> FC <CheckPolytreeFullyContainsChildren(tree)>
//           F <tree of the free BooleanOp(ct, fr, S, C, PolyTree64&)> E <tree of Execute(ct, fr, tree) on a fresh default Clipper64 with S, C>
//           FP <paths of the free BooleanOp(ct, fr, S, C)> EP <paths of Execute on a fresh default Clipper64>
//           OS <operator<<(ostream, tree), newlines written as ~>"         <tree> = cnt (depth isHole nChildren <path>)*
//   EXTD prec ct fr pc rs <pathsS> <pathsO> <pathsC>
//       the same for ClipperD(prec) / PolyTreeD on the integer-valued input; everything multiplied by the scale (exact integers);
//       T64 = the tree of Clipper64 on the input multiplied by the scale (what PolyTreeD is the descaled image of)
//       -> "ok|fail S <scale> T <tree> P2P <PolyTreeToPathsD(tree)> T64 <tree> F <tree> E <tree> FP <paths> EP <paths> OS <text>"
//   SYN cnt (depth <path>)*cnt
//       a PolyTree64 built by hand with AddChild (preorder, depth 0 = child of the root)
//       -> "ok T <tree> P2P <paths> FC <0/1> OS <text>"
#include "common.h"
using namespace vfh;

static OutPt* dummy_pt(OutRec* r) { return new OutPt(Point64(0, 0), r); }

static void put_state(std::ostream& os, Clipper64& c, const std::string& ans) {
  os << " | " << ans << " :";
  for (OutRec* r : c.outrec_list_) os << ' ' << (r->owner ? (long long)r->owner->idx : -1LL);
  os << " ;";
  bool first = true;
  for (OutRec* r : c.outrec_list_) {
    if (!first) os << " ,";
    first = false;
    if (r->splits) for (OutRec* s : *r->splits) os << ' ' << s->idx;
  }
}

template <typename PP>
static void put_tree64(const PP& pp, int depth, int& count, std::ostringstream& body, double scale) {
  for (const auto& ch : pp) {
    ++count;
    body << ' ' << depth << ' ' << (ch->IsHole() ? 1 : 0) << ' ' << ch->Count() << ' ';
    const auto& poly = ch->Polygon();
    body << poly.size();
    for (const auto& v : poly) {
      double x = (double)v.x * scale, y = (double)v.y * scale;
      if (x != std::floor(x) || y != std::floor(y)) throw std::runtime_error("inexact descale");
      body << ' ' << (int64_t)x << ' ' << (int64_t)y;
    }
    put_tree64(*ch, depth + 1, count, body, scale);
  }
}

template <typename TR>
static std::string ser_tree(const TR& tree, double scale) {
  std::ostringstream body; int count = 0;
  put_tree64(tree, 0, count, body, scale);
  return std::to_string(count) + body.str();
}

template <typename TR>
static std::string ser_text(const TR& tree) {
  std::ostringstream ss; ss << tree;
  std::string x = ss.str();
  for (char& ch : x) if (ch == '\n') ch = '~';
  return x;
}

static Paths64 rescale(const PathsD& ps, double scale) {
  Paths64 out;
  for (const auto& p : ps) {
    Path64 q;
    for (const auto& v : p) {
      double x = v.x * scale, y = v.y * scale;
      if (x != std::floor(x) || y != std::floor(y)) throw std::runtime_error("inexact descale");
      q.emplace_back((int64_t)x, (int64_t)y);
    }
    out.push_back(q);
  }
  return out;
}

static PathsD to_d(const Paths64& ps) {
  PathsD out;
  for (const auto& p : ps) { PathD q; for (const auto& v : p) q.emplace_back((double)v.x, (double)v.y); out.push_back(q); }
  return out;
}

int main() {
  return main_loop([](Toks& t, std::ostream& os) {
    std::string cmd = t.next();
    if (cmd == "OPS") {
      size_t n = (size_t)t.i64(), k = (size_t)t.i64();
      Clipper64 c;
      std::vector<OutPt*> dummies;
      auto fresh = [&]() { OutRec* r = c.NewOutRec(); OutPt* d = dummy_pt(r); dummies.push_back(d); r->pts = d; return r; };
      for (size_t i = 0; i < n; ++i) fresh();
      os << "ops";
      for (size_t q = 0; q < k; ++q) {
        std::string op = t.next();
        std::string ans = "-";
        auto R = [&](int64_t i) { return c.outrec_list_.at((size_t)i); };
        if (op == "S") { OutRec* a = R(t.i64()); OutRec* b = R(t.i64()); SetOwner(a, b); }
        else if (op == "C") { R(t.i64())->owner = nullptr; }
        else if (op == "R") { OutRec* a = R(t.i64()); a->owner = GetRealOutRec(a->owner); }
        else if (op == "P") { OutRec* a = R(t.i64()); bool b = t.b(); a->pts = b ? dummies.at(a->idx) : nullptr; }
        else if (op == "N") { OutRec* j = R(t.i64()); OutRec* r = fresh(); r->owner = j; }
        else if (op == "W") { OutRec* j = R(t.i64()); OutRec* r = fresh(); r->owner = j->owner; }
        else if (op == "V") { OutRec* a = R(t.i64()); OutRec* b = R(t.i64()); bool v = IsValidOwner(a, b); if (v) a->owner = b; ans = v ? "1" : "0"; }
        else if (op == "A") { OutRec* a = R(t.i64()); OutRec* b = R(t.i64()); if (!a->splits) a->splits = new OutRecList(); a->splits->emplace_back(b); }
        else if (op == "M") { OutRec* a = R(t.i64()); OutRec* b = R(t.i64()); MoveSplits(a, b); }
        else if (op == "G") { OutRec* g = GetRealOutRec(R(t.i64())); ans = g ? std::to_string(g->idx) : "-1"; }
        else if (op == "K") { t.i64(); OutRec* a = R(t.i64()); OutRec* b = R(t.i64()); bool r = b->splits && c.CheckSplitOwner(a, b->splits); ans = r ? "1" : "0"; }
        else throw std::runtime_error("bad op " + op);
        put_state(os, c, ans);
      }
      for (OutRec* r : c.outrec_list_) r->pts = nullptr;
      for (OutPt* d : dummies) delete d;
      c.CleanUp();
    } else if (cmd == "TREE" || cmd == "STATE") {
      int ct = t.i32(), fr = t.i32(); bool pc = t.b(), rs = t.b();
      Paths64 s = t.paths(), o = t.paths(), cl = t.paths();
      Clipper64 c;
      c.PreserveCollinear(pc); c.ReverseSolution(rs);
      c.AddSubject(s); c.AddOpenSubject(o); c.AddClip(cl);
      bool okint = c.ExecuteInternal((ClipType)ct, (FillRule)fr, true);
      if (!okint) { c.CleanUp(); os << "fail"; return; }
      for (int pass = 0; pass < 2; ++pass)
        for (size_t i = 0; i < c.outrec_list_.size(); ++i) {
          OutRec* r = c.outrec_list_[i];
          if (r->is_open || !r->pts) continue;
          c.CheckBounds(r);
        }
      size_t n = c.outrec_list_.size();
      os << "ok N " << n;
      for (OutRec* r : c.outrec_list_) {
        os << ' ' << (r->owner ? (long long)r->owner->idx : -1LL) << ' ' << (r->pts ? 1 : 0) << ' ' << (r->is_open ? 1 : 0)
           << ' ' << (r->bounds.IsEmpty() ? 1 : 0) << ' ' << (r->splits ? r->splits->size() : 0);
        if (r->splits) for (OutRec* sp : *r->splits) os << ' ' << sp->idx;
      }
      std::string I(n * n, '2'), B(n * n, '2');
      for (size_t i = 0; i < n; ++i) for (size_t j = 0; j < n; ++j) {
        OutRec* a = c.outrec_list_[i]; OutRec* b = c.outrec_list_[j];
        if (a->is_open || b->is_open || !a->pts || !b->pts) continue;
        I[i * n + j] = Path1InsidePath2(a->pts, b->pts) ? '1' : '0';
        B[i * n + j] = a->bounds.Contains(b->bounds) ? '1' : '0';
      }
      os << " I " << (n ? I : "-") << " B " << (n ? B : "-");
      if (cmd == "STATE") { os << " T 0 O 0"; c.CleanUp(); return; }
      PolyTree64 tree; Paths64 open;
      c.BuildTree64(tree, open);
      std::map<const PolyPath*, long long> who;
      who[&tree] = -1;
      for (OutRec* r : c.outrec_list_) if (r->polypath) who[r->polypath] = (long long)r->idx;
      std::ostringstream body; size_t m = 0;
      std::function<void(const PolyPath64&)> walk = [&](const PolyPath64& pp) {
        for (const auto& ch : pp) {
          ++m;
          auto it = who.find(ch.get()); auto ip = who.find(ch->Parent());
          body << ' ' << (it == who.end() ? -2 : it->second) << ' ' << (ip == who.end() ? -2 : ip->second);
          walk(*ch);
        }
      };
      walk(tree);
      os << " T " << m << body.str() << " O "; put(os, open);
      c.CleanUp();
    } else if (cmd == "API64" || cmd == "APID") {
      int prec = 0;
      if (cmd == "APID") prec = t.i32();
      int ct = t.i32(), fr = t.i32(); bool pc = t.b(), rs = t.b();
      Paths64 s = t.paths(), o = t.paths(), cl = t.paths();
      std::ostringstream body; int count = 0; bool ok1, ok2; double scale = 1.0, ta, pa;
      Paths64 closed, open, topen;
      if (cmd == "API64") {
        { Clipper64 c; c.PreserveCollinear(pc); c.ReverseSolution(rs); c.AddSubject(s); c.AddOpenSubject(o); c.AddClip(cl);
          ok1 = c.Execute((ClipType)ct, (FillRule)fr, closed, open); }
        { Clipper64 c; c.PreserveCollinear(pc); c.ReverseSolution(rs); c.AddSubject(s); c.AddOpenSubject(o); c.AddClip(cl);
          PolyTree64 tree; ok2 = c.Execute((ClipType)ct, (FillRule)fr, tree, topen);
          put_tree64(tree, 0, count, body, 1.0); ta = tree.Area(); }
        pa = Area(closed);
      } else {
        PathsD cd, od, tod;
        { ClipperD c(prec); scale = c.scale_; c.PreserveCollinear(pc); c.ReverseSolution(rs); c.AddSubject(to_d(s)); c.AddOpenSubject(to_d(o)); c.AddClip(to_d(cl));
          ok1 = c.Execute((ClipType)ct, (FillRule)fr, cd, od); }
        { ClipperD c(prec); c.PreserveCollinear(pc); c.ReverseSolution(rs); c.AddSubject(to_d(s)); c.AddOpenSubject(to_d(o)); c.AddClip(to_d(cl));
          PolyTreeD tree; ok2 = c.Execute((ClipType)ct, (FillRule)fr, tree, tod);
          put_tree64(tree, 0, count, body, scale); ta = tree.Area(); }
        closed = rescale(cd, scale); open = rescale(od, scale); topen = rescale(tod, scale);
        pa = Area(cd);
      }
      os << ((ok1 && ok2) ? "ok" : "fail") << " P "; put(os, closed); os << ' '; put(os, open);
      os << " T " << count << body.str() << " TO "; put(os, topen);
      os << " A " << hexd(ta) << ' ' << hexd(pa) << " S " << (long long)scale;
    } else if (cmd == "EXT64") {
      int ct = t.i32(), fr = t.i32(); bool pc = t.b(), rs = t.b();
      Paths64 s = t.paths(), o = t.paths(), cl = t.paths();
      PolyTree64 tree, ftree, etree; Paths64 topen, fp, ep; bool ok;
      { Clipper64 c; c.PreserveCollinear(pc); c.ReverseSolution(rs); c.AddSubject(s); c.AddOpenSubject(o); c.AddClip(cl);
        ok = c.Execute((ClipType)ct, (FillRule)fr, tree, topen); }
      BooleanOp((ClipType)ct, (FillRule)fr, s, cl, ftree);
      fp = BooleanOp((ClipType)ct, (FillRule)fr, s, cl);
      { Clipper64 c; c.AddSubject(s); c.AddClip(cl); ok = c.Execute((ClipType)ct, (FillRule)fr, etree) && ok; }
      { Clipper64 c; c.AddSubject(s); c.AddClip(cl); ok = c.Execute((ClipType)ct, (FillRule)fr, ep) && ok; }
      os << (ok ? "ok" : "fail") << " T " << ser_tree(tree, 1.0) << " P2P "; put(os, PolyTreeToPaths64(tree));
      os << " FC " << (CheckPolytreeFullyContainsChildren(tree) ? 1 : 0);
      os << " F " << ser_tree(ftree, 1.0) << " E " << ser_tree(etree, 1.0) << " FP "; put(os, fp); os << " EP "; put(os, ep);
      os << " OS " << ser_text(tree);
    } else if (cmd == "EXTD") {
      int prec = t.i32();
      int ct = t.i32(), fr = t.i32(); bool pc = t.b(), rs = t.b();
      Paths64 s = t.paths(), o = t.paths(), cl = t.paths();
      PathsD sd = to_d(s), od = to_d(o), cd = to_d(cl);
      PolyTreeD tree, ftree, etree; PathsD topen, fp, ep; PolyTree64 t64; Paths64 t64open; bool ok; double scale;
      { ClipperD c(prec); scale = c.scale_; c.PreserveCollinear(pc); c.ReverseSolution(rs); c.AddSubject(sd); c.AddOpenSubject(od); c.AddClip(cd);
        ok = c.Execute((ClipType)ct, (FillRule)fr, tree, topen); }
      { int64_t k = (int64_t)scale;
        auto mul = [&](Paths64 ps) { for (auto& p : ps) for (auto& v : p) { v.x *= k; v.y *= k; } return ps; };
        Clipper64 c; c.PreserveCollinear(pc); c.ReverseSolution(rs); c.AddSubject(mul(s)); c.AddOpenSubject(mul(o)); c.AddClip(mul(cl));
        ok = c.Execute((ClipType)ct, (FillRule)fr, t64, t64open) && ok; }
      BooleanOp((ClipType)ct, (FillRule)fr, sd, cd, ftree, prec);
      fp = BooleanOp((ClipType)ct, (FillRule)fr, sd, cd, prec);
      { ClipperD c(prec); c.AddSubject(sd); c.AddClip(cd); ok = c.Execute((ClipType)ct, (FillRule)fr, etree) && ok; }
      { ClipperD c(prec); c.AddSubject(sd); c.AddClip(cd); ok = c.Execute((ClipType)ct, (FillRule)fr, ep) && ok; }
      os << (ok ? "ok" : "fail") << " S " << (long long)scale << " T " << ser_tree(tree, scale) << " P2P "; put(os, rescale(PolyTreeToPathsD(tree), scale));
      os << " T64 " << ser_tree(t64, 1.0);
      os << " F " << ser_tree(ftree, scale) << " E " << ser_tree(etree, scale) << " FP "; put(os, rescale(fp, scale)); os << " EP "; put(os, rescale(ep, scale));
      os << " OS " << ser_text(tree);
    } else if (cmd == "SYN") {
      size_t cnt = (size_t)t.i64();
      PolyTree64 tree;
      std::vector<PolyPath64*> stack;            // stack[d] = the last node added at depth d
      for (size_t i = 0; i < cnt; ++i) {
        size_t d = (size_t)t.i64(); Path64 p = t.path();
        if (d > stack.size()) throw std::runtime_error("bad depth");
        PolyPath64* parent = d == 0 ? &tree : stack[d - 1];
        PolyPath64* nd = parent->AddChild(p);
        stack.resize(d); stack.push_back(nd);
      }
      os << "ok T " << ser_tree(tree, 1.0) << " P2P "; put(os, PolyTreeToPaths64(tree));
      os << " FC " << (CheckPolytreeFullyContainsChildren(tree) ? 1 : 0) << " OS " << ser_text(tree);
    } else { os << "EXC unknown command " << cmd; }
  });
}
