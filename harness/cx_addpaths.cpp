// C10 -- the real AddPaths_ (clipper.engine.cpp) on arbitrary path lists: HM+X tie for coq/model/VertexAlloc.v.
//
//   AP <is_open 0|1> <paths>
//   -> A <total> <consumed> (x y next prev)*total      the whole `new Vertex[total_vertex_count]` array after the call;
//                                                       next/prev as slot indices, -1 = nullptr, -2 = a pointer that
//                                                       does not point into the array (never expected)
//      A 0 0                                            nothing was allocated
// <consumed> is the number of slots handed out (`v - vertices` at the end).  The library does not keep that value;
// it is recomputed here from the array alone: the slots of a linked path are the ring members plus the dropped closing
// vertex (if any), which are exactly the slots whose prev pointer is non-null or whose next pointer is non-null; a
// rejected path leaves prev == next == nullptr in slots that the next path overwrites, so consumed = 1 + the highest
// slot index with a non-null pointer (0 when there is none).
// The array is released with delete[] like ~ClipperBase does; ASan checks every access against the allocation.
#include "common.h"
using namespace vfh;

int main() {
  return main_loop([](Toks& t, std::ostream& os) {
    std::string cmd = t.next();
    if (cmd != "AP") { os << "EXC unknown command " << cmd; return; }
    bool is_open = t.b();
    Paths64 ps = t.paths();
    size_t total = 0; for (auto& p : ps) total += p.size();
    std::vector<Vertex*> vlists; LocalMinimaList lml;
    AddPaths_(ps, PathType::Subject, is_open, vlists, lml);
    if (vlists.empty()) { os << "A 0 0" << (total == 0 ? "" : " MISSING"); return; }
    Vertex* a = vlists[0];
    auto idx = [&](const Vertex* p) -> long long { if (!p) return -1; if (p < a || p >= a + total) return -2; return (long long)(p - a); };
    size_t consumed = 0;
    for (size_t i = 0; i < total; ++i) if (a[i].next || a[i].prev) consumed = i + 1;
    os << "A " << total << ' ' << consumed;
    for (size_t i = 0; i < total; ++i) os << ' ' << a[i].pt.x << ' ' << a[i].pt.y << ' ' << idx(a[i].next) << ' ' << idx(a[i].prev);
    for (auto v : vlists) delete[] v;
  });
}
