// cx_errors: line-protocol driver for property C11 -- the C export layer, MakePath and CheckPrecisionRange.
// (The PathsD entry points and ScalePath/ScalePaths/PolyPathD are driven through cx_scale, built with and without exceptions.)
//   X <export> <args>      -> THROW <code> -1 | RC <n> [P <closed> <open>] | NULL | PTR P <paths> 0
//   MAKEPATH <n> v...      -> THROW 4 -1 | OK -1 -1 P 1 <k> x y ... 0          (MakePath(std::vector<int64_t>))
//   MAKEPATHD <n> v...     -> same with MakePathD(std::vector<double>)
//   CPR <precision> <ec>   -> THROW 1 <ec> | OK <ec> <precision'>               (CheckPrecisionRange(int&, int&))
// Works with and without C++ exceptions (variant noexc).
#if !defined(__cpp_exceptions)
// common.h uses try/catch/throw; neutralise them for the -fno-exceptions build (std headers first so that
// they are not affected; common.h's own std #includes are then no-ops).
#include <algorithm>
#include <array>
#include <atomic>
#include <cfloat>
#include <chrono>
#include <climits>
#include <cmath>
#include <csignal>
#include <cstddef>
#include <cstdint>
#include <cstdio>
#include <cstdlib>
#include <cstring>
#include <deque>
#include <fstream>
#include <functional>
#include <iomanip>
#include <iostream>
#include <iterator>
#include <limits>
#include <list>
#include <map>
#include <memory>
#include <mutex>
#include <new>
#include <numeric>
#include <optional>
#include <queue>
#include <set>
#include <sstream>
#include <stdexcept>
#include <string>
#include <thread>
#include <tuple>
#include <type_traits>
#include <unordered_map>
#include <unordered_set>
#include <utility>
#include <vector>
namespace { struct vf_noexc_exception { const char* what() const { return "exceptions disabled"; } }; }
static const vf_noexc_exception e;
#define try if (true)
#define catch(...) else if (false)
#define throw (std::abort(), 0),
#include "common.h"
#include "clipper2/clipper.export.h"
#undef try
#undef catch
#undef throw
#else
#include "common.h"
#include "clipper2/clipper.export.h"
#endif

using namespace Clipper2Lib;
using vfh::Toks;
using vfh::put;
using vfh::hexd;

namespace {

int code_of(const std::string& what) {
  if (what == "Precision exceeds the permitted range") return 1;
  if (what == "Invalid scale (either 0 or too large)") return 2;
  if (what == "There must be 2 values for each coordinate") return 4;
  if (what == "There is an undefined error in Clipper2") return 32;
  if (what == "Values exceed permitted range") return 64;
  return -999;
}

// run f; false + exception text if a Clipper2Exception left it
template <class F> bool guarded(F f, std::string& what) {
#if defined(__cpp_exceptions)
  try { f(); return true; }
  catch (const Clipper2Exception& ex) { what = ex.what(); return false; }
#else
  (void)what; f(); return true;
#endif
}

void put_throw(std::ostream& os, const std::string& what, int ec) {
  int c = code_of(what);
  os << "THROW " << c << ' ' << ec;
  if (c == -999) os << " ?" << what;
}


template <class T> struct Arr {          // owns a C array created by the library's own marshalling code
  T* p = nullptr;
  ~Arr() { delete[] p; }
};

void put_cpathsd(std::ostream& os, CPathsD r) {
  PathsD ps = ConvertCPathsToPathsT<double>(r);
  os << "P "; put(os, ps); os << " 0";
}

void run_X(Toks& t, std::ostream& os) {
  std::string x = t.next();
  std::string what;
  if (x == "BooleanOp64" || x == "BooleanOp_PolyTree64") {
    int ct = t.i32(), fr = t.i32();
    Paths64 S = t.paths(), O = t.paths(), C = t.paths();
    Arr<int64_t> s, o, c, sol, solo;
    s.p = S.empty() ? nullptr : CreateCPathsFromPathsT(S);
    o.p = O.empty() ? nullptr : CreateCPathsFromPathsT(O);
    c.p = C.empty() ? nullptr : CreateCPathsFromPathsT(C);
    int rc = 0;
    bool ok = guarded([&] {
      if (x == "BooleanOp64") rc = BooleanOp64((uint8_t)ct, (uint8_t)fr, s.p, o.p, c.p, sol.p, solo.p, true, false);
      else rc = BooleanOp_PolyTree64((uint8_t)ct, (uint8_t)fr, s.p, o.p, c.p, sol.p, solo.p, true, false);
    }, what);
    if (!ok) { put_throw(os, what, -1); return; }
    os << "RC " << rc;
    if (rc == 0 && x == "BooleanOp64") {
      os << " P "; put(os, ConvertCPathsToPathsT<int64_t>(sol.p)); os << ' '; put(os, ConvertCPathsToPathsT<int64_t>(solo.p));
    }
    return;
  }
  if (x == "BooleanOpD" || x == "BooleanOp_PolyTreeD") {
    int ct = t.i32(), fr = t.i32(), p = t.i32();
    PathsD S = t.pathsd(), O = t.pathsd(), C = t.pathsd();
    Arr<double> s, o, c, sol, solo;
    s.p = CreateCPathsDFromPathsD(S); o.p = CreateCPathsDFromPathsD(O); c.p = CreateCPathsDFromPathsD(C);
    int rc = 0;
    bool ok = guarded([&] {
      if (x == "BooleanOpD") rc = BooleanOpD((uint8_t)ct, (uint8_t)fr, s.p, o.p, c.p, sol.p, solo.p, p, true, false);
      else rc = BooleanOp_PolyTreeD((uint8_t)ct, (uint8_t)fr, s.p, o.p, c.p, sol.p, solo.p, p, true, false);
    }, what);
    if (!ok) { put_throw(os, what, -1); return; }
    os << "RC " << rc;
    if (rc == 0 && x == "BooleanOpD") {
      os << " P "; put(os, ConvertCPathsToPathsT<double>(sol.p)); os << ' '; put(os, ConvertCPathsToPathsT<double>(solo.p));
    } else if (rc == 0) {
      os << (sol.p ? " TREE" : " NOTREE");
    }
    return;
  }
  if (x == "InflatePathsD" || x == "InflatePathD") {
    int p = t.i32(), jt = t.i32(), et = t.i32(); double ml = t.dbl(), delta = t.dbl(), arc = t.dbl();
    PathsD ps = t.pathsd();
    Arr<double> in, out;
    bool ok = guarded([&] {
      if (x == "InflatePathsD") { in.p = CreateCPathsDFromPathsD(ps); out.p = InflatePathsD(in.p, delta, (uint8_t)jt, (uint8_t)et, p, ml, arc, false); }
      else {
        // a CPathD is N, 0, x1, y1, ...
        const PathD& q = ps.empty() ? PathD() : ps[0];
        in.p = new double[2 + 2 * q.size()];
        in.p[0] = (double)q.size(); in.p[1] = 0;
        for (size_t i = 0; i < q.size(); ++i) { in.p[2 + 2 * i] = q[i].x; in.p[3 + 2 * i] = q[i].y; }
        out.p = InflatePathD(in.p, delta, (uint8_t)jt, (uint8_t)et, p, ml, arc, false);
      }
    }, what);
    if (!ok) { put_throw(os, what, -1); return; }
    if (!out.p) { os << "NULL"; return; }
    os << "PTR "; put_cpathsd(os, out.p);
    return;
  }
  if (x == "RectClipD" || x == "RectClipLinesD") {
    int p = t.i32(); CRectD r; r.left = t.dbl(); r.top = t.dbl(); r.right = t.dbl(); r.bottom = t.dbl();
    PathsD ps = t.pathsd();
    Arr<double> in, out;
    bool ok = guarded([&] {
      in.p = CreateCPathsDFromPathsD(ps);
      if (x == "RectClipD") out.p = RectClipD(r, in.p, p); else out.p = RectClipLinesD(r, in.p, p);
    }, what);
    if (!ok) { put_throw(os, what, -1); return; }
    if (!out.p) { os << "NULL"; return; }
    os << "PTR "; put_cpathsd(os, out.p);
    return;
  }
  os << "ERR unknown export " << x;
}

}  // namespace

int main() {
  return vfh::main_loop([](Toks& t, std::ostream& os) {
    std::string cmd = t.next();
    std::string what;
    if (cmd == "X") run_X(t, os);
    else if (cmd == "MAKEPATH" || cmd == "MAKEPATHD") {
      size_t n = (size_t)t.i64();
      std::vector<int64_t> v; std::vector<double> d;
      for (size_t i = 0; i < n; ++i) { int64_t z = t.i64(); v.push_back(z); d.push_back((double)z); }
      Path64 r; PathD rd;
      bool ok = guarded([&] { if (cmd == "MAKEPATH") r = MakePath(v); else rd = MakePathD(d); }, what);
      if (!ok) { put_throw(os, what, -1); return; }
      if (cmd == "MAKEPATHD") for (auto& q : rd) r.emplace_back((int64_t)q.x, (int64_t)q.y);
      os << "OK -1 -1 P "; put(os, Paths64{r}); os << " 0";
    }
    else if (cmd == "CPR") {
      int p = t.i32(), ec = t.i32();
      bool ok = guarded([&] { CheckPrecisionRange(p, ec); }, what);
      if (!ok) { put_throw(os, what, ec); return; }
      os << "OK " << ec << ' ' << p;
    }
    else os << "ERR unknown command " << cmd;
  });
}
