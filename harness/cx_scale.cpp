// cx_scale: line-protocol driver for property C16 (and the PathsD part of C11).
//   LIBM                                  -> the libm values the scale selection depends on, and ClipperD's scale_/invScale_
//   D <entry> <precision> <args...>       -> the PathsD entry point itself
//   I <entry> <args...>                   -> the corresponding 64-bit entry point on integer arguments
//   K <kernel> <args...>                  -> ScalePath / ScalePaths / ScaleRect / Point64(double,double) called directly
// Output of D/I/K:  THROW <code> <ec>  |  OK <ec> <ret> <result>
//   <ec> = ClipperD::ErrorCode() / the int& error_code argument, -1 if the entry has no observable error code
//   <ret> = return value of Execute, -1 if none
//   <result> = P <closed paths> <open paths>  |  T <nnodes> {<level> <ishole>}* <polygons in preorder> <open paths>
// Doubles are C99 hex floats.  Works with and without C++ exceptions (variant noexc).
#if !defined(__cpp_exceptions)
// common.h uses try/catch/throw; neutralise them for the -fno-exceptions build (std headers first so that
// they are not affected; common.h's own std #includes are then no-ops).
#include <algorithm>
#include <array>
#include <atomic>
#include <cfloat>
#include <chrono>
#include <climits>
#include <cmath>
#include <csignal>
#include <cstddef>
#include <cstdint>
#include <cstdio>
#include <cstdlib>
#include <cstring>
#include <deque>
#include <fstream>
#include <functional>
#include <iomanip>
#include <iostream>
#include <iterator>
#include <limits>
#include <list>
#include <map>
#include <memory>
#include <mutex>
#include <new>
#include <numeric>
#include <optional>
#include <queue>
#include <set>
#include <sstream>
#include <stdexcept>
#include <string>
#include <thread>
#include <tuple>
#include <type_traits>
#include <unordered_map>
#include <unordered_set>
#include <utility>
#include <vector>
namespace { struct vf_noexc_exception { const char* what() const { return "exceptions disabled"; } }; }
static const vf_noexc_exception e;
#define try if (true)
#define catch(...) else if (false)
#define throw (std::abort(), 0),
#include "common.h"
#undef try
#undef catch
#undef throw
#else
#include "common.h"
#endif

using namespace Clipper2Lib;
using vfh::Toks;
using vfh::put;
using vfh::hexd;

namespace {

int code_of(const std::string& what) {
  if (what == "Precision exceeds the permitted range") return 1;
  if (what == "Invalid scale (either 0 or too large)") return 2;
  if (what == "There must be 2 values for each coordinate") return 4;
  if (what == "There is an undefined error in Clipper2") return 32;
  if (what == "Values exceed permitted range") return 64;
  return -999;
}

// run f; false + exception text if a Clipper2Exception left it
template <class F> bool guarded(F f, std::string& what) {
#if defined(__cpp_exceptions)
  try { f(); return true; }
  catch (const Clipper2Exception& ex) { what = ex.what(); return false; }
#else
  (void)what; f(); return true;
#endif
}

void put_throw(std::ostream& os, const std::string& what, int ec) {
  int c = code_of(what);
  os << "THROW " << c << ' ' << ec;
  if (c == -999) os << " ?" << what;
}

template <class PS> void put_P(std::ostream& os, const PS& closed, const PS& open) {
  os << "P "; put(os, closed); os << ' '; put(os, open);
}

void walk(const PolyPathD& n, std::vector<std::pair<unsigned, bool>>& st, PathsD& polys) {
  st.emplace_back(n.Level(), n.IsHole()); polys.push_back(n.Polygon());
  for (size_t i = 0; i < n.Count(); ++i) walk(*n.Child(i), st, polys);
}
void walk(const PolyPath64& n, std::vector<std::pair<unsigned, bool>>& st, Paths64& polys) {
  st.emplace_back(n.Level(), n.IsHole()); polys.push_back(n.Polygon());
  for (size_t i = 0; i < n.Count(); ++i) walk(*n.Child(i), st, polys);
}
template <class TREE, class PS> void put_T(std::ostream& os, const TREE& tree, const PS& open) {
  std::vector<std::pair<unsigned, bool>> st; PS polys;
  walk(tree, st, polys);
  os << "T " << st.size();
  for (auto& s : st) os << ' ' << s.first << ' ' << (s.second ? 1 : 0);
  os << ' '; put(os, polys); os << ' '; put(os, open);
}

RectD rectd(Toks& t) { double l = t.dbl(), tp = t.dbl(), r = t.dbl(), b = t.dbl(); return RectD(l, tp, r, b); }
Rect64 rect64(Toks& t) { int64_t l = t.i64(), tp = t.i64(), r = t.i64(), b = t.i64(); return Rect64(l, tp, r, b); }
PathD first_or_empty(const PathsD& ps) { return ps.empty() ? PathD() : ps[0]; }
Path64 first_or_empty(const Paths64& ps) { return ps.empty() ? Path64() : ps[0]; }

// ---------------------------------------------------------------- D entries
void run_D(Toks& t, std::ostream& os) {
  std::string en = t.next();
  int p = t.i32();
  std::string what;
  if (en == "clipperD" || en == "clipperD_tree") {
    int ct = t.i32(), fr = t.i32(); bool pc = t.b(), rs = t.b();
    PathsD S = t.pathsd(), O = t.pathsd(), C = t.pathsd();
    std::optional<ClipperD> c;
    PathsD closed, open; PolyTreeD tree; bool ret = false; bool is_tree = (en == "clipperD_tree");
    bool ok = guarded([&] {
      c.emplace(p);
      c->PreserveCollinear(pc); c->ReverseSolution(rs);
      c->AddSubject(S); c->AddOpenSubject(O); c->AddClip(C);
      if (is_tree) ret = c->Execute(ClipType(ct), FillRule(fr), tree, open);
      else ret = c->Execute(ClipType(ct), FillRule(fr), closed, open);
    }, what);
    if (!ok) { put_throw(os, what, c ? c->ErrorCode() : -1); return; }
    os << "OK " << c->ErrorCode() << ' ' << (ret ? 1 : 0) << ' ';
    if (is_tree) put_T(os, tree, open); else put_P(os, closed, open);
    return;
  }
  if (en == "booleanop" || en == "booleanop_tree" || en == "intersect" || en == "union" || en == "difference" ||
      en == "xor" || en == "union1") {
    int ct = 0;
    if (en == "booleanop" || en == "booleanop_tree") ct = t.i32();
    int fr = t.i32();
    PathsD S = t.pathsd(), C;
    if (en != "union1") C = t.pathsd();
    PathsD res; PolyTreeD tree;
    bool ok = guarded([&] {
      if (en == "booleanop") res = BooleanOp(ClipType(ct), FillRule(fr), S, C, p);
      else if (en == "booleanop_tree") BooleanOp(ClipType(ct), FillRule(fr), S, C, tree, p);
      else if (en == "intersect") res = Intersect(S, C, FillRule(fr), p);
      else if (en == "union") res = Union(S, C, FillRule(fr), p);
      else if (en == "difference") res = Difference(S, C, FillRule(fr), p);
      else if (en == "xor") res = Xor(S, C, FillRule(fr), p);
      else res = Union(S, FillRule(fr), p);
    }, what);
    if (!ok) { put_throw(os, what, -1); return; }
    os << "OK -1 -1 ";
    if (en == "booleanop_tree") put_T(os, tree, PathsD()); else put_P(os, res, PathsD());
    return;
  }
  if (en == "inflate") {
    int jt = t.i32(), et = t.i32(); double ml = t.dbl(), delta = t.dbl(), arc = t.dbl();
    PathsD ps = t.pathsd(), res;
    bool ok = guarded([&] { res = InflatePaths(ps, delta, JoinType(jt), EndType(et), ml, p, arc); }, what);
    if (!ok) { put_throw(os, what, -1); return; }
    os << "OK -1 -1 "; put_P(os, res, PathsD());
    return;
  }
  if (en == "rectclip" || en == "rectclip1" || en == "rectcliplines" || en == "rectcliplines1") {
    RectD r = rectd(t); PathsD ps = t.pathsd(), res;
    bool ok = guarded([&] {
      if (en == "rectclip") res = RectClip(r, ps, p);
      else if (en == "rectclip1") res = RectClip(r, first_or_empty(ps), p);
      else if (en == "rectcliplines") res = RectClipLines(r, ps, p);
      else res = RectClipLines(r, first_or_empty(ps), p);
    }, what);
    if (!ok) { put_throw(os, what, -1); return; }
    os << "OK -1 -1 "; put_P(os, res, PathsD());
    return;
  }
  if (en == "minksum" || en == "minkdiff") {
    bool closed = t.b(); PathsD pat = t.pathsd(), pth = t.pathsd(), res;
    bool ok = guarded([&] {
      if (en == "minksum") res = MinkowskiSum(first_or_empty(pat), first_or_empty(pth), closed, p);
      else res = MinkowskiDiff(first_or_empty(pat), first_or_empty(pth), closed, p);
    }, what);
    if (!ok) { put_throw(os, what, -1); return; }
    os << "OK -1 -1 "; put_P(os, res, PathsD());
    return;
  }
  if (en == "trim") {
    bool open = t.b(); PathsD ps = t.pathsd(); PathD res;
    bool ok = guarded([&] { res = TrimCollinear(first_or_empty(ps), p, open); }, what);
    if (!ok) { put_throw(os, what, -1); return; }
    os << "OK -1 -1 "; put_P(os, PathsD{res}, PathsD());
    return;
  }
  os << "ERR unknown D entry " << en;
}

// ---------------------------------------------------------------- 64-bit entries
void run_I(Toks& t, std::ostream& os) {
  std::string en = t.next();
  if (en == "clipperD" || en == "clipperD_tree") {
    int ct = t.i32(), fr = t.i32(); bool pc = t.b(), rs = t.b();
    Paths64 S = t.paths(), O = t.paths(), C = t.paths();
    Clipper64 c; c.PreserveCollinear(pc); c.ReverseSolution(rs);
    c.AddSubject(S); c.AddOpenSubject(O); c.AddClip(C);
    Paths64 closed, open; PolyTree64 tree; bool ret;
    if (en == "clipperD_tree") ret = c.Execute(ClipType(ct), FillRule(fr), tree, open);
    else ret = c.Execute(ClipType(ct), FillRule(fr), closed, open);
    os << "OK " << c.ErrorCode() << ' ' << (ret ? 1 : 0) << ' ';
    if (en == "clipperD_tree") put_T(os, tree, open); else put_P(os, closed, open);
    return;
  }
  if (en == "booleanop" || en == "booleanop_tree" || en == "intersect" || en == "union" || en == "difference" ||
      en == "xor" || en == "union1") {
    int ct = 0;
    if (en == "booleanop" || en == "booleanop_tree") ct = t.i32();
    int fr = t.i32();
    Paths64 S = t.paths(), C;
    if (en != "union1") C = t.paths();
    Paths64 res; PolyTree64 tree;
    if (en == "booleanop") res = BooleanOp(ClipType(ct), FillRule(fr), S, C);
    else if (en == "booleanop_tree") BooleanOp(ClipType(ct), FillRule(fr), S, C, tree);
    else if (en == "intersect") res = Intersect(S, C, FillRule(fr));
    else if (en == "union") res = Union(S, C, FillRule(fr));
    else if (en == "difference") res = Difference(S, C, FillRule(fr));
    else if (en == "xor") res = Xor(S, C, FillRule(fr));
    else res = Union(S, FillRule(fr));
    os << "OK -1 -1 ";
    if (en == "booleanop_tree") put_T(os, tree, Paths64()); else put_P(os, res, Paths64());
    return;
  }
  if (en == "inflate") {
    int jt = t.i32(), et = t.i32(); double ml = t.dbl(), delta = t.dbl(), arc = t.dbl();
    Paths64 ps = t.paths();
    Paths64 res = InflatePaths(ps, delta, JoinType(jt), EndType(et), ml, arc);
    os << "OK -1 -1 "; put_P(os, res, Paths64());
    return;
  }
  if (en == "rectclip" || en == "rectclip1" || en == "rectcliplines" || en == "rectcliplines1") {
    Rect64 r = rect64(t); Paths64 ps = t.paths(), res;
    if (en == "rectclip") res = RectClip(r, ps);
    else if (en == "rectclip1") res = RectClip(r, first_or_empty(ps));
    else if (en == "rectcliplines") res = RectClipLines(r, ps);
    else res = RectClipLines(r, first_or_empty(ps));
    os << "OK -1 -1 "; put_P(os, res, Paths64());
    return;
  }
  if (en == "minksum" || en == "minkdiff") {
    bool closed = t.b(); Paths64 pat = t.paths(), pth = t.paths(), res;
    if (en == "minksum") res = MinkowskiSum(first_or_empty(pat), first_or_empty(pth), closed);
    else res = MinkowskiDiff(first_or_empty(pat), first_or_empty(pth), closed);
    os << "OK -1 -1 "; put_P(os, res, Paths64());
    return;
  }
  if (en == "trim") {
    bool open = t.b(); Paths64 ps = t.paths();
    Path64 res = TrimCollinear(first_or_empty(ps), open);
    os << "OK -1 -1 "; put_P(os, Paths64{res}, Paths64());
    return;
  }
  os << "ERR unknown I entry " << en;
}

// ---------------------------------------------------------------- kernels called directly
void run_K(Toks& t, std::ostream& os) {
  std::string k = t.next();
  std::string what;
  if (k == "scalepath" || k == "scalepaths") {
    double sx = t.dbl(), sy = t.dbl(); int ec = t.i32(); PathsD ps = t.pathsd(); Paths64 res;
    bool ok = guarded([&] {
      if (k == "scalepath") res = Paths64{ScalePath<int64_t, double>(first_or_empty(ps), sx, sy, ec)};
      else res = ScalePaths<int64_t, double>(ps, sx, sy, ec);
    }, what);
    if (!ok) { put_throw(os, what, ec); return; }
    os << "OK " << ec << " -1 "; put_P(os, res, Paths64());
    return;
  }
  if (k == "descalepath" || k == "descalepaths") {
    double sx = t.dbl(), sy = t.dbl(); int ec = t.i32(); Paths64 ps = t.paths(); PathsD res;
    bool ok = guarded([&] {
      if (k == "descalepath") res = PathsD{ScalePath<double, int64_t>(first_or_empty(ps), sx, sy, ec)};
      else res = ScalePaths<double, int64_t>(ps, sx, sy, ec);
    }, what);
    if (!ok) { put_throw(os, what, ec); return; }
    os << "OK " << ec << " -1 "; put_P(os, res, PathsD());
    return;
  }
  if (k == "scalerect") {
    double s = t.dbl(); RectD r = rectd(t);
    Rect64 q = ScaleRect<int64_t, double>(r, s);
    os << "OK -1 -1 R " << q.left << ' ' << q.top << ' ' << q.right << ' ' << q.bottom;
    return;
  }
  if (k == "point") {       // Point<int64_t>(double, double) and Point64 * double
    double x = t.dbl(), y = t.dbl();
    Point64 q(x, y);
    os << "OK -1 -1 P 1 1 " << q.x << ' ' << q.y << " 0";
    return;
  }
  if (k == "polypathd") {   // PolyPathD with scale_ = s : AddChild(Path64)
    double s = t.dbl(); Paths64 ps = t.paths(); PathD res;
    bool ok = guarded([&] {
      PolyTreeD root; root.SetScale(s);
      PolyPathD* ch = root.AddChild(first_or_empty(ps));
      res = ch->Polygon();
    }, what);
    if (!ok) { put_throw(os, what, -1); return; }
    os << "OK -1 -1 "; put_P(os, PathsD{res}, PathsD());
    return;
  }
  os << "ERR unknown kernel " << k;
}

void run_LIBM(std::ostream& os) {
  // volatile: the calls must go to the run-time libm exactly as in the library, not be folded by the compiler
  os << "LIBM 25";
  for (int p0 = -12; p0 <= 12; ++p0) {
    volatile int p = p0;
    double pw = std::pow(10, p);
    int il = std::ilogb(pw);
    volatile int il1 = il + 1;
    double p2 = std::pow(std::numeric_limits<double>::radix, il1);
    os << ' ' << p0 << ' ' << hexd(pw) << ' ' << il << ' ' << hexd(p2);
    if (p0 >= -8 && p0 <= 8) { ClipperD c(p); os << ' ' << hexd(c.scale_) << ' ' << hexd(c.invScale_); }
    else os << " - -";
  }
}

}  // namespace

int main() {
  return vfh::main_loop([](Toks& t, std::ostream& os) {
    std::string cmd = t.next();
    if (cmd == "D") run_D(t, os);
    else if (cmd == "I") run_I(t, os);
    else if (cmd == "K") run_K(t, os);
    else if (cmd == "LIBM") run_LIBM(os);
    else os << "ERR unknown command " << cmd;
  });
}
