// Tie between coq/model/Sweep1D.v and clipper.engine.cpp.
//   SWC ct fr n (pt d wc wc2 hot open)*n pos pt d open
//       builds a synthetic AEL of n edges, links a fresh Active at position pos and calls the real
//       SetWindCountForClosedPathEdge / SetWindCountForOpenPathEdge and IsContributingClosed / Open
//       -> "wc wc2 contributing"
//   ISECT ct fr same ph  pt d wc wc2 hot open  pt d wc wc2 hot open
//       AEL = [P (hot closed edge with side ph, if ph != 0)] e1 e2 ; calls the real IntersectEdges(e1, e2, pt)
//       -> "ok|fail wc wc2 hot  wc wc2 hot"       (hot: 0 none, 1 front, 2 back)
//   SNAP ct fr <pathsS> <pathsO> <pathsC>
//       drives the body of ClipperBase::ExecuteInternal step by step and snapshots the AEL between phases
//       -> "ok|fail k (n (pt d wc wc2 hot open joined)*n)*k"
#include "common.h"
using namespace vfh;

struct Synth {
  Clipper64 c;
  std::deque<Vertex> verts;
  std::deque<LocalMinima> lms;
  std::vector<Active*> edges;
  Vertex* vert(int64_t x, int64_t y, VertexFlags f = VertexFlags::Empty) { verts.push_back(Vertex{Point64(x, y), nullptr, nullptr, f}); return &verts.back(); }
  Active* mk(int pt, int d, int wc, int wc2, int hot, bool open) {
    Active* e = new Active();
    Vertex* vb = vert(0, 100);          // local minimum vertex (never equal to the intersection point)
    Vertex* vt = vert(0, -100);         // top vertex: not an open end, not a maximum
    lms.emplace_back(vb, (PathType)pt, open);
    e->local_min = &lms.back();
    e->vertex_top = vt;
    e->bot = Point64(0, 100); e->top = Point64(0, -100); e->curr_x = 0;
    e->wind_dx = d; e->wind_cnt = wc; e->wind_cnt2 = wc2;
    if (hot) {
      OutRec* o = c.NewOutRec();
      OutPt* op = new OutPt(Point64(0, 100), o);
      o->pts = op;
      if (open) o->is_open = true;
      if (hot == 1) o->front_edge = e; else o->back_edge = e;
      e->outrec = o;
    }
    edges.push_back(e);
    return e;
  }
  void link() {
    c.actives_ = edges.empty() ? nullptr : edges[0];
    for (size_t i = 0; i < edges.size(); ++i) {
      edges[i]->prev_in_ael = i ? edges[i - 1] : nullptr;
      edges[i]->next_in_ael = i + 1 < edges.size() ? edges[i + 1] : nullptr;
    }
  }
  static int hotcode(const Active* e) { if (!e->outrec) return 0; return (e == e->outrec->front_edge) ? 1 : 2; }
  ~Synth() { c.CleanUp(); }
};

static void snapshot(ClipperBase& c, std::ostringstream& body, int& k) {
  int n = 0; std::ostringstream s;
  for (Active* e = c.actives_; e; e = e->next_in_ael) {
    ++n;
    s << ' ' << (int)e->local_min->polytype << ' ' << e->wind_dx << ' ' << e->wind_cnt << ' ' << e->wind_cnt2 << ' '
      << Synth::hotcode(e) << ' ' << (e->local_min->is_open ? 1 : 0) << ' ' << (e->join_with != JoinWith::NoJoin ? 1 : 0);
  }
  body << ' ' << n << s.str(); ++k;
}

int main() {
  return main_loop([](Toks& t, std::ostream& os) {
    std::string cmd = t.next();
    if (cmd == "SWC") {
      int ct = t.i32(), fr = t.i32(); int n = t.i32();
      Synth s; bool any_open = false;
      for (int i = 0; i < n; ++i) { int pt = t.i32(), d = t.i32(), wc = t.i32(), wc2 = t.i32(), hot = t.i32(); bool op = t.b(); any_open |= op; s.mk(pt, d, wc, wc2, hot, op); }
      int pos = t.i32(), pt = t.i32(), d = t.i32(); bool op = t.b(); any_open |= op;
      Active* e = s.mk(pt, d, 0, 0, 0, op);
      s.edges.pop_back(); s.edges.insert(s.edges.begin() + pos, e);
      s.link();
      s.c.cliptype_ = (ClipType)ct; s.c.fillrule_ = (FillRule)fr; s.c.has_open_paths_ = any_open;
      bool contributing;
      if (op) { s.c.SetWindCountForOpenPathEdge(*e); contributing = s.c.IsContributingOpen(*e); }
      else { s.c.SetWindCountForClosedPathEdge(*e); contributing = s.c.IsContributingClosed(*e); }
      os << e->wind_cnt << ' ' << e->wind_cnt2 << ' ' << (contributing ? 1 : 0);
    } else if (cmd == "ISECT") {
      int ct = t.i32(), fr = t.i32(); bool same = t.b(); int ph = t.i32();
      Synth s;
      if (ph) s.mk(0, 1, 1, 0, ph, false);
      int pt1 = t.i32(), d1 = t.i32(), wc1 = t.i32(), v1 = t.i32(), h1 = t.i32(); bool o1 = t.b();
      int pt2 = t.i32(), d2 = t.i32(), wc2 = t.i32(), v2 = t.i32(), h2 = t.i32(); bool o2 = t.b();
      Active* e1 = s.mk(pt1, d1, wc1, v1, h1, o1);
      Active* e2 = s.mk(pt2, d2, wc2, v2, h2, o2);
      if (same && h1 && h2 && h1 != h2) {   // both on one OutRec (front and back of the same ring)
        OutRec* o = e1->outrec; OutRec* old = e2->outrec;
        if (h2 == 1) o->front_edge = e2; else o->back_edge = e2;
        e2->outrec = o; old->front_edge = old->back_edge = nullptr;
        delete old->pts; old->pts = nullptr;
      }
      s.link();
      s.c.cliptype_ = (ClipType)ct; s.c.fillrule_ = (FillRule)fr; s.c.has_open_paths_ = o1 || o2;
      s.c.succeeded_ = true; s.c.using_polytree_ = false;
      s.c.IntersectEdges(*e1, *e2, Point64(5, 5));
      os << (s.c.succeeded_ ? "ok " : "fail ") << e1->wind_cnt << ' ' << e1->wind_cnt2 << ' ' << Synth::hotcode(e1) << ' '
         << e2->wind_cnt << ' ' << e2->wind_cnt2 << ' ' << Synth::hotcode(e2);
    } else if (cmd == "SNAP") {
      int ct = t.i32(), fr = t.i32();
      Paths64 sp = t.paths(), op = t.paths(), cp = t.paths();
      Clipper64 c; c.AddSubject(sp); c.AddOpenSubject(op); c.AddClip(cp);
      std::ostringstream body; int k = 0;
      // ---- replica of ClipperBase::ExecuteInternal (its token hash is checked by the python side) ----
      c.cliptype_ = (ClipType)ct; c.fillrule_ = (FillRule)fr; c.using_polytree_ = false;
      c.Reset();
      int64_t y;
      if (!((ClipType)ct == ClipType::NoClip || !c.PopScanline(y))) {
        while (c.succeeded_) {
          c.InsertLocalMinimaIntoAEL(y);
          Active* e;
          while (c.PopHorz(e)) c.DoHorizontal(*e);
          if (c.horz_seg_list_.size() > 0) { c.ConvertHorzSegsToJoins(); c.horz_seg_list_.clear(); }
          c.bot_y_ = y;
          snapshot(c, body, k);
          if (!c.PopScanline(y)) break;
          c.DoIntersections(y);
          snapshot(c, body, k);
          c.DoTopOfScanbeam(y);
          while (c.PopHorz(e)) c.DoHorizontal(*e);
        }
        if (c.succeeded_) c.ProcessHorzJoins();
      }
      bool ok = c.succeeded_;
      Paths64 closed, open; c.BuildPaths64(closed, &open); c.CleanUp();
      os << (ok ? "ok " : "fail ") << k << body.str();
    } else os << "EXC unknown command " << cmd;
  });
}
