// C15 harness.  Built twice (plain and -DUSINGZ): both builds read IDENTICAL lines (paths always carry a z per
// vertex: "<npaths> <n> x y z ..."; the plain build reads and ignores z, callback mode and DefaultZ) and print the
// x,y results in the same format first, so the two outputs can be compared as strings.  The z build appends
// " Z <z of every result vertex in order>" and " L <callback log>".
//   cb: 0 no callback | 1 callback assigns fresh tags 2^40+k and logs | 2 callback writes pseudo-random z (seeded)
//       | 3 callback installed, writes nothing, logs
//   BOOL  ct fr pc rs cb dz seed <S> <O> <C>            Clipper64
//   BOOLD prec ct fr pc rs cb dz seed <S> <O> <C>       ClipperD (coordinates read with strtod)
//   BOOLX  form hist <BOOL arguments>  |  BOOLDX form hist <BOOLD arguments>   every Execute overload (paths / polytree, with and
//        without the open-paths result) and callback histories on one object, see run_hist below; same output format
//   OFFS  jt et ml at delta pc rs cb seed <paths>       ClipperOffset::AddPaths + Execute(delta)
//   OFFSX hist <OFFS arguments>                         callback set / removed / set late between two Executes of one object
//   RECT l t r b <paths> | RECTL l t r b <paths>        RectClip / RectClipLines
//   RECTD / RECTLD prec l t r b <paths>                 double overloads
// z build only (kernel ties):
//   SETZ t1 t2 cb dz  e1bot e1top e2bot e2top ip  (each "x y z"; t: 0 subject 1 clip)   real ClipperBase::SetZ on
//        two synthetic Active edges -> "<ip.z after> <ncalls> [a.x a.y a.z]*4 zin"  (callback argument order)
//   SPLITZ cb <ring>   real ClipperBase::DoSplitOp on a synthetic OutRec ring (>= 4 points, starting at prevOp)
//        -> "G ipx ipy ipz small keep K <kept ring x y z|-1> N <new ring|-1> L ncalls [4 args x y z, zin]*"
//   ZCBD prec  e1bot e1top e2bot e2top ip   real ClipperD::ZCB with a logging user callback
//        -> 5 points as hex doubles x y + z as received by the user callback, then pt.x pt.y pt.z after
//   EQ x y z x y z                          operator== / operator!=
//   STRIP closed <path> | TRANSL dx dy <path> | SCALE sx sy <path> | TRIM open <path> | MINK sum closed <pattern> <path>
//        z of the results of StripDuplicates / TranslatePath / ScalePath<int64,int64> / TrimCollinear / detail::Minkowski
#include "common.h"
using namespace vfh;

#ifdef USINGZ
#define ZARG(z) , (z)
#else
#define ZARG(z)
#endif

static Path64 rd_pathz(Toks& t) {
  size_t n = (size_t)t.i64(); Path64 p; p.reserve(n);
  for (size_t k = 0; k < n; ++k) { int64_t x = t.i64(), y = t.i64(), z = t.i64(); (void)z; p.push_back(Point64(x, y ZARG(z))); }
  return p;
}
static Paths64 rd_pathsz(Toks& t) { size_t n = (size_t)t.i64(); Paths64 ps; ps.reserve(n); for (size_t k = 0; k < n; ++k) ps.push_back(rd_pathz(t)); return ps; }
static PathD rd_pathdz(Toks& t) {
  size_t n = (size_t)t.i64(); PathD p; p.reserve(n);
  for (size_t k = 0; k < n; ++k) { double x = t.dbl(), y = t.dbl(); int64_t z = t.i64(); (void)z; p.push_back(PointD(x, y ZARG(z))); }
  return p;
}
static PathsD rd_pathsdz(Toks& t) { size_t n = (size_t)t.i64(); PathsD ps; ps.reserve(n); for (size_t k = 0; k < n; ++k) ps.push_back(rd_pathdz(t)); return ps; }
static Point64 rd_ptz(Toks& t) { int64_t x = t.i64(), y = t.i64(), z = t.i64(); (void)z; return Point64(x, y ZARG(z)); }

#ifdef USINGZ
template <typename P> static void put_z(std::ostream& os, const std::vector<std::vector<P>>& ps) {
  for (auto& p : ps) for (auto& v : p) os << ' ' << v.z;
}
static uint64_t mix(uint64_t z) { z += 0x9E3779B97F4A7C15ULL; z = (z ^ (z >> 30)) * 0xBF58476D1CE4E5B9ULL; z = (z ^ (z >> 27)) * 0x94D049BB133111EBULL; return z ^ (z >> 31); }
static int64_t arb_z(uint64_t seed, uint64_t k) {
  uint64_t h = mix(seed * 1315423911ULL + k);
  switch (h % 5) { case 0: return 0; case 1: return (int64_t)(h >> 8) % 7; case 2: return -(int64_t)((h >> 8) % 1000);
                   case 3: return (int64_t)(h >> 1); default: return INT64_MIN + (int64_t)((h >> 8) % 3); }
}
struct Log64 { std::ostringstream s; size_t n = 0; uint64_t seed = 0; int cb = 0;
  void operator()(const Point64& a, const Point64& b, const Point64& c, const Point64& d, Point64& p) {
    int64_t zin = p.z;
    if (cb == 1) p.z = ((int64_t)1 << 40) + (int64_t)n; else if (cb == 2) p.z = arb_z(seed, n);
    s << ' ' << a.x << ' ' << a.y << ' ' << a.z << ' ' << b.x << ' ' << b.y << ' ' << b.z << ' ' << c.x << ' ' << c.y << ' ' << c.z
      << ' ' << d.x << ' ' << d.y << ' ' << d.z << ' ' << p.x << ' ' << p.y << ' ' << zin << ' ' << p.z;
    ++n; } };
struct LogD { std::ostringstream s; size_t n = 0; uint64_t seed = 0; int cb = 0;
  void operator()(const PointD& a, const PointD& b, const PointD& c, const PointD& d, PointD& p) {
    int64_t zin = p.z;
    if (cb == 1) p.z = ((int64_t)1 << 40) + (int64_t)n; else if (cb == 2) p.z = arb_z(seed, n);
    auto w = [&](const PointD& q) { s << ' ' << hexd(q.x) << ' ' << hexd(q.y) << ' ' << q.z; };
    w(a); w(b); w(c); w(d); s << ' ' << hexd(p.x) << ' ' << hexd(p.y) << ' ' << zin << ' ' << p.z;
    ++n; } };
#endif

#ifndef USINGZ
struct Log64 { uint64_t seed = 0; int cb = 0; }; struct LogD { uint64_t seed = 0; int cb = 0; };
#endif
struct X64 { typedef Clipper64 CL; typedef Paths64 PS; typedef PolyTree64 TR; typedef Point64 PT; typedef Log64 LG; };
struct XD { typedef ClipperD CL; typedef PathsD PS; typedef PolyTreeD TR; typedef PointD PT; typedef LogD LG; };
template <typename PP, typename PS> static void flat(const PP& pp, PS& out) {   // preorder: polygon, then its children
  for (size_t i = 0; i < pp.Count(); ++i) { out.push_back(pp.Child(i)->Polygon()); flat(*pp.Child(i), out); }
}
// every entry point of a clipper that can produce Z, and callback histories on ONE object.
//   form: 0 Execute(ct,fr,closed) | 1 Execute(ct,fr,closed,open) | 2 Execute(ct,fr,tree) | 3 Execute(ct,fr,tree,open)
//         (a tree is printed flattened in preorder)
//   hist: 0 [callback set if cb] Execute(form)
//         1 [callback set if cb] Execute(the other family: paths<->tree) then Execute(form)
//         2 callback set, Execute(other family), callback REMOVED (SetZCallback(nullptr)), Execute(form)   -> as without callback
//         3 no callback, Execute(other family), callback set, Execute(form)
//   only the last Execute is printed / logged
template <typename X> static bool run_hist(typename X::CL& clp, typename X::LG* lg, int form, int hist, int cb, int ct, int fr,
                                           typename X::PS& closed, typename X::PS& open) {
  typedef typename X::PT PT;
  auto setcb = [&]() {
#ifdef USINGZ
    clp.SetZCallback([lg](const PT& a, const PT& b, const PT& c_, const PT& d, PT& p) { (*lg)(a, b, c_, d, p); });
#endif
  };
  auto clrcb = [&]() {
#ifdef USINGZ
    clp.SetZCallback(nullptr);
#endif
  };
  auto reset = [&]() {
#ifdef USINGZ
    lg->s.str(""); lg->n = 0;
#endif
  };
  auto exec = [&](int f) -> bool {
    closed.clear(); open.clear();
    if (f == 0) return clp.Execute((ClipType)ct, (FillRule)fr, closed);
    if (f == 1) return clp.Execute((ClipType)ct, (FillRule)fr, closed, open);
    typename X::TR tree; bool ok;
    if (f == 2) ok = clp.Execute((ClipType)ct, (FillRule)fr, tree); else ok = clp.Execute((ClipType)ct, (FillRule)fr, tree, open);
    flat(tree, closed); return ok;
  };
  const int other = form < 2 ? 3 : 1;
  (void)lg;
  switch (hist) {
    case 0: if (cb) setcb(); return exec(form);
    case 1: if (cb) setcb(); exec(other); reset(); return exec(form);
    case 2: setcb(); exec(other); clrcb(); reset(); return exec(form);
    default: exec(other); setcb(); reset(); return exec(form);
  }
}

int main() {
  return main_loop([](Toks& t, std::ostream& os) {
    std::string cmd = t.next();
    if (cmd == "BOOLX") {
      int form = t.i32(), hist = t.i32();
      int ct = t.i32(), fr = t.i32(); bool pc = t.b(), rs = t.b(); int cb = t.i32(); int64_t dz = t.i64(); uint64_t seed = t.u64();
      Paths64 s = rd_pathsz(t), o = rd_pathsz(t), c = rd_pathsz(t);
      Clipper64 clp; clp.PreserveCollinear(pc); clp.ReverseSolution(rs);
      Log64 lg; lg.seed = seed; lg.cb = cb; (void)dz;
#ifdef USINGZ
      clp.DefaultZ = dz;
#endif
      clp.AddSubject(s); clp.AddOpenSubject(o); clp.AddClip(c);
      Paths64 closed, open; bool ok = run_hist<X64>(clp, &lg, form, hist, cb, ct, fr, closed, open);
      os << (ok ? "ok " : "fail "); put(os, closed); os << ' '; put(os, open);
#ifdef USINGZ
      os << " Z"; put_z(os, closed); put_z(os, open); os << " L " << lg.n << lg.s.str();
#endif
    } else if (cmd == "BOOLDX") {
      int form = t.i32(), hist = t.i32();
      int prec = t.i32(); int ct = t.i32(), fr = t.i32(); bool pc = t.b(), rs = t.b(); int cb = t.i32(); int64_t dz = t.i64(); uint64_t seed = t.u64();
      PathsD s = rd_pathsdz(t), o = rd_pathsdz(t), c = rd_pathsdz(t);
      ClipperD clp(prec); clp.PreserveCollinear(pc); clp.ReverseSolution(rs);
      LogD lg; lg.seed = seed; lg.cb = cb; (void)dz;
#ifdef USINGZ
      clp.DefaultZ = dz;
#endif
      clp.AddSubject(s); clp.AddOpenSubject(o); clp.AddClip(c);
      PathsD closed, open; bool ok = run_hist<XD>(clp, &lg, form, hist, cb, ct, fr, closed, open);
      os << (ok ? "ok " : "fail ") << hexd(clp.scale_) << ' '; put(os, closed); os << ' '; put(os, open);
#ifdef USINGZ
      os << " Z"; put_z(os, closed); put_z(os, open); os << " L " << lg.n << lg.s.str();
#endif
    } else if (cmd == "OFFSX") {
      // one ClipperOffset object: hist 0 [callback if cb] Execute | 1 callback set, Execute, callback removed, Execute | 2 no callback, Execute, callback set, Execute
      int hist = t.i32();
      int jt = t.i32(), et = t.i32(); double ml = t.dbl(), at = t.dbl(), delta = t.dbl(); bool pc = t.b(), rs = t.b(); int cb = t.i32(); uint64_t seed = t.u64();
      Paths64 ps = rd_pathsz(t);
      ClipperOffset co(ml, at, pc, rs);
      Log64 lg; lg.seed = seed; lg.cb = cb;
      auto setcb = [&]() {
#ifdef USINGZ
        co.SetZCallback([&](const Point64& a, const Point64& b, const Point64& c_, const Point64& d, Point64& p) { lg(a, b, c_, d, p); });
#endif
      };
      co.AddPaths(ps, (JoinType)jt, (EndType)et);
      Paths64 sol;
      if (hist == 0) { if (cb) setcb(); co.Execute(delta, sol); }
      else if (hist == 1) { setcb(); co.Execute(delta, sol);
#ifdef USINGZ
        co.SetZCallback(nullptr); lg.s.str(""); lg.n = 0;
#endif
        sol.clear(); co.Execute(delta, sol); }
      else { co.Execute(delta, sol); setcb(); sol.clear(); co.Execute(delta, sol); }
      os << "ok " << co.ErrorCode() << ' '; put(os, sol);
#ifdef USINGZ
      os << " Z"; put_z(os, sol); os << " L " << lg.n << lg.s.str();
#endif
    } else if (cmd == "BOOL") {
      int ct = t.i32(), fr = t.i32(); bool pc = t.b(), rs = t.b(); int cb = t.i32(); int64_t dz = t.i64(); uint64_t seed = t.u64();
      Paths64 s = rd_pathsz(t), o = rd_pathsz(t), c = rd_pathsz(t);
      Clipper64 clp; clp.PreserveCollinear(pc); clp.ReverseSolution(rs);
#ifdef USINGZ
      Log64 lg; lg.seed = seed; lg.cb = cb; clp.DefaultZ = dz;
      if (cb) clp.SetZCallback([&](const Point64& a, const Point64& b, const Point64& c_, const Point64& d, Point64& p) { lg(a, b, c_, d, p); });
#endif
      clp.AddSubject(s); clp.AddOpenSubject(o); clp.AddClip(c);
      Paths64 closed, open; bool ok = clp.Execute((ClipType)ct, (FillRule)fr, closed, open);
      os << (ok ? "ok " : "fail "); put(os, closed); os << ' '; put(os, open);
#ifdef USINGZ
      os << " Z"; put_z(os, closed); put_z(os, open); os << " L " << lg.n << lg.s.str();
#endif
    } else if (cmd == "BOOLD") {
      int prec = t.i32(); int ct = t.i32(), fr = t.i32(); bool pc = t.b(), rs = t.b(); int cb = t.i32(); int64_t dz = t.i64(); uint64_t seed = t.u64();
      PathsD s = rd_pathsdz(t), o = rd_pathsdz(t), c = rd_pathsdz(t);
      ClipperD clp(prec); clp.PreserveCollinear(pc); clp.ReverseSolution(rs);
#ifdef USINGZ
      LogD lg; lg.seed = seed; lg.cb = cb; clp.DefaultZ = dz;
      if (cb) clp.SetZCallback([&](const PointD& a, const PointD& b, const PointD& c_, const PointD& d, PointD& p) { lg(a, b, c_, d, p); });
#endif
      clp.AddSubject(s); clp.AddOpenSubject(o); clp.AddClip(c);
      PathsD closed, open; bool ok = clp.Execute((ClipType)ct, (FillRule)fr, closed, open);
      os << (ok ? "ok " : "fail ") << hexd(clp.scale_) << ' '; put(os, closed); os << ' '; put(os, open);
#ifdef USINGZ
      os << " Z"; put_z(os, closed); put_z(os, open); os << " L " << lg.n << lg.s.str();
#endif
    } else if (cmd == "OFFS") {
      int jt = t.i32(), et = t.i32(); double ml = t.dbl(), at = t.dbl(), delta = t.dbl(); bool pc = t.b(), rs = t.b(); int cb = t.i32(); uint64_t seed = t.u64();
      Paths64 ps = rd_pathsz(t);
      ClipperOffset co(ml, at, pc, rs);
#ifdef USINGZ
      Log64 lg; lg.seed = seed; lg.cb = cb;
      if (cb) co.SetZCallback([&](const Point64& a, const Point64& b, const Point64& c_, const Point64& d, Point64& p) { lg(a, b, c_, d, p); });
#endif
      co.AddPaths(ps, (JoinType)jt, (EndType)et);
      Paths64 sol; co.Execute(delta, sol);
      os << "ok " << co.ErrorCode() << ' '; put(os, sol);
#ifdef USINGZ
      os << " Z"; put_z(os, sol); os << " L " << lg.n << lg.s.str();
#endif
    } else if (cmd == "RECT" || cmd == "RECTL") {
      int64_t l = t.i64(), tp = t.i64(), r = t.i64(), b = t.i64(); Paths64 ps = rd_pathsz(t);
      Paths64 sol = (cmd == "RECT") ? RectClip(Rect64(l, tp, r, b), ps) : RectClipLines(Rect64(l, tp, r, b), ps);
      os << "ok "; put(os, sol);
#ifdef USINGZ
      os << " Z"; put_z(os, sol);
#endif
    } else if (cmd == "RECTD" || cmd == "RECTLD") {
      int prec = t.i32(); double l = t.dbl(), tp = t.dbl(), r = t.dbl(), b = t.dbl(); PathsD ps = rd_pathsdz(t);
      PathsD sol = (cmd == "RECTD") ? RectClip(RectD(l, tp, r, b), ps, prec) : RectClipLines(RectD(l, tp, r, b), ps, prec);
      os << "ok "; put(os, sol);
#ifdef USINGZ
      os << " Z"; put_z(os, sol);
#endif
    }
#ifdef USINGZ
    else if (cmd == "SETZ") {
      int t1 = t.i32(), t2 = t.i32(), cb = t.i32(); int64_t dz = t.i64();
      Point64 b1 = rd_ptz(t), tp1 = rd_ptz(t), b2 = rd_ptz(t), tp2 = rd_ptz(t), ip = rd_ptz(t);
      Clipper64 c; c.DefaultZ = dz;
      Vertex v1, v2; v1.pt = b1; v2.pt = b2;
      LocalMinima lm1(&v1, t1 ? PathType::Clip : PathType::Subject, false), lm2(&v2, t2 ? PathType::Clip : PathType::Subject, false);
      Active e1, e2; e1.bot = b1; e1.top = tp1; e1.local_min = &lm1; e2.bot = b2; e2.top = tp2; e2.local_min = &lm2;
      std::ostringstream lg; size_t n = 0;
      if (cb) c.SetZCallback([&](const Point64& a, const Point64& b, const Point64& c_, const Point64& d, Point64& p) {
        auto w = [&](const Point64& q) { lg << ' ' << q.x << ' ' << q.y << ' ' << q.z; };
        w(a); w(b); w(c_); w(d); lg << ' ' << p.z; ++n; if (cb == 1) p.z = 777; });
      c.SetZ(e1, e2, ip);
      os << ip.z << ' ' << n << lg.str();
    } else if (cmd == "SPLITZ") {
      // real ClipperBase::DoSplitOp on a synthetic output ring [prevOp splitOp splitOp.next nextNextOp rest..] (n >= 4).
      // G: the geometric decisions, derived with the same library calls DoSplitOp makes (they parametrise the Coq model);
      // K: the kept ring from outrec->pts (-1 = disposed); N: the split-off ring from its pts (-1 = none); L: callback log.
      int cb = t.i32(); Path64 ring = rd_pathz(t);
      if (ring.size() < 4) { os << "EXC ring too short"; return; }
      Clipper64 c;
      std::ostringstream lg; size_t n = 0;
      if (cb) c.SetZCallback([&](const Point64& a, const Point64& b, const Point64& c_, const Point64& d, Point64& p) {
        auto w = [&](const Point64& q) { lg << ' ' << q.x << ' ' << q.y << ' ' << q.z; };
        w(a); w(b); w(c_); w(d); lg << ' ' << p.z; ++n; if (cb == 1) p.z = 777; });
      OutRec* orc = c.NewOutRec();
      std::vector<OutPt*> ops;
      for (auto& q : ring) ops.push_back(new OutPt(q, orc));
      for (size_t k = 0; k < ops.size(); ++k) { ops[k]->next = ops[(k + 1) % ops.size()]; ops[k]->prev = ops[(k + ops.size() - 1) % ops.size()]; }
      orc->pts = ops[0];
      Point64 ip0; GetSegmentIntersectPt(ring[0], ring[1], ring[2], ring[3], ip0);
      double area1 = Area(orc->pts), area2 = AreaTriangle(ip0, ring[1], ring[2]);
      bool small = std::fabs(area1) < 2;
      bool keep = std::fabs(area2) >= 1 && (std::fabs(area2) > std::fabs(area1) || (area2 > 0) == (area1 > 0));
      os << "G " << ip0.x << ' ' << ip0.y << ' ' << ip0.z << ' ' << small << ' ' << keep;
      size_t before = c.outrec_list_.size();
      c.DoSplitOp(orc, ops[1]);
      auto put_ring = [&](OutPt* start) {
        if (!start) { os << " -1"; return; }
        std::vector<Point64> v; OutPt* op = start; size_t guard = 0;
        do { v.push_back(op->pt); op = op->next; } while (op != start && ++guard < 100000);
        os << ' ' << v.size(); for (auto& q : v) os << ' ' << q.x << ' ' << q.y << ' ' << q.z;
      };
      os << " K"; put_ring(orc->pts);
      os << " N"; put_ring(c.outrec_list_.size() > before ? c.outrec_list_.back()->pts : nullptr);
      os << " L " << n << lg.str();
    } else if (cmd == "ZCBD") {
      int prec = t.i32();
      Point64 b1 = rd_ptz(t), tp1 = rd_ptz(t), b2 = rd_ptz(t), tp2 = rd_ptz(t), ip = rd_ptz(t);
      ClipperD c(prec);
      std::ostringstream lg;
      c.SetZCallback([&](const PointD& a, const PointD& b, const PointD& c_, const PointD& d, PointD& p) {
        auto w = [&](const PointD& q) { lg << ' ' << hexd(q.x) << ' ' << hexd(q.y) << ' ' << q.z; };
        w(a); w(b); w(c_); w(d); w(p); p.z = 4242; p.x += 1000; p.y -= 1000; });
      c.ZCB(b1, tp1, b2, tp2, ip);
      os << hexd(c.scale_) << lg.str() << ' ' << ip.x << ' ' << ip.y << ' ' << ip.z;
    } else if (cmd == "EQ") {
      Point64 a = rd_ptz(t), b = rd_ptz(t);
      os << ((a == b) ? 1 : 0) << ' ' << ((a != b) ? 1 : 0);
    } else if (cmd == "STRIP") {
      bool closed = t.b(); Path64 p = rd_pathz(t); StripDuplicates(p, closed);
      put(os, p); os << " Z"; put_z(os, Paths64{p});
    } else if (cmd == "TRANSL") {
      int64_t dx = t.i64(), dy = t.i64(); Path64 p = rd_pathz(t); Path64 r = TranslatePath(p, dx, dy);
      put(os, r); os << " Z"; put_z(os, Paths64{r});
    } else if (cmd == "SCALE") {
      double sx = t.dbl(), sy = t.dbl(); Path64 p = rd_pathz(t); int ec = 0; Path64 r = ScalePath<int64_t, int64_t>(p, sx, sy, ec);
      put(os, r); os << " Z"; put_z(os, Paths64{r});
    } else if (cmd == "TRIM") {
      bool open = t.b(); Path64 p = rd_pathz(t); Path64 r = TrimCollinear(p, open);
      put(os, r); os << " Z"; put_z(os, Paths64{r});
    } else if (cmd == "MINK") {
      bool sum = t.b(), closed = t.b(); Path64 pat = rd_pathz(t), p = rd_pathz(t);
      Paths64 r = detail::Minkowski(pat, p, sum, closed);
      put(os, r); os << " Z"; put_z(os, r);
    }
#endif
    else { os << "EXC unknown command " << cmd; }
  });
}
