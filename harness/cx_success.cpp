// cx_success: driver for the success clause of property C11 -- "Execute returns true (the C export returns 0) for every set
// of paths and every clip type and fill rule; ClipType::NoClip yields empty solutions" -- on small lattices, where vertices of
// one path constantly land on vertices and edges of another (closed and open paths).
//   CASE <apis> <ct> <fr> <S> <O> <C>            -> C <failmask> <nonempty01>
//   GEN <seed> <count> <apis>                    -> G <count> <nonempty> <withopen> <touching> <nfail> [| <failmask> <ct> <fr> <S> <O> <C>]
//   EXH <g> <shard> <nshards>                    -> E <count> <nonempty> <nfail> [| <failmask> <ct> <fr> <S> <O> <C>]
// apis / failmask bits: 1 Clipper64 (Paths64, open)  2 Clipper64 (PolyTree64, open)  4 ClipperD (PathsD, open)  8 ClipperD (PolyTreeD, open)
//   16 BooleanOp64  32 BooleanOp_PolyTree64  64 BooleanOpD  128 BooleanOp_PolyTreeD   (exports: return value 0)
//   256 a NoClip run returned a non-empty solution     512 the overloads disagree about success
//   1024 Clipper64 fed through a ReuseableDataContainer64 (fresh object, then Clear + attach again, tree overload)   2048 one Clipper64 executed three times (Clear + same paths before the third)
// paths are <n> <k> x y ... (integers).  GEN: cases are drawn by a splitmix64 stream from <seed> (the seeds come from the check's rng);
// EXH: every open polyline of 3 and 4 lattice points (consecutive points distinct) on the (g+1)x(g+1) lattice against four fixed
// clip shapes, Intersection/Union/Difference/Xor, Clipper64 Paths64 overload.
#include "common.h"
#include "clipper2/clipper.export.h"

using namespace Clipper2Lib;
using vfh::Toks;
using vfh::put;

namespace {

struct Case { int ct = 1, fr = 0; Paths64 S, O, C; };

template <class T> struct Arr { T* p = nullptr; ~Arr() { delete[] p; } };

PathsD to_d(const Paths64& ps) {
  PathsD r; r.reserve(ps.size());
  for (auto& p : ps) { PathD q; q.reserve(p.size()); for (auto& v : p) q.emplace_back((double)v.x, (double)v.y); r.push_back(std::move(q)); }
  return r;
}

size_t npts(const Paths64& ps) { size_t n = 0; for (auto& p : ps) n += p.size(); return n; }
size_t nptsd(const PathsD& ps) { size_t n = 0; for (auto& p : ps) n += p.size(); return n; }

unsigned run_case(const Case& c, unsigned apis, bool& nonempty) {
  unsigned fail = 0;
  const ClipType ct = (ClipType)c.ct; const FillRule fr = (FillRule)c.fr;
  int nok = 0, nrun = 0;
  if (apis & 1) {
    Clipper64 k; k.AddSubject(c.S); k.AddOpenSubject(c.O); k.AddClip(c.C);
    Paths64 a, b; bool ok = k.Execute(ct, fr, a, b); ++nrun; nok += ok;
    if (!ok) fail |= 1;
    if (npts(a) + npts(b)) { nonempty = true; if (c.ct == 0) fail |= 256; }
  }
  if (apis & 2) {
    Clipper64 k; k.AddSubject(c.S); k.AddOpenSubject(c.O); k.AddClip(c.C);
    PolyTree64 t; Paths64 b; bool ok = k.Execute(ct, fr, t, b); ++nrun; nok += ok;
    if (!ok) fail |= 2;
    if (c.ct == 0 && (t.Count() || npts(b))) fail |= 256;
  }
  PathsD Sd, Od, Cd;
  if (apis & (4 | 8 | 64 | 128)) { Sd = to_d(c.S); Od = to_d(c.O); Cd = to_d(c.C); }
  if (apis & 4) {
    ClipperD k(2); k.AddSubject(Sd); k.AddOpenSubject(Od); k.AddClip(Cd);
    PathsD a, b; bool ok = k.Execute(ct, fr, a, b); ++nrun; nok += ok;
    if (!ok) fail |= 4;
    if (c.ct == 0 && (nptsd(a) + nptsd(b))) fail |= 256;
  }
  if (apis & 8) {
    ClipperD k(2); k.AddSubject(Sd); k.AddOpenSubject(Od); k.AddClip(Cd);
    PolyTreeD t; PathsD b; bool ok = k.Execute(ct, fr, t, b); ++nrun; nok += ok;
    if (!ok) fail |= 8;
    if (c.ct == 0 && (t.Count() || nptsd(b))) fail |= 256;
  }
  if (apis & (16 | 32)) {
    Arr<int64_t> s, o, cl;
    s.p = c.S.empty() ? nullptr : CreateCPathsFromPathsT(c.S);
    o.p = c.O.empty() ? nullptr : CreateCPathsFromPathsT(c.O);
    cl.p = c.C.empty() ? nullptr : CreateCPathsFromPathsT(c.C);
    if (apis & 16) {
      Arr<int64_t> sol, solo;
      int rc = BooleanOp64((uint8_t)c.ct, (uint8_t)c.fr, s.p, o.p, cl.p, sol.p, solo.p, true, false); ++nrun; nok += (rc == 0);
      if (rc != 0) fail |= 16;
      if (c.ct == 0 && rc == 0 && (npts(ConvertCPathsToPathsT<int64_t>(sol.p)) + npts(ConvertCPathsToPathsT<int64_t>(solo.p)))) fail |= 256;
    }
    if (apis & 32) {
      Arr<int64_t> sol, solo;
      int rc = BooleanOp_PolyTree64((uint8_t)c.ct, (uint8_t)c.fr, s.p, o.p, cl.p, sol.p, solo.p, true, false); ++nrun; nok += (rc == 0);
      if (rc != 0) fail |= 32;
    }
  }
  if (apis & (64 | 128)) {
    Arr<double> s, o, cl;
    s.p = CreateCPathsDFromPathsD(Sd); o.p = CreateCPathsDFromPathsD(Od); cl.p = CreateCPathsDFromPathsD(Cd);
    if (apis & 64) {
      Arr<double> sol, solo;
      int rc = BooleanOpD((uint8_t)c.ct, (uint8_t)c.fr, s.p, o.p, cl.p, sol.p, solo.p, 2, true, false); ++nrun; nok += (rc == 0);
      if (rc != 0) fail |= 64;
    }
    if (apis & 128) {
      Arr<double> sol, solo;
      int rc = BooleanOp_PolyTreeD((uint8_t)c.ct, (uint8_t)c.fr, s.p, o.p, cl.p, sol.p, solo.p, 2, true, false); ++nrun; nok += (rc == 0);
      if (rc != 0) fail |= 128;
    }
  }
  if (apis & 1024) {       // the same paths through a ReuseableDataContainer64, attached to a fresh and to an already used object
    ReuseableDataContainer64 rd;
    rd.AddPaths(c.S, PathType::Subject, false); rd.AddPaths(c.O, PathType::Subject, true); rd.AddPaths(c.C, PathType::Clip, false);
    Clipper64 k; k.AddReuseableData(rd);
    Paths64 a, b; bool ok = k.Execute(ct, fr, a, b); ++nrun; nok += ok;
    if (!ok) fail |= 1024;
    k.Clear(); k.AddReuseableData(rd);
    PolyTree64 t; ok = k.Execute(ct, fr, t, b); ++nrun; nok += ok;
    if (!ok) fail |= 1024;
    if (c.ct == 0 && (npts(a) + npts(b) + t.Count())) fail |= 256;
  }
  if (apis & 2048) {       // one object used repeatedly: Execute, Execute again, Clear + the same paths, Execute
    Clipper64 k; k.AddSubject(c.S); k.AddOpenSubject(c.O); k.AddClip(c.C);
    Paths64 a, b;
    for (int rep = 0; rep < 3; ++rep) {
      bool ok = k.Execute(ct, fr, a, b); ++nrun; nok += ok;
      if (!ok) fail |= 2048;
      if (rep == 1) { k.Clear(); k.AddSubject(c.S); k.AddOpenSubject(c.O); k.AddClip(c.C); }
    }
  }
  if (nok != 0 && nok != nrun) fail |= 512;
  return fail;
}

void put_case(std::ostream& os, const Case& c) {
  os << c.ct << ' ' << c.fr << ' '; put(os, c.S); os << ' '; put(os, c.O); os << ' '; put(os, c.C);
}

struct Rng {
  uint64_t s;
  uint64_t next() { uint64_t z = (s += 0x9e3779b97f4a7c15ULL); z = (z ^ (z >> 30)) * 0xbf58476d1ce4e5b9ULL; z = (z ^ (z >> 27)) * 0x94d049bb133111ebULL; return z ^ (z >> 31); }
  int below(int n) { return (int)(next() % (uint64_t)n); }
};

Path64 closed_shape(Rng& r, int g) {
  Path64 p;
  int m = r.below(10);
  if (m < 4) {          // axis-parallel rectangle: horizontal edges for open-path vertices to sit on
    int x0 = r.below(g), y0 = r.below(g); int x1 = x0 + 1 + r.below(g - x0), y1 = y0 + 1 + r.below(g - y0);
    p = { Point64(x0, y0), Point64(x1, y0), Point64(x1, y1), Point64(x0, y1) };
    if (r.below(2)) std::reverse(p.begin(), p.end());
  } else {
    int n = 3 + r.below(4);
    for (int i = 0; i < n; ++i) p.emplace_back(r.below(g + 1), r.below(g + 1));
  }
  return p;
}

Path64 open_shape(Rng& r, int g) {
  Path64 p; int n = 2 + r.below(4);
  for (int i = 0; i < n; ++i) p.emplace_back(r.below(g + 1), r.below(g + 1));
  return p;
}

// does some vertex of an open path lie on an edge (or vertex) of a closed path?  (coverage statistic only)
bool touching(const Case& c) {
  auto on_seg = [](const Point64& p, const Point64& a, const Point64& b) {
    int64_t cr = (b.x - a.x) * (p.y - a.y) - (b.y - a.y) * (p.x - a.x);
    if (cr != 0) return false;
    return std::min(a.x, b.x) <= p.x && p.x <= std::max(a.x, b.x) && std::min(a.y, b.y) <= p.y && p.y <= std::max(a.y, b.y);
  };
  for (auto& o : c.O) for (auto& v : o)
    for (const Paths64* ps : { &c.S, &c.C }) for (auto& q : *ps)
      for (size_t i = 0; i < q.size(); ++i) if (on_seg(v, q[i], q[(i + 1) % q.size()])) return true;
  return false;
}

void gen_case(Rng& r, Case& c) {
  int g = 4 + r.below(7);
  c.ct = r.below(16) == 0 ? 0 : 1 + r.below(4);
  c.fr = r.below(4);
  c.S.clear(); c.O.clear(); c.C.clear();
  static const int cnt[4] = { 0, 1, 1, 2 };
  int ns = cnt[r.below(4)], no = cnt[r.below(4)], nc = cnt[r.below(4)];
  if (ns + no == 0) no = 1;
  for (int i = 0; i < ns; ++i) c.S.push_back(closed_shape(r, g));
  for (int i = 0; i < no; ++i) c.O.push_back(open_shape(r, g));
  for (int i = 0; i < nc; ++i) c.C.push_back(closed_shape(r, g));
}

}  // namespace

int main() {
  return vfh::main_loop([](Toks& t, std::ostream& os) {
    std::string cmd = t.next();
    if (cmd == "CASE") {
      unsigned apis = (unsigned)t.i64();
      Case c; c.ct = t.i32(); c.fr = t.i32(); c.S = t.paths(); c.O = t.paths(); c.C = t.paths();
      bool ne = false; unsigned f = run_case(c, apis, ne);
      os << "C " << f << ' ' << (ne ? 1 : 0);
    } else if (cmd == "GEN") {
      Rng r{ t.u64() }; long count = (long)t.i64(); unsigned apis = (unsigned)t.i64();
      long nonempty = 0, withopen = 0, touch = 0, nfail = 0; Case first; unsigned firstmask = 0; Case c;
      for (long i = 0; i < count; ++i) {
        gen_case(r, c);
        bool ne = false; unsigned f = run_case(c, apis, ne);
        nonempty += ne; withopen += !c.O.empty(); touch += touching(c);
        if (f) { if (!nfail) { first = c; firstmask = f; } ++nfail; }
      }
      os << "G " << count << ' ' << nonempty << ' ' << withopen << ' ' << touch << ' ' << nfail;
      if (nfail) { os << " | " << firstmask << ' '; put_case(os, first); }
    } else if (cmd == "EXH") {
      int g = t.i32(); long shard = (long)t.i64(), nsh = (long)t.i64();
      std::vector<Point64> L; for (int y = 0; y <= g; ++y) for (int x = 0; x <= g; ++x) L.emplace_back(x, y);
      std::vector<Path64> clips = {
        { Point64(1, 1), Point64(g - 1, 1), Point64(g - 1, g - 1), Point64(1, g - 1) },
        { Point64(0, 0), Point64(g, 0), Point64(g, g), Point64(0, g) },
        { Point64(0, 0), Point64(g, 0), Point64(0, g) },
        { Point64(g / 2, 0), Point64(g, g / 2), Point64(g / 2, g), Point64(0, g / 2) } };
      long count = 0, nonempty = 0, nfail = 0, idx = 0; Case first; unsigned firstmask = 0; Case c; c.fr = 1;
      const size_t n = L.size();
      auto one = [&](const Path64& line) {
        if ((idx++ % nsh) != shard) return;
        for (auto& cl : clips) for (int ct = 1; ct <= 4; ++ct) {
          c.ct = ct; c.O = { line }; c.C = { cl };
          bool ne = false; unsigned f = run_case(c, 1, ne); ++count; nonempty += ne;
          if (f) { if (!nfail) { first = c; firstmask = f; } ++nfail; }
        }
      };
      for (size_t a = 0; a < n; ++a) for (size_t b = 0; b < n; ++b) { if (b == a) continue;
        for (size_t d = 0; d < n; ++d) { if (d == b) continue;
          one(Path64{ L[a], L[b], L[d] });
          for (size_t e = 0; e < n; ++e) { if (e == d) continue; one(Path64{ L[a], L[b], L[d], L[e] }); } } }
      os << "E " << count << ' ' << nonempty << ' ' << nfail;
      if (nfail) { os << " | " << firstmask << ' '; put_case(os, first); }
    } else os << "ERR unknown command " << cmd;
  });
}
