// C13 kernel harness: what AddPaths_ / LocMinSorter / Reset's stable_sort compute, read back through private access.
//   ADD1 <path>              Clipper64::AddSubject({path}); ring read from vertex_lists_[0][0] along ->next
//        -> "NONE" (nothing linked) | "R n (x y flags)*n M k idx*k"   idx = ring position of minima_list_[j]->vertex
//   SORTED <pathsS> <pathsC> AddSubject(S); AddClip(C); Reset();  minima_list_ in order, each with the ring read
//        from its vertex -> "k (x y isclip n (x y flags)*n)*k"
//   (same formats as oracle/drv_locmin.ml)
#include "common.h"
using namespace vfh;

static void put_ring(std::ostream& os, const Vertex* v0) {
  std::vector<const Vertex*> r; const Vertex* v = v0; size_t guard = 0;
  do { r.push_back(v); v = v->next; } while (v && v != v0 && ++guard < 100000000);
  os << r.size();
  for (auto* u : r) os << ' ' << u->pt.x << ' ' << u->pt.y << ' ' << (uint32_t)u->flags;
}

int main() {
  return main_loop([](Toks& t, std::ostream& os) {
    std::string cmd = t.next();
    if (cmd == "ADD1") {
      Path64 p = t.path();
      Clipper64 c;
      c.AddSubject(Paths64{p});
      if (c.vertex_lists_.empty() || !c.vertex_lists_[0][0].next) {
        // a path that is not linked cannot have produced minima
        os << (c.minima_list_.empty() ? "NONE" : "NONE-BUT-MINIMA");
        return;
      }
      const Vertex* v0 = &c.vertex_lists_[0][0];
      std::map<const Vertex*, size_t> idx; { const Vertex* v = v0; size_t i = 0; do { idx[v] = i++; v = v->next; } while (v != v0); }
      os << "R "; put_ring(os, v0);
      os << " M " << c.minima_list_.size();
      for (auto& lm : c.minima_list_) {
        auto it = idx.find(lm->vertex);
        os << ' ' << (it == idx.end() ? -1LL : (long long)it->second);
        if (lm->polytype != PathType::Subject || lm->is_open) os << "!";
      }
    } else if (cmd == "SORTED") {
      Paths64 s = t.paths(), cl = t.paths();
      Clipper64 c;
      c.AddSubject(s); c.AddClip(cl);
      c.Reset();
      os << c.minima_list_.size();
      for (auto& lm : c.minima_list_) {
        os << ' ' << lm->vertex->pt.x << ' ' << lm->vertex->pt.y << ' ' << (lm->polytype == PathType::Clip ? 1 : 0) << ' ';
        if (lm->is_open) os << "open!";
        put_ring(os, lm->vertex);
      }
      c.CleanUp();
    } else { os << "EXC unknown command " << cmd; }
  });
}
