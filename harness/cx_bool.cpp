// Boolean-operation driver.  One case per line:
//   BOOL ct fr pc rs tree <pathsS> <pathsO> <pathsC>
//     -> "ok|fail <closed paths> <open paths>"  and, when tree=1,  " T <n> (depth isHole nChildren <path>)*" in preorder
//   OPENINV ct fr pc rs <pathsS> <pathsO> <pathsC>
//     runs the sweep step by step (the statements of ClipperBase::ExecuteInternal, private access) and looks at the active edge
//     list after every step; then runs the public Execute on a second object and compares the two solutions.
//     -> "inv <probes> <open_hot> <front_viol> <shared_end_top> <lm_both> <lb_horz_right> <lb_horz_left> <rb_horz> <same> <ok>"
//        probes          number of times the active edge list was examined
//        open_hot        hot open-path edges seen
//        front_viol      of those: the edge is the front edge of its outrec although it descends the input path (wind_dx < 0), or the
//                        back edge although it ascends, or neither (AddLocalMaxPoly's IsFront(e1) == IsFront(e2) needs one of these)
//        shared_end_top  pairs of active edges whose vertex_top is the same OpenStart/OpenEnd vertex (AddLocalMaxPoly's IsOpenEnd
//                        branches need such a pair)
//        lm_both         local minima with two bounds; lb_horz_right/left: the descending (left) bound starts with a horizontal heading
//                        right/left; rb_horz: the ascending (right) bound starts with a horizontal (InsertLocalMinimaIntoAEL's
//                        IsHorizontal(*right_bound) branch)
//        same            stepwise solution == Execute's solution (paths); ok = Execute's return value
#include "common.h"
using namespace vfh;

static void put_tree(std::ostream& os, const PolyPath64& pp, int depth, int& count, std::ostringstream& body) {
  for (const auto& ch : pp) {
    ++count;
    body << ' ' << depth << ' ' << (ch->IsHole() ? 1 : 0) << ' ' << ch->Count() << ' ';
    put(body, ch->Polygon());
    put_tree(os, *ch, depth + 1, count, body);
  }
}

struct Probe { long probes = 0, open_hot = 0, front_viol = 0, shared_end_top = 0; };

static void probe(Clipper64& c, Probe& pr) {
  ++pr.probes;
  for (Active* e = c.actives_; e; e = e->next_in_ael) {
    if (!IsOpen(*e)) continue;
    if (e->outrec) {
      ++pr.open_hot;
      bool front = (e == e->outrec->front_edge), back = (e == e->outrec->back_edge);
      if (front == back || front != (e->wind_dx > 0)) ++pr.front_viol;
    }
    if (IsOpenEnd(*e->vertex_top))
      for (Active* f = e->next_in_ael; f; f = f->next_in_ael)
        if (f->vertex_top == e->vertex_top) ++pr.shared_end_top;
  }
}

// the statements of ClipperBase::ExecuteInternal with a probe after every step
static bool sweep_probed(Clipper64& c, ClipType ct, FillRule fr, Probe& pr) {
  c.cliptype_ = ct; c.fillrule_ = fr; c.using_polytree_ = false;
  c.Reset();
  int64_t y;
  if (ct == ClipType::NoClip || !c.PopScanline(y)) return true;
  while (c.succeeded_) {
    c.InsertLocalMinimaIntoAEL(y); probe(c, pr);
    Active* e;
    while (c.PopHorz(e)) { c.DoHorizontal(*e); probe(c, pr); }
    if (c.horz_seg_list_.size() > 0) { c.ConvertHorzSegsToJoins(); c.horz_seg_list_.clear(); }
    c.bot_y_ = y;
    if (!c.PopScanline(y)) break;
    c.DoIntersections(y); probe(c, pr);
    c.DoTopOfScanbeam(y); probe(c, pr);
    while (c.PopHorz(e)) { c.DoHorizontal(*e); probe(c, pr); }
  }
  if (c.succeeded_) c.ProcessHorzJoins();
  return c.succeeded_;
}

int main() {
  return main_loop([](Toks& t, std::ostream& os) {
    std::string cmd = t.next();
    if (cmd == "BOOL") {
      int ct = t.i32(), fr = t.i32(); bool pc = t.b(), rs = t.b(), tree = t.b();
      Paths64 s = t.paths(), o = t.paths(), c = t.paths();
      Clipper64 clp;
      clp.PreserveCollinear(pc);
      clp.ReverseSolution(rs);
      clp.AddSubject(s); clp.AddOpenSubject(o); clp.AddClip(c);
      Paths64 closed, open; bool ok;
      if (!tree) {
        ok = clp.Execute((ClipType)ct, (FillRule)fr, closed, open);
        os << (ok ? "ok " : "fail "); put(os, closed); os << ' '; put(os, open);
      } else {
        PolyTree64 pt;
        ok = clp.Execute((ClipType)ct, (FillRule)fr, pt, open);
        closed = PolyTreeToPaths64(pt);
        os << (ok ? "ok " : "fail "); put(os, closed); os << ' '; put(os, open);
        int count = 0; std::ostringstream body; put_tree(os, pt, 0, count, body);
        os << " T " << count << body.str();
      }
    } else if (cmd == "OPENINV") {
      int ct = t.i32(), fr = t.i32(); bool pc = t.b(), rs = t.b();
      Paths64 s = t.paths(), o = t.paths(), c = t.paths();
      Clipper64 clp, ref;
      for (Clipper64* q : {&clp, &ref}) {
        q->PreserveCollinear(pc); q->ReverseSolution(rs);
        q->AddSubject(s); q->AddOpenSubject(o); q->AddClip(c);
      }
      long lm_both = 0, lb_r = 0, lb_l = 0, rb_h = 0;
      for (const auto& lm : clp.minima_list_) {
        const Vertex* v = lm->vertex;
        if ((v->flags & (VertexFlags::OpenStart | VertexFlags::OpenEnd)) != VertexFlags::Empty) continue;
        ++lm_both;
        if (v->prev->pt.y == v->pt.y) { if (v->prev->pt.x > v->pt.x) ++lb_r; else ++lb_l; }
        else if (v->next->pt.y == v->pt.y) ++rb_h;
      }
      Probe pr;
      Paths64 closed, open, rclosed, ropen;
      if (sweep_probed(clp, (ClipType)ct, (FillRule)fr, pr)) clp.BuildPaths64(closed, &open);
      clp.CleanUp();
      bool ok = ref.Execute((ClipType)ct, (FillRule)fr, rclosed, ropen);
      os << "inv " << pr.probes << ' ' << pr.open_hot << ' ' << pr.front_viol << ' ' << pr.shared_end_top << ' ' << lm_both << ' '
         << lb_r << ' ' << lb_l << ' ' << rb_h << ' ' << ((closed == rclosed && open == ropen) ? 1 : 0) << ' ' << (ok ? 1 : 0);
    } else { os << "EXC unknown command " << cmd; }
  });
}
