// Boolean-operation driver.  One case per line:
//   BOOL ct fr pc rs tree <pathsS> <pathsO> <pathsC>
//     -> "ok|fail <closed paths> <open paths>"  and, when tree=1,  " T <n> (depth isHole nChildren <path>)*" in preorder
#include "common.h"
using namespace vfh;

static void put_tree(std::ostream& os, const PolyPath64& pp, int depth, int& count, std::ostringstream& body) {
  for (const auto& ch : pp) {
    ++count;
    body << ' ' << depth << ' ' << (ch->IsHole() ? 1 : 0) << ' ' << ch->Count() << ' ';
    put(body, ch->Polygon());
    put_tree(os, *ch, depth + 1, count, body);
  }
}

int main() {
  return main_loop([](Toks& t, std::ostream& os) {
    std::string cmd = t.next();
    if (cmd == "BOOL") {
      int ct = t.i32(), fr = t.i32(); bool pc = t.b(), rs = t.b(), tree = t.b();
      Paths64 s = t.paths(), o = t.paths(), c = t.paths();
      Clipper64 clp;
      clp.PreserveCollinear(pc);
      clp.ReverseSolution(rs);
      clp.AddSubject(s); clp.AddOpenSubject(o); clp.AddClip(c);
      Paths64 closed, open; bool ok;
      if (!tree) {
        ok = clp.Execute((ClipType)ct, (FillRule)fr, closed, open);
        os << (ok ? "ok " : "fail "); put(os, closed); os << ' '; put(os, open);
      } else {
        PolyTree64 pt;
        ok = clp.Execute((ClipType)ct, (FillRule)fr, pt, open);
        closed = PolyTreeToPaths64(pt);
        os << (ok ? "ok " : "fail "); put(os, closed); os << ' '; put(os, open);
        int count = 0; std::ostringstream body; put_tree(os, pt, 0, count, body);
        os << " T " << count << body.str();
      }
    } else { os << "EXC unknown command " << cmd; }
  });
}
