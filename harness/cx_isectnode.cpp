// Tie between coq/model/IsectNode.v and ClipperBase::AddNewIntersectNode (clipper.engine.cpp).
//   ANI lo|hi b1x b1y t1x t1y b2x b2y t2x t2y bot_y top_y
//       builds two synthetic Actives (bot, top, dx = GetDx(bot, top), curr_x = TopX(e, top_y)), sets bot_y_ and calls the
//       real member function; -> "x y k": the point of the new IntersectNode and the repair branch the harness re-derives
//       from the code's own conditions (0 none, 1/2 closest point on e1/e2, 3..6 clamp to top_y/bot_y with TopX of e1/e2).
//   The variant word only documents which build (plain / hi = -DCLIPPER2_HI_PRECISION=1) the line is meant for.
#include "common.h"
using namespace vfh;

int main() {
  return main_loop([](Toks& t, std::ostream& os) {
    std::string cmd = t.next();
    if (cmd != "ANI") { os << "ERR unknown command " << cmd; return; }
    t.next();
    Active e1, e2;
    e1.bot.x = t.i64(); e1.bot.y = t.i64(); e1.top.x = t.i64(); e1.top.y = t.i64();
    e2.bot.x = t.i64(); e2.bot.y = t.i64(); e2.top.x = t.i64(); e2.top.y = t.i64();
    int64_t bot_y = t.i64(), top_y = t.i64();
    e1.dx = GetDx(e1.bot, e1.top); e2.dx = GetDx(e2.bot, e2.top);
    e1.curr_x = TopX(e1, top_y); e2.curr_x = TopX(e2, top_y);
    Clipper64 c;
    c.bot_y_ = bot_y;
    // the raw point, recomputed the way the function does, to name the branch
    Point64 ip;
    if (!GetSegmentIntersectPt(e1.bot, e1.top, e2.bot, e2.top, ip)) ip = Point64(e1.curr_x, top_y);
    int k = 0;
    if (ip.y > bot_y || ip.y < top_y) {
      double a1 = std::fabs(e1.dx), a2 = std::fabs(e2.dx);
      if (a1 > 100 && a2 > 100) k = a1 > a2 ? 1 : 2;
      else if (a1 > 100) k = 1;
      else if (a2 > 100) k = 2;
      else k = (ip.y < top_y ? 3 : 5) + (a1 < a2 ? 0 : 1);
    }
    c.AddNewIntersectNode(e1, e2, top_y);
    const Point64& r = c.intersect_nodes_.back().pt;
    os << r.x << ' ' << r.y << ' ' << k;
    c.intersect_nodes_.clear();
  });
}
